// Package c08: module digests are a pure, sensitive function of content; manifests are canonical.
//
// Bounded-exhaustive exploration of the real bufmodule / bufcas code (see NOTES.md):
//
//	part A  every file set of <= K paths of a 14-path universe x contents {"", "a", "b"}, digested as a
//	        local module (memory, disk, tar and zip round trips, every Walk permutation, names none/n1/n2,
//	        targeting variants, v1 object data) and as a remote module (own ModuleDataProvider with b5 and
//	        b4 keys, bufmoduletesting.OmniProvider, module cache dir and tar), plus every single
//	        perturbation (content / rename / add / remove of every file);
//	part A2 every single-byte replacement at every position of module-file contents of several lengths;
//	part B  every DAG on <= 3 modules x every local/remote assignment x naming x add order x targeting,
//	        every single-module content change, every single pinned dependency-digest byte change;
//	part C  bufcas file sets / manifests over an extended path universe (spaces, unicode, control chars);
//	part F  every read fault (Stat / Get / Read / Close / Walk x path x occurrence x once|persistent x error kind)
//	        of small file sets through nine consuming scenarios and of dependency graphs (fault.go).
//
// Part B also enumerates the path scheme of the imported files (plain, well-known-type path provided by a
// module of the set, well-known-type import that nobody provides).
//
// Oracles: the independent reference construction in ref.go, invariance, sensitivity, round trip; under a
// read fault: an error or the fault-free value, never the value of another file / dependency set.
package c08

import (
	"context"
	"encoding/hex"
	"errors"
	"fmt"
	"hash/fnv"
	"os"
	"path/filepath"
	"runtime/debug"
	"sort"
	"strings"
	"sync"
	"time"

	"github.com/bufbuild/buf/private/bufpkg/bufmodule"
	"github.com/bufbuild/buf/private/bufpkg/bufmodule/bufmoduletesting"
	"github.com/bufbuild/buf/private/bufpkg/bufparse"
	"github.com/bufbuild/buf/private/gen/data/datawkt"
	"github.com/bufbuild/buf/private/pkg/slogext"
	"github.com/bufbuild/buf/private/pkg/storage"
	"github.com/bufbuild/bufverif/internal/enum"
	"github.com/bufbuild/bufverif/internal/evid"
)

func init() {
	evid.Register(&evid.Check{ID: "C08", Level: "exploration", Run: run, QuickBudget: 300 * time.Second, ThoroughBudget: 20 * time.Minute})
}

// universe is the 14-path universe of DESIGN.md.
var universe = []string{
	"a.proto", "d/a.proto", "d/e/b.proto", "a b.proto", "a  b.proto", "ü.proto",
	"LICENSE", "d/LICENSE",
	"buf.md", "README.md", "README.markdown",
	"x.txt", "buf.yaml", "a.proto.bak",
}

var contentAlphabet = []string{"", "a", "b"}

var digestTypes = []string{"b4", "b5"}

// explorer carries the run and merges per-item tallies.
type explorer struct {
	r       *evid.Run
	ctx     context.Context
	scratch string
	mu      sync.Mutex
	total   tally
	memo    *memo
}

func (e *explorer) merge(t tally) {
	e.mu.Lock()
	for k, v := range t {
		e.total[k] += v
	}
	e.mu.Unlock()
}

func (e *explorer) count(k string) int {
	e.mu.Lock()
	defer e.mu.Unlock()
	return e.total[k]
}

func run(r *evid.Run) {
	r.Rule("part A: every subset of <= K paths of the 14-path universe x every content vector over {\"\",a,b}, each digested (b4 and b5) " +
		"through every configuration (backend x Walk permutation x name x locality x provider x targeting) and every single perturbation; " +
		"part A2: every single-byte replacement at every position; part B: every DAG on <= 3 modules x local/remote assignment x naming x add order x targeting " +
		"x provider, every single-module content change and every single pinned dependency-digest byte change; part C: every subset of <= K paths of the " +
		"20-path manifest universe x contents {\"\",a}; part B also over the path scheme of the imported files {plain, well-known-type path provided by a module, " +
		"well-known-type import nobody provides}; part F: every read fault (operation in {Stat, Get, Read, Close, Walk} x path x occurrence x {once, persistent} x error kind) " +
		"recorded for every file set of <= 2 (thorough 3) paths x 9 consuming scenarios and for every dependency graph x faulty module. " +
		"A case is distinct and non-trivial when its reference module-file set (A), its " +
		"(graph, assignment, naming, path scheme) tuple (B), its reference manifest text (C) or its (scenario, file set) / (graph, faulty module) pair (F) is new and non-empty.")
	r.Assume("SHAKE256 from golang.org/x/crypto/sha3 is collision free on the enumerated inputs (used as the reference hash)")
	r.Assume("a local module without any .proto file has no b5 digest (buf reports NoProtoFilesError); such (file set, local, b5) combinations are counted as skipped, the same file sets are still digested as remote modules and with b4")
	r.Assume("b4 with v1 buf.yaml/buf.lock object data hashes them as two extra manifest entries (documented legacy construction); b5 must ignore them")
	r.Assume("dependencies of remote modules are pinned b5 module keys; the b4-keyed dependency path through a CommitProvider is not explored")
	r.Assume("parts A-C: storage backends are healthy; the disk backend is a Linux file system accepting the universe's file names")
	r.Assume("part F: a fault is a failing call on a bucket whose content never changes (Walk keeps listing every object); under such a fault a digest / manifest / archive must be an error or the fault-free value. Stat is failed with I/O-class errors only: a Stat answering not-exist is an answer (it is how the documentation file is chosen), not a fault. Silently truncated reads are indistinguishable from shorter files and not injected")

	scratch, err := os.MkdirTemp("", "verif-c08-")
	if err != nil {
		r.Incomplete("cannot create scratch dir: " + err.Error())
		return
	}
	defer os.RemoveAll(scratch)

	// Every content hash in buf allocates a 32 KiB copy buffer, so with a tiny live heap the collector would
	// run every few hundred digests; a larger GC target trades some memory for time. The soft memory limit keeps
	// the process below ~3 GiB whatever the live heap is (both settings are restored on return).
	defer debug.SetGCPercent(debug.SetGCPercent(400))
	defer debug.SetMemoryLimit(debug.SetMemoryLimit(3 << 30))

	e := &explorer{r: r, ctx: context.Background(), scratch: scratch, total: tally{}}
	k := 3
	if !r.Quick() {
		k = 4
	}
	r.Set("bound_max_files_per_set", k)
	r.Set("universe_paths", universe)
	r.Set("content_alphabet", contentAlphabet)

	// VERIF_C08_PARTS (debugging aid, e.g. "B,C") restricts the run to some parts; such a run is never exhaustive.
	parts := map[string]bool{"A": true, "A2": true, "B": true, "C": true, "F": true}
	if sel := os.Getenv("VERIF_C08_PARTS"); sel != "" {
		parts = map[string]bool{}
		for _, p := range strings.Split(sel, ",") {
			parts[p] = true
		}
		r.Incomplete("partial run: VERIF_C08_PARTS=" + sel)
	}
	// the path schemes of part B are only meaningful if buf considers these paths well-known types
	for _, p := range append(append([]string(nil), wktProviderPaths...), wktUnprovidedImport) {
		if !datawkt.Exists(p) {
			r.Incomplete("vacuity: " + p + " is not a well-known-type path of this buf tree")
		}
	}
	r.Set("B_path_schemes", []string{"plain", schemeNames[schemeWKTProvider], schemeNames[schemeWKTUnprovided]})
	// cheap parts first, so that an overloaded machine cuts only the tail of part A
	if parts["A2"] {
		e.partBytes()
	}
	if parts["B"] {
		e.partB()
	}
	if parts["C"] {
		e.partC(k)
	}
	if parts["F"] {
		e.partF()
	}
	if parts["A"] {
		e.memo = newMemo()
		e.partA(k)
		if !r.Expired() {
			e.purity()
		}
		e.memo = nil
	}

	// coverage facts and vacuity guards
	keys := make([]string, 0, len(e.total))
	for key := range e.total {
		keys = append(keys, key)
	}
	sort.Strings(keys)
	clauses := map[string]int{}
	for _, key := range keys {
		clauses[key] = e.total[key]
	}
	r.Set("clause_counts", clauses)
	for _, must := range []string{
		"A/cases", "A/cases-with-non-module-files", "A/cases-with-shadowed-doc-file", "A/cases-with-nested-license",
		"A/agree/baseline", "A/agree/name", "A/agree/walk-order", "A/agree/backend-disk", "A/agree/backend-tar", "A/agree/backend-zip",
		"A/agree/remote-b5key", "A/agree/remote-b4key", "A/agree/remote-omni", "A/agree/cache-dir", "A/agree/cache-tar",
		"A/agree/targeting", "A/agree/v1-object-data",
		"A/perturb/content/module", "A/perturb/content/non-module", "A/perturb/rename/module", "A/perturb/rename/non-module",
		"A/perturb/add/module", "A/perturb/add/non-module", "A/perturb/remove/module", "A/perturb/remove/non-module",
		"A2/byte-replacements", "A2/large-content-agree/backend-disk", "A2/large-content-agree/backend-tar", "A2/large-content-agree/backend-zip",
		"B/cases", "B/cases-with-transitive-dep", "B/cases-mixed-local-remote", "B/agree/local", "B/agree/remote", "B/agree/omni",
		"B/perturb/dependent-changed", "B/perturb/independent-unchanged", "B/pinned-digest-change/detected", "B/pinned-digest-change/rekeyed",
		"B/dep-order-not-sorted-as-given",
		"B/cases-wkt-path-provider", "B/cases-wkt-import-unprovided", "B/wkt-provider-edges/local-on-local", "B/wkt-provider-edges/local-on-remote",
		"B/agree/wkt-path-provider/local-importer", "B/agree/wkt-import-unprovided/local-importer", "B/perturb/dependent-changed/wkt-path-provider",
		"C/cases", "C/roundtrip-ok", "C/paths-with-space", "C/paths-with-unicode", "C/walk-orders",
		"F/cases", "F/dependency-cases", "F/outcome/error-reported", "F/outcome/fault-survived", "F/values-unaffected",
		"F/faults-fired/stat-io", "F/faults-fired/get-notexist", "F/faults-fired/get-io", "F/faults-fired/read-io", "F/faults-fired/read-unexpected-eof",
		"F/faults-fired/close-io", "F/faults-fired/walk-io", "F/faults-fired/walk-notexist",
	} {
		if e.total[must] == 0 && !r.Expired() && parts[strings.SplitN(must, "/", 2)[0]] {
			r.Incomplete("vacuity: clause counter " + must + " is zero")
		}
	}
}

// ---------------------------------------------------------------------------------------------
// part A

type caseA struct {
	Part     string            `json:"part"`
	Files    map[string]string `json:"files"`
	Config   string            `json:"config,omitempty"`
	Order    []string          `json:"walk_order,omitempty"`
	Digest   string            `json:"digest_type,omitempty"`
	Want     string            `json:"want,omitempty"`
	Got      string            `json:"got,omitempty"`
	Err      string            `json:"error,omitempty"`
	Perturb  string            `json:"perturbation,omitempty"`
	Files2   map[string]string `json:"files_after,omitempty"`
	Got2     string            `json:"got_after,omitempty"`
	Expected string            `json:"expected,omitempty"`
}

func (e *explorer) partA(k int) {
	subsets := enum.Subsets(len(universe), 0, k)
	e.r.Set("A_subsets", len(subsets))
	var caseCounter int
	starts := make([]int, len(subsets))
	for i, s := range subsets {
		starts[i] = caseCounter
		n := 1
		for range s {
			n *= len(contentAlphabet)
		}
		caseCounter += n
	}
	e.r.Set("A_file_sets", caseCounter)
	// simplest first (enum.Subsets order): a deadline cuts the largest file sets, never the small ones
	e.r.ParallelFor(len(subsets), 0, func(si int) {
		subset := subsets[si]
		t := tally{}
		dims := make([]int, len(subset))
		for i := range dims {
			dims[i] = len(contentAlphabet)
		}
		caseID := starts[si]
		each := func(cv []int) bool {
			files := map[string]string{}
			for i, u := range subset {
				files[universe[u]] = contentAlphabet[cv[i]]
			}
			e.caseA(t, caseID, files)
			caseID++
			return !e.r.Expired()
		}
		if len(subset) == 0 {
			each(nil)
		} else {
			enum.Product(dims, each)
		}
		e.merge(t)
	})
}

// caseState holds the per-case reference values and the baseline observation.
type caseState struct {
	e        *explorer
	t        tally
	files    map[string]string
	mf       map[string]string
	hasProto bool
	want     map[string]string
	base     map[string]string // baseline (local, memory) observation per digest type, "" if unavailable
	baseErr  map[string]string // error class of the baseline configuration per digest type
}

func (e *explorer) caseA(t tally, caseID int, files map[string]string) {
	r := e.r
	r.Eval(1)
	t.add("A/cases", 1)
	mf := refModuleFiles(files)
	cs := &caseState{e: e, t: t, files: files, mf: mf, hasProto: refHasProto(files),
		want: map[string]string{"b4": refB4(mf, nil), "b5": refB5(mf, nil)},
		base: map[string]string{}, baseErr: map[string]string{}}
	if len(mf) > 0 {
		r.Distinct("A|" + refKey(mf))
	}
	if len(mf) < len(files) {
		t.add("A/cases-with-non-module-files", 1)
	}
	docs := 0
	for _, d := range refDocOrder {
		if _, ok := files[d]; ok {
			docs++
		}
	}
	if docs >= 2 {
		t.add("A/cases-with-shadowed-doc-file", 1)
	}
	if _, ok := files["d/LICENSE"]; ok {
		t.add("A/cases-with-nested-license", 1)
	}
	if !cs.hasProto {
		t.add("A/cases-without-proto", 1)
	}
	r.SampleEvery(caseID, 1499, func() any {
		return map[string]any{"part": "A", "files": files, "module_files": sortedKeys(mf), "ref_b4": cs.want["b4"], "ref_b5": cs.want["b5"]}
	})
	paths := sortedKeys(files)
	ctx := e.ctx

	localSpec := func() modSpec {
		b, err := memBucket(files)
		if err != nil {
			panic(err)
		}
		return modSpec{bucket: b, bucketID: "bkt", target: true}
	}
	remoteSpec := func(keyDigest string) modSpec {
		b, err := memBucket(files)
		if err != nil {
			panic(err)
		}
		return modSpec{remote: true, bucket: b, name: nameN1, commit: commitFor(nameN1, 0), target: true, keyDigest: keyDigest}
	}
	one := func(s modSpec, cm cacheMode) func() (bufmodule.Module, error) {
		return func() (bufmodule.Module, error) {
			mods, err := buildSet(ctx, []modSpec{s}, []int{0}, cm)
			if err != nil {
				return nil, err
			}
			return mods[0], nil
		}
	}

	// 1. baseline
	cs.config("baseline", true, nil, nil, one(localSpec(), cacheNone))
	// File sets of 4 paths (thorough tier) run the order/backend/locality configurations and the perturbations;
	// the dimensions that do not interact with the number of files (names, b4 key, cache, OmniProvider,
	// targeting, v1 object data) and the 8-bit flips are exhaustive over the file sets of <= 3 paths.
	full := len(files) <= 3
	// 2. names
	for _, n := range []string{nameN1, nameN2} {
		if !full {
			break
		}
		s := localSpec()
		s.name, s.commit = n, commitFor(n, 0)
		cs.config("name", true, nil, nil, one(s, cacheNone))
	}
	// 3. every Walk permutation of all files of the set
	if len(paths) >= 2 {
		for pi, perm := range enum.Permutations(len(paths)) {
			if pi == 0 {
				continue
			}
			order := make([]string, len(paths))
			for i, p := range perm {
				order[i] = paths[p]
			}
			s := localSpec()
			s.bucket = withOrder(s.bucket, order)
			cs.config("walk-order", true, order, nil, one(s, cacheNone))
		}
		// remote, reversed
		order := make([]string, len(paths))
		for i := range paths {
			order[i] = paths[len(paths)-1-i]
		}
		s := remoteSpec(cs.want["b5"])
		s.bucket = withOrder(s.bucket, order)
		cs.config("walk-order", false, order, nil, one(s, cacheNone))
	}
	// 4. backends
	{
		dir := filepath.Join(e.scratch, fmt.Sprintf("a-%d", caseID))
		b, err := diskBucket(dir, files)
		if err != nil {
			r.Incomplete("disk backend: " + err.Error())
		} else {
			s := localSpec()
			s.bucket = b
			cs.config("backend-disk", true, nil, nil, one(s, cacheNone))
		}
		_ = os.RemoveAll(dir)
	}
	if b, err := tarRoundTrip(ctx, files); err != nil {
		cs.violate("backend-error/tar/"+errClass(err), "tar round trip of the file set failed: "+err.Error(), caseA{Part: "A", Files: files, Config: "backend-tar", Err: err.Error()})
	} else {
		s := localSpec()
		s.bucket = b
		cs.config("backend-tar", true, nil, nil, one(s, cacheNone))
	}
	if b, err := zipRoundTrip(ctx, files, caseID%2 == 0); err != nil {
		cs.violate("backend-error/zip/"+errClass(err), "zip round trip of the file set failed: "+err.Error(), caseA{Part: "A", Files: files, Config: "backend-zip", Err: err.Error()})
	} else {
		s := localSpec()
		s.bucket = b
		cs.config("backend-zip", true, nil, nil, one(s, cacheNone))
	}
	// 5. remote modules: own provider (b5 key, b4 key), module cache (dir, tar), OmniProvider
	cs.config("remote-b5key", false, nil, nil, one(remoteSpec(cs.want["b5"]), cacheNone))
	if !full {
		cs.perturbations()
		return
	}
	cs.config("remote-b4key", false, nil, nil, one(remoteSpec(cs.want["b4"]), cacheNone))
	cs.config("cache-dir", false, nil, nil, one(remoteSpec(cs.want["b5"]), cacheDir))
	cs.config("cache-tar", false, nil, nil, one(remoteSpec(cs.want["b5"]), cacheTar))
	if cs.hasProto { // the OmniProvider computes keys from a local module, which needs a .proto file for b5
		cs.config("remote-omni", false, nil, nil, func() (bufmodule.Module, error) {
			mods, err := buildSetOmni(ctx, []modSpec{{remote: true, name: nameN1, commit: commitFor(nameN1, 0), target: true}},
				[]map[string]string{files}, []int{0})
			if err != nil {
				return nil, err
			}
			return mods[0], nil
		})
	}
	// 6. targeting
	for _, p := range paths {
		if !refIsProto(p) {
			continue
		}
		s := localSpec()
		s.targetPaths = []string{p}
		cs.config("targeting", true, nil, nil, one(s, cacheNone))
		s = localSpec()
		s.excludePaths = []string{p}
		cs.config("targeting", true, nil, nil, one(s, cacheNone))
		s = localSpec()
		s.protoTarget = p
		cs.config("targeting", true, nil, nil, one(s, cacheNone))
		s = remoteSpec(cs.want["b5"])
		s.targetPaths = []string{p}
		cs.config("targeting", false, nil, nil, one(s, cacheNone))
	}
	cs.config("targeting", true, nil, nil, func() (bufmodule.Module, error) {
		s := localSpec()
		s.target = false
		other, err := memBucket(map[string]string{"zz/t.proto": ""})
		if err != nil {
			return nil, err
		}
		mods, err := buildSet(ctx, []modSpec{s, {bucket: other, bucketID: "other", target: true}}, []int{0, 1}, cacheNone)
		if err != nil {
			return nil, err
		}
		return mods[0], nil
	})
	// 7. v1 object data: two more manifest entries for b4, nothing for b5
	{
		s := localSpec()
		s.yaml = &[2]string{"buf.yaml", "version: v1\n"}
		s.lock = &[2]string{"buf.lock", "# lock\n"}
		od := map[string]string{"buf.yaml": "version: v1\n", "buf.lock": "# lock\n"}
		cs.config("v1-object-data", true, nil, map[string]string{"b4": refB4(mf, od)}, one(s, cacheNone))
	}

	// 8. every single perturbation
	cs.perturbations()
}

func (cs *caseState) violate(sig, what string, c any) {
	cs.e.r.Violate(sig, what, c)
}

// config runs one configuration: builds the module and compares both digest types with the reference.
// wantOverride replaces the reference value for single digest types (v1 object data).
func (cs *caseState) config(dim string, local bool, order []string, wantOverride map[string]string, build func() (bufmodule.Module, error)) {
	r := cs.e.r
	r.Eval(1)
	m, err := build()
	if err != nil {
		// The module cache verifies a module against its key when it is stored: a mismatch there is the
		// same observation as a mismatching Digest().
		var dm *bufmodule.DigestMismatchError
		if errors.As(err, &dm) && dm.ActualDigest != nil {
			dt := "b5"
			if dm.ActualDigest.Type() == bufmodule.DigestTypeB4 {
				dt = "b4"
			}
			cs.compare(dim, dt, order, cs.want[dt], false, dm.ActualDigest.String(), err)
			return
		}
		cs.violate("build-error/"+dim+"/"+errClass(err), "building the module set failed: "+err.Error(),
			caseA{Part: "A", Files: cs.files, Config: dim, Order: order, Err: err.Error()})
		return
	}
	for _, dt := range digestTypes {
		want := cs.want[dt]
		overridden := false
		if w, ok := wantOverride[dt]; ok {
			want, overridden = w, true
		}
		o := digestOf(m, dt)
		if local && dt == "b5" && !cs.hasProto && isNoProto(o.err) {
			cs.t.add("A/skipped-local-b5-without-proto", 1)
			continue
		}
		if o.s == "" {
			var dm *bufmodule.DigestMismatchError
			if errors.As(o.err, &dm) {
				continue // verification against the key of the other digest type failed; reported for that type
			}
			ec := errClass(o.err)
			if dim == "baseline" {
				cs.baseErr[dt] = ec
			} else if cs.baseErr[dt] == ec {
				continue // the same failure as the baseline configuration, reported there
			}
			sig := "digest-error/" + dt + "/" + ec
			if dim != "baseline" && cs.base[dt] != "" {
				sig = "digest-error/" + dim + "/" + dt + "/" + ec
			}
			cs.violate(sig, fmt.Sprintf("Digest(%s) failed where a digest is defined: %v", dt, o.err),
				caseA{Part: "A", Files: cs.files, Config: dim, Order: order, Digest: dt, Want: want, Err: fmt.Sprint(o.err)})
			continue
		}
		if dim == "baseline" {
			cs.base[dt] = o.s
		}
		cs.compare(dim, dt, order, want, overridden, o.s, o.err)
	}
}

// compare checks one observed digest against the reference and attributes a deviation.
func (cs *caseState) compare(dim, dt string, order []string, want string, overridden bool, got string, err error) {
	if got == want {
		cs.t.add("A/agree/"+dim, 1)
		return
	}
	base := cs.base[dt]
	baseDeviates := base != "" && base != cs.want[dt]
	if dim != "baseline" && baseDeviates && (got == base || overridden) {
		return // the same deviation as the baseline configuration, reported there
	}
	diag := diagnose(dt, got, cs.files, nil, order)
	sig := "refdigest/" + dt + "/" + diag
	what := fmt.Sprintf("%s digest differs from the reference construction (%s)", dt, diag)
	if dim != "baseline" && base != "" {
		sig = "invariance/" + dim + "/" + dt + "/" + diag
		what = fmt.Sprintf("%s digest under configuration %q differs from the reference and from the baseline configuration (%s)", dt, dim, diag)
	}
	if overridden {
		sig = "refdigest-v1-object-data/" + dt
		what = dt + " digest with v1 buf.yaml/buf.lock object data differs from the reference construction"
	}
	c := caseA{Part: "A", Files: cs.files, Config: dim, Order: order, Digest: dt, Want: want, Got: got}
	if err != nil {
		c.Err = err.Error()
	}
	cs.violate(sig, what, c)
}

// obsNames are the observables used by the perturbation oracles.
var obsNames = [3]string{"local-b4", "local-b5", "remote-b5"}

// obsVal holds the three observed digests of a file set (raw 64-byte values; has[i] false if undefined).
type obsVal struct {
	has [3]bool
	d   [3][64]byte
}

func (v *obsVal) set(i int, digest string) {
	_, hx, ok := strings.Cut(digest, ":")
	if !ok || len(hx) != 128 {
		return
	}
	raw, err := hex.DecodeString(hx)
	if err != nil {
		return
	}
	copy(v.d[i][:], raw)
	v.has[i] = true
}

func (v *obsVal) str(i int) string {
	if !v.has[i] {
		return ""
	}
	prefix := "b5:"
	if i == 0 {
		prefix = "shake256:"
	}
	return prefix + hex.EncodeToString(v.d[i][:])
}

// memo remembers the observation of every grid file set (contents over the alphabet), so that the
// perturbation neighbours shared by many cases are digested once.
type memo struct {
	shards [64]struct {
		mu sync.Mutex
		m  map[string]memoEntry
	}
}

type memoEntry struct {
	mfKey string
	v     obsVal
}

func newMemo() *memo {
	m := &memo{}
	for i := range m.shards {
		m.shards[i].m = map[string]memoEntry{}
	}
	return m
}

func compactKey(files map[string]string) string {
	var sb strings.Builder
	for _, p := range sortedKeys(files) {
		sb.WriteString(p)
		sb.WriteByte(0)
		sb.WriteString(files[p])
		sb.WriteByte(1)
	}
	return sb.String()
}

func inAlphabet(files map[string]string) bool {
	for _, c := range files {
		if c != "" && c != "a" && c != "b" {
			return false
		}
	}
	return true
}

func (e *explorer) observeMemo(files map[string]string) obsVal {
	if e.memo == nil || !inAlphabet(files) {
		e.r.Eval(1)
		return e.observe(files)
	}
	key := compactKey(files)
	h := fnv.New32a()
	h.Write([]byte(key))
	sh := &e.memo.shards[h.Sum32()%64]
	sh.mu.Lock()
	ent, ok := sh.m[key]
	sh.mu.Unlock()
	if ok {
		return ent.v
	}
	v := e.observe(files)
	sh.mu.Lock()
	if _, dup := sh.m[key]; !dup { // two workers may have digested the same neighbour; count it once
		sh.m[key] = memoEntry{mfKey: compactKey(refModuleFiles(files)), v: v}
		e.r.Eval(1)
	}
	sh.mu.Unlock()
	return v
}

// observe digests a file set in the baseline local configuration and as a remote module.
// Observables: local-b4, local-b5 (undefined without .proto), remote-b5.
func (e *explorer) observe(files map[string]string) obsVal {
	var out obsVal
	ctx := e.ctx
	if b, err := memBucket(files); err == nil {
		if mods, err := buildSet(ctx, []modSpec{{bucket: b, bucketID: "bkt", target: true}}, []int{0}, cacheNone); err == nil {
			out.set(0, digestOf(mods[0], "b4").s)
			if refHasProto(files) {
				out.set(1, digestOf(mods[0], "b5").s)
			}
		}
	}
	if b, err := memBucket(files); err == nil {
		s := modSpec{remote: true, bucket: b, name: nameN1, commit: commitFor(nameN1, 0), target: true, keyDigest: refB5(refModuleFiles(files), nil)}
		if mods, err := buildSet(ctx, []modSpec{s}, []int{0}, cacheNone); err == nil {
			out.set(2, digestOf(mods[0], "b5").s)
		}
	}
	return out
}

// purity checks, over every memoised grid file set, that the observed digests are a function of the
// reference module-file set and that this function is injective.
func (e *explorer) purity() {
	for x := 0; x < 3; x++ {
		byMF := map[string][64]byte{}
		byDigest := map[[64]byte]string{}
		n := 0
		for i := range e.memo.shards {
			for _, ent := range e.memo.shards[i].m {
				if !ent.v.has[x] {
					continue
				}
				n++
				d := ent.v.d[x]
				if prev, ok := byMF[ent.mfKey]; ok && prev != d {
					e.r.Violate("purity/same-module-files-different-digest", "two file sets with the same module files have different digests",
						map[string]any{"part": "A", "module_files_key": ent.mfKey, "observable": obsNames[x]})
				}
				byMF[ent.mfKey] = d
				if prev, ok := byDigest[d]; ok && prev != ent.mfKey {
					e.r.Violate("purity/different-module-files-same-digest", "two file sets with different module files have the same digest",
						map[string]any{"part": "A", "module_files_key": ent.mfKey, "other_module_files_key": prev, "observable": obsNames[x]})
				}
				byDigest[d] = ent.mfKey
			}
		}
		e.total["A/purity/file-sets/"+obsNames[x]] = n
		e.total["A/purity/distinct-module-file-sets/"+obsNames[x]] = len(byMF)
	}
}

type perturbation struct {
	kind    string // content | rename | add | remove
	desc    string
	files   map[string]string
	touched [2]string // path touched in the original set, path touched in the perturbed set ("" if none)
}

// contentVariants: every other alphabet content (byte changed / removed / inserted), a trailing NUL
// appended, and single-bit flips of every byte (bit 0 in the quick tier, all 8 bits in thorough; part A2
// tries all 255 replacement values).
func contentVariants(c string, quick bool) []string {
	var out []string
	for _, a := range contentAlphabet {
		if a != c {
			out = append(out, a)
		}
	}
	out = append(out, c+"\x00")
	bits := 8
	if quick {
		bits = 1
	}
	for i := 0; i < len(c); i++ {
		for bit := 0; bit < bits; bit++ {
			b := []byte(c)
			b[i] ^= 1 << bit
			out = append(out, string(b))
		}
	}
	return out
}

func singlePerturbations(files map[string]string, quick bool) []perturbation {
	var out []perturbation
	paths := sortedKeys(files)
	for _, p := range paths {
		for _, v := range contentVariants(files[p], quick) {
			f := cloneFiles(files)
			f[p] = v
			out = append(out, perturbation{"content", fmt.Sprintf("content of %q: %q -> %q", p, files[p], v), f, [2]string{p, p}})
		}
	}
	for _, p := range paths {
		for _, q := range universe {
			if _, ok := files[q]; ok {
				continue
			}
			f := cloneFiles(files)
			delete(f, p)
			f[q] = files[p]
			out = append(out, perturbation{"rename", fmt.Sprintf("rename %q -> %q", p, q), f, [2]string{p, q}})
		}
	}
	for _, q := range universe {
		if _, ok := files[q]; ok {
			continue
		}
		for _, c := range contentAlphabet {
			f := cloneFiles(files)
			f[q] = c
			out = append(out, perturbation{"add", fmt.Sprintf("add %q = %q", q, c), f, [2]string{"", q}})
		}
	}
	for _, p := range paths {
		f := cloneFiles(files)
		delete(f, p)
		out = append(out, perturbation{"remove", fmt.Sprintf("remove %q", p), f, [2]string{p, ""}})
	}
	return out
}

func (cs *caseState) perturbations() {
	before := cs.e.observeMemo(cs.files)
	keyBefore := refKey(cs.mf)
	for _, p := range singlePerturbations(cs.files, cs.e.r.Quick() || len(cs.files) > 3) {
		after := cs.e.observeMemo(p.files)
		expectChange := refKey(refModuleFiles(p.files)) != keyBefore
		role := "non-module"
		if expectChange {
			role = "module"
		}
		cs.t.add("A/perturb/"+p.kind+"/"+role, 1)
		for x := range obsNames {
			if !before.has[x] || !after.has[x] {
				continue
			}
			if (before.d[x] != after.d[x]) == expectChange {
				continue
			}
			verdict, exp := "insensitive", "digest must change: the perturbation changes the module-file set"
			if !expectChange {
				verdict, exp = "oversensitive", "digest must not change: the perturbation leaves the module-file set unchanged"
			}
			// the role of the touched file (in the original set if it has one there, else in the perturbed set)
			role := "non-module"
			if p.touched[0] != "" {
				role = refRole(p.touched[0], cs.files)
			}
			if role == "non-module" && p.touched[1] != "" {
				role = refRole(p.touched[1], p.files)
			}
			cs.violate("sensitivity/"+verdict+"/"+role, exp,
				caseA{Part: "A", Files: cs.files, Config: obsNames[x], Perturb: p.desc, Files2: p.files, Got: before.str(x), Got2: after.str(x), Expected: exp})
		}
	}
}

// buildSetOmni builds a module set whose remote modules are served by bufmoduletesting.OmniProvider.
// specs[i].remote modules take their content from contents[i]; local specs are added as in buildSet.
func buildSetOmni(ctx context.Context, specs []modSpec, contents []map[string]string, order []int) ([]bufmodule.Module, error) {
	var datas []bufmoduletesting.ModuleData
	for i, s := range specs {
		if s.remote {
			datas = append(datas, bufmoduletesting.ModuleData{Name: s.name, CommitID: s.commit, PathToData: toBytes(contents[i])})
		}
	}
	omni, err := bufmoduletesting.NewOmniProvider(datas...)
	if err != nil {
		return nil, fmt.Errorf("omni provider: %w", err)
	}
	sb := bufmodule.NewModuleSetBuilder(ctx, slogext.NopLogger, omni, omni)
	for _, i := range order {
		s := specs[i]
		if s.remote {
			fn, err := fullName(s.name)
			if err != nil {
				return nil, err
			}
			ref, err := bufparse.NewRef(fn.Registry(), fn.Owner(), fn.Name(), "")
			if err != nil {
				return nil, err
			}
			keys, err := omni.GetModuleKeysForModuleRefs(ctx, []bufparse.Ref{ref}, bufmodule.DigestTypeB5)
			if err != nil {
				return nil, fmt.Errorf("omni keys: %w", err)
			}
			sb.AddRemoteModule(keys[0], s.target)
			continue
		}
		var opts []bufmodule.LocalModuleOption
		if s.name != "" {
			fn, err := fullName(s.name)
			if err != nil {
				return nil, err
			}
			opts = append(opts, bufmodule.LocalModuleWithFullNameAndCommitID(fn, s.commit))
		}
		sb.AddLocalModule(s.bucket, s.bucketID, s.target, opts...)
	}
	ms, err := sb.Build()
	if err != nil {
		return nil, err
	}
	out := make([]bufmodule.Module, len(specs))
	for i, s := range specs {
		var m bufmodule.Module
		if s.name != "" {
			fn, _ := fullName(s.name)
			m = ms.GetModuleForFullName(fn)
		} else {
			m = ms.GetModuleForBucketID(s.bucketID)
		}
		if m == nil {
			return nil, fmt.Errorf("module %d missing from the built module set", i)
		}
		if m.IsLocal() == s.remote {
			return nil, fmt.Errorf("module %d: locality flipped", i)
		}
		out[i] = m
	}
	return out, nil
}

// ---------------------------------------------------------------------------------------------
// part A2: every single-byte replacement

// briefFiles shortens long contents for violation records.
func briefFiles(files map[string]string) map[string]string {
	out := make(map[string]string, len(files))
	for p, c := range files {
		if len(c) > 200 {
			c = fmt.Sprintf("<%d bytes, shake256 %s…>", len(c), refShakeHex([]byte(c))[:16])
		}
		out[p] = c
	}
	return out
}

func (e *explorer) partBytes() {
	r := e.r
	long := strings.Repeat("0123456789abcdef", 9)[:137] // crosses the SHAKE256 rate of 136 bytes
	hugeBytes := make([]byte, 70001)                    // crosses the 32 KiB copy buffer twice
	for i := range hugeBytes {
		hugeBytes[i] = byte(i*7 + i/251)
	}
	huge := string(hugeBytes)
	type base struct {
		files map[string]string
		path  string
	}
	var bases []base
	for _, content := range []string{"a", "abc", long, huge} {
		bases = append(bases,
			base{map[string]string{"a.proto": content}, "a.proto"},
			base{map[string]string{"a.proto": "", "LICENSE": content}, "LICENSE"},
			base{map[string]string{"a.proto": "", "buf.md": content, "README.md": "r"}, "buf.md"},
			base{map[string]string{"a.proto": "", "d/e/b.proto": content, "x.txt": "x"}, "d/e/b.proto"},
		)
	}
	type item struct {
		b   base
		pos int
	}
	var items []item
	for _, b := range bases {
		n := len(b.files[b.path])
		if n > 1000 {
			// large content: positions around the hash rate and the copy-buffer boundaries only
			for _, pos := range []int{0, 135, 136, 32767, 32768, 65535, 65536, n - 1} {
				items = append(items, item{b, pos})
			}
			continue
		}
		for pos := 0; pos < n; pos++ {
			items = append(items, item{b, pos})
		}
	}
	r.Set("A2_positions", len(items))
	r.ParallelFor(len(items), 0, func(i int) {
		it := items[i]
		t := tally{}
		e.r.Eval(1)
		before := e.observe(it.b.files)
		orig := it.b.files[it.b.path]
		large := len(orig) > 1000
		seen := map[string]string{}
		for x, name := range obsNames {
			seen[name+"|"+before.str(x)] = "original"
		}
		values := make([]int, 0, 255)
		switch {
		case large:
			values = append(values, 0x01, 0x80, 0xff)
		case len(orig) > 3 && r.Quick():
			for v := 1; v < 256; v += 17 { // long content: 15 replacement values per position in the quick tier, all 255 in thorough
				values = append(values, v)
			}
		default:
			for v := 1; v < 256; v++ {
				values = append(values, v)
			}
		}
		for _, v := range values {
			nb := []byte(orig)
			nb[it.pos] ^= byte(v)
			f := cloneFiles(it.b.files)
			f[it.b.path] = string(nb)
			e.r.Eval(1)
			after := e.observe(f)
			t.add("A2/byte-replacements", 1)
			mf := refModuleFiles(f)
			wants := [3]string{refB4(mf, nil), refB5(mf, nil), refB5(mf, nil)}
			for x, name := range obsNames {
				want, got := wants[x], after.str(x)
				dt := "b5"
				if x == 0 {
					dt = "b4"
				}
				if got == "" {
					e.r.Violate("digest-error/byte-replacement/"+name, "no digest after a single-byte replacement",
						caseA{Part: "A2", Files: briefFiles(f), Config: name})
					continue
				}
				if got != want {
					e.r.Violate("refdigest/"+dt+"/"+diagnose(dt, got, f, nil, nil), "digest differs from the reference construction",
						caseA{Part: "A2", Files: briefFiles(f), Config: name, Want: want, Got: got})
				}
				if prev, dup := seen[name+"|"+got]; dup {
					e.r.Violate("sensitivity/insensitive/"+refRole(it.b.path, f), "two contents differing in one byte have the same digest",
						caseA{Part: "A2", Files: briefFiles(it.b.files), Files2: briefFiles(f), Config: name, Got: got, Perturb: fmt.Sprintf("byte %d of %q xor %#x (same digest as %s)", it.pos, it.b.path, v, prev)})
				}
				seen[name+"|"+got] = fmt.Sprintf("xor %#x", v)
			}
			if large {
				// large contents also go through the disk, tar and zip backends
				e.largeBackends(t, f, wants, [2]string{after.str(0), after.str(1)}, fmt.Sprintf("a2-%d-%d", i, v))
			}
		}
		e.merge(t)
	})
}

func (e *explorer) largeBackends(t tally, files map[string]string, wants [3]string, mem [2]string, id string) {
	ctx := e.ctx
	dir := filepath.Join(e.scratch, id)
	defer os.RemoveAll(dir)
	backends := []struct {
		name string
		mk   func() (storage.ReadBucket, error)
	}{
		{"backend-disk", func() (storage.ReadBucket, error) { return diskBucket(dir, files) }},
		{"backend-tar", func() (storage.ReadBucket, error) { return tarRoundTrip(ctx, files) }},
		{"backend-zip", func() (storage.ReadBucket, error) { return zipRoundTrip(ctx, files, true) }},
	}
	for _, be := range backends {
		e.r.Eval(1)
		b, err := be.mk()
		if err != nil {
			e.r.Incomplete(be.name + " (large content): " + err.Error())
			continue
		}
		mods, err := buildSet(ctx, []modSpec{{bucket: b, bucketID: "bkt", target: true}}, []int{0}, cacheNone)
		if err != nil {
			e.r.Violate("build-error/"+be.name+"/"+errClass(err), "building the module set failed: "+err.Error(), caseA{Part: "A2", Files: briefFiles(files), Config: be.name, Err: err.Error()})
			continue
		}
		for x, dt := range []string{"b4", "b5"} {
			o := digestOf(mods[0], dt)
			if o.s != wants[x] && o.s != "" && o.s == mem[x] {
				continue // the same deviation as on the memory backend, reported there
			}
			if o.s != wants[x] {
				e.r.Violate("invariance/"+be.name+"/"+dt+"/large-content", "digest of a module with a large file differs from the reference on this backend",
					caseA{Part: "A2", Files: briefFiles(files), Config: be.name, Digest: dt, Want: wants[x], Got: o.s, Err: fmt.Sprint(o.err)})
				continue
			}
			t.add("A2/large-content-agree/"+be.name, 1)
		}
	}
}
