// Package c11 is the check for property C11 (see DESIGN.md section 3): an image faithfully stands in for
// its sources, in every encoding.
//
// Seam: the real `buf` root command (build, export, lint, breaking) run on scratch directories, with the
// working directory a user would have (the workspace directory), see cli.go. Everything that comes back
// is decoded with protobuf-go only and compared against small reference models written here (oracle.go):
// the documented effect of the output flags, the hand-declared metadata of each workspace, the import
// graph read from the source text and the targeting rule of --path/--exclude-path.
package c11

import (
	"context"
	"encoding/json"
	"fmt"
	"os"
	"path/filepath"
	"regexp"
	"sort"
	"strings"
	"sync"
	"time"

	imagev1 "github.com/bufbuild/buf/private/gen/proto/go/buf/alpha/image/v1"
	"github.com/bufbuild/bufverif/internal/bufx"
	"github.com/bufbuild/bufverif/internal/enum"
	"github.com/bufbuild/bufverif/internal/evid"
	"github.com/bufbuild/protocompile"
	"github.com/bufbuild/protocompile/protoutil"
	"google.golang.org/protobuf/encoding/protowire"
	"google.golang.org/protobuf/proto"
	"google.golang.org/protobuf/types/descriptorpb"
)

func init() {
	evid.Register(&evid.Check{ID: "C11", Level: "exploration", Run: run,
		QuickBudget: 300 * time.Second, ThoroughBudget: 40 * time.Minute})
}

// caseInfo is what gets written to a replay / sample.
type caseInfo struct {
	Part      string            `json:"part"`
	Workspace string            `json:"workspace"`
	Cwd       string            `json:"cwd_relative_to_scratch,omitempty"`
	Commands  [][]string        `json:"commands,omitempty"`
	Paths     []string          `json:"paths,omitempty"`
	Excludes  []string          `json:"exclude_paths,omitempty"`
	Detail    string            `json:"detail,omitempty"`
	Stderr    string            `json:"stderr,omitempty"`
	Files     map[string]string `json:"workspace_files,omitempty"`
}

// wsState is a materialised workspace.
type wsState struct {
	def    *wsDef
	dir    string // scratch/<name>
	src    string // scratch/<name>/src : the working directory of every command
	model  *refModel
	back   map[string]string // image path -> workspace-relative path
	oRaw   []byte
	o      *imagev1.Image // decoded with res
	res    resolver
	v0OK   bool
	gitOK  bool // pk/repo.git exists (the git binary is available)
	cands  []string
	broken bool
}

// srcPath maps an image-namespace path to the workspace-relative path a user would pass to a source input.
func (s *wsState) srcPath(p string) string {
	if wp, ok := s.back[p]; ok {
		return wp
	}
	// a directory: take any file below it
	for ip, wp := range s.back {
		if strings.HasPrefix(ip, p+"/") {
			return strings.TrimSuffix(wp, strings.TrimPrefix(ip, p))
		}
	}
	return p
}

type pending struct {
	// encFormats/encKind: for failures of a chain of encodings (transcoding, image file in another encoding
	// as input of a selection): the formats involved and the kind of difference; flush attributes the
	// failure to roundtrip/<format>/<kind> when the plain round trip through that format fails the same way.
	encFormats []string
	encKind    string
	group      string
	rank       int
	label      string
	flags      *flagSet
	what       string
	c          caseInfo
}

type runner struct {
	r       *evid.Run
	ctx     context.Context
	pool    *cliPool
	scratch string

	mu       sync.Mutex
	pendings []pending
	counts   map[string]int
	pairs    map[string]bool
}

// pair counts distinct members of a covering set (e.g. config x selection shape).
func (rn *runner) pair(key, member string) {
	rn.mu.Lock()
	if !rn.pairs[key+"|"+member] {
		rn.pairs[key+"|"+member] = true
		rn.counts[key]++
	}
	rn.mu.Unlock()
}

func (rn *runner) count(key string, n int) {
	rn.mu.Lock()
	rn.counts[key] += n
	rn.mu.Unlock()
}

// fail records a violation candidate; the signature is fixed at the end of the run (see flush).
func (rn *runner) fail(group string, rank int, label string, flags *flagSet, what string, c caseInfo) {
	if flags != nil && rank == 0 {
		rank = len(flags.args()) // the representative case of a group is one with the fewest flags
	}
	rn.mu.Lock()
	rn.pendings = append(rn.pendings, pending{group: group, rank: rank, label: label, flags: flags, what: what, c: c})
	rn.mu.Unlock()
}

// failEnc is fail for a difference that may be caused by one of the encodings involved (see pending).
func (rn *runner) failEnc(formats []string, kind, group string, rank int, label string, what string, c caseInfo) {
	rn.mu.Lock()
	rn.pendings = append(rn.pendings, pending{encFormats: formats, encKind: kind, group: group, rank: rank, label: label, what: what, c: c})
	rn.mu.Unlock()
}

// flush turns the recorded failures into violations. All failures of one group (oracle + kind of
// difference) share one signature: the group plus either the flags common to all failing cases or the
// label of the structurally simplest failing case. This keeps one defect = one signature however many
// cases it breaks.
func (rn *runner) flush() {
	groups := map[string][]pending{}
	rt := map[string]bool{}
	for _, p := range rn.pendings {
		if strings.HasPrefix(p.group, "roundtrip/") {
			rt[p.group] = true
		}
	}
	// a round-trip difference seen in every format is not a defect of one encoding
	anyFormat := map[string]bool{}
	for g := range rt {
		parts := strings.SplitN(g, "/", 3)
		all := true
		for _, f := range formats {
			if !rt["roundtrip/"+f+"/"+parts[2]] {
				all = false
			}
		}
		if all {
			anyFormat[parts[2]] = true
		}
	}
	for i := range rn.pendings {
		p := &rn.pendings[i]
		if parts := strings.SplitN(p.group, "/", 3); len(parts) == 3 && parts[0] == "roundtrip" && anyFormat[parts[2]] {
			p.group = "roundtrip/every-format/" + parts[2]
			rt[p.group] = true
		}
	}
	for _, p := range rn.pendings {
		if anyFormat[p.encKind] && len(p.encFormats) > 0 {
			p.group = "roundtrip/every-format/" + p.encKind
			p.encFormats = nil
		}
		for _, f := range p.encFormats {
			if g := "roundtrip/" + f + "/" + p.encKind; rt[g] {
				p.group = g
				break
			}
		}
		groups[p.group] = append(groups[p.group], p)
	}
	for _, g := range bufx.SortedKeys(groups) {
		ps := groups[g]
		sort.SliceStable(ps, func(i, j int) bool {
			if ps[i].rank != ps[j].rank {
				return ps[i].rank < ps[j].rank
			}
			if ps[i].label != ps[j].label {
				return ps[i].label < ps[j].label
			}
			if ps[i].c.Workspace != ps[j].c.Workspace {
				return ps[i].c.Workspace < ps[j].c.Workspace
			}
			return fmt.Sprint(ps[i].c.Commands) < fmt.Sprint(ps[j].c.Commands)
		})
		label := ps[0].label
		hasFlags := false
		for _, p := range ps {
			if p.flags != nil {
				hasFlags = true
			}
		}
		if hasFlags {
			common := flagSet{true, true, true}
			for _, p := range ps {
				if p.flags == nil {
					common = flagSet{}
					continue
				}
				common.ExcludeImports = common.ExcludeImports && p.flags.ExcludeImports
				common.ExcludeSourceInfo = common.ExcludeSourceInfo && p.flags.ExcludeSourceInfo
				common.AsFDS = common.AsFDS && p.flags.AsFDS
			}
			label = common.String()
		}
		sig := g
		if label != "" {
			sig += "/" + label
		}
		for _, p := range ps {
			rn.r.Violate(sig, p.what, p.c)
		}
	}
}

var (
	reQuoted = regexp.MustCompile(`"[^"]*"`)
	rePos    = regexp.MustCompile(`:?\d+:\d+ ?`)
	reNum    = regexp.MustCompile(`\d+`)
)

// errClass normalises the first line of a CLI failure into a stable signature component.
func errClass(stderr string) string {
	s := stderr
	if strings.HasPrefix(s, "panic:") {
		// the function that panicked: the frame after "panic("
		lines := strings.Split(s, "\n")
		for i, l := range lines {
			if strings.HasPrefix(l, "panic(") && i+2 < len(lines) {
				f := lines[i+2]
				if j := strings.LastIndexByte(f, '('); j > 0 {
					f = f[:j]
				}
				if j := strings.LastIndexByte(f, '/'); j >= 0 {
					f = f[j+1:]
				}
				return "panic-in-" + f
			}
		}
	}
	if i := strings.Index(s, "Failure: "); i >= 0 {
		s = s[i+len("Failure: "):]
	}
	if i := strings.IndexByte(s, '\n'); i >= 0 {
		s = s[:i]
	}
	s = reQuoted.ReplaceAllString(s, "Q")
	s = rePos.ReplaceAllString(s, "")
	s = reNum.ReplaceAllString(s, "N")
	if i := strings.IndexByte(s, ','); i >= 0 {
		s = s[:i]
	}
	s = strings.ReplaceAll(strings.TrimSpace(clip(s, 80)), " ", "_")
	if s == "" {
		s = "no-message"
	}
	return s
}

func isDecodeError(stderr string) bool {
	return strings.Contains(stderr, "unmarshal") || strings.Contains(stderr, "could not reparse") || strings.Contains(stderr, "proto:")
}

// readFail records that buf could not read an image file (of its own making) in the given format. All
// parts of the check share these signatures, so that one decoding defect is one signature.
func (rn *runner) readFail(format string, fl flagSet, args []string, res bufx.CLIResult, ci caseInfo) {
	ci.Stderr = res.Stderr
	rn.fail("read-image/"+errClass(res.Stderr), 0, "", &fl,
		fmt.Sprintf("buf cannot read an image it wrote itself: `buf %s` exits %d: %s", strings.Join(args, " "), res.ExitCode, clip(res.Stderr, 400)), ci)
}

func (rn *runner) cli(s *wsState, args ...string) bufx.CLIResult {
	return rn.pool.run(s.src, args...)
}

func run(r *evid.Run) {
	r.Rule("hand-written workspaces (custom options at every declaration depth, vendored files at well-known-type paths, proto2 legacy features " +
		"(message sets, weak fields, extension numbers above 2^29-1) at every nesting position, v1/v2/no buf.yaml with and without lint/breaking sections) x {binpb,json,txtpb,yaml} x {none,gzip,zstd} x all subsets of {--exclude-imports," +
		"--exclude-source-info,--as-file-descriptor-set} (write with `buf build . -o`, read back with `buf build <file> -o -#format=binpb`), " +
		"all 16 format-to-format transcodings, the same flags applied on the image route, images with injected unknown fields, " +
		"every packaging of the tree (dir, tar, tar.gz, tar.zst, zip, wrapped archives with strip_components/subdir, `buf export` output), " +
		"and every selection (P,X) of --path/--exclude-path values with P,X subsets of {each directory, each file}, |P|<=2, |X|<=2, no p inside an x, " +
		"for build, lint and breaking on the directory and on the image built from it; lint/breaking with the workspace's configuration and with a --config menu " +
		"(rule sets; v1/v2 files without a lint/breaking section, i.e. the version's default; v2 files with only the other section). " +
		"Every selection with |P|<=1, |X|<=1 is also run on the other ways of naming the same tree as an input, with the path values spelled as that input wants them " +
		"(tar/zip/tar.gz/git with #subdir (one and two levels, spelled ./top, unnormalised entry names), #strip_components, both, #subdir=.; the directory from its parent, by absolute path, values spelled ./x; " +
		"a module directory of a multi-module workspace as directory and as archive subdir) and compared with the directory route: build always, lint/breaking with the workspace's configuration. In the quick tier lint/breaking take the selections " +
		"{none, one path, one exclude, one exclude inside one path} and the menu is crossed with 'no selection' fully and with one-path selections pairwise (rotating). A case is distinct/non-trivial when its " +
		"(workspace, encoding, flags) or (workspace, selection with a non-empty proper effect) differs")
	r.Assume("workspaces are hand-written (26 in the thorough tier, 13 in the quick tier), not generated: custom options (scalar, message-typed, Any-typed, extension-of-extension), proto2 extensions and groups, editions, services, comments, unused/public imports, missing syntax, v1/v2 buf.yaml, buf.work.yaml, named and unnamed modules")
	r.Assume("unknown fields cannot be represented in json/txtpb/yaml; the injected-unknown-field images are round-tripped through binpb (none/gzip/zstd) only")
	r.Assume("lint/breaking are compared on single-module workspaces whose module root is the workspace directory (an image has one lint/breaking config, a multi-module workspace one per module); `buf breaking --against` uses the image of the previous version on both routes because a directory --against combined with --path is rejected by buf itself")
	r.Assume("`buf export` output has no buf.yaml: it is compared modulo module names, and when exported with imports, modulo is_import of the exported well-known types")
	r.Assume("an image has one lint and one breaking configuration, the top-level one of the buf.yaml in the working directory (or --config); module-level lint/breaking sections of a v2 buf.yaml are not used on workspaces that are compared")
	r.Assume("remote modules / commits in image metadata are out of scope here (offline); module names of local modules are covered")

	if dump := os.Getenv("VERIF_C11_DUMP"); dump != "" {
		// debugging aid: write every workspace (and its previous version) below the given directory
		for _, w := range workspaces(false) {
			_ = writeTree(filepath.Join(dump, w.Name, "src"), w.Files)
			if w.V0 != nil {
				_ = writeTree(filepath.Join(dump, w.Name, "v0"), w.v0Files())
			}
		}
		r.Incomplete("dump only")
		return
	}
	ctx := context.Background()
	scratch, err := os.MkdirTemp("", "verif-c11-")
	if err != nil {
		r.Incomplete("scratch: " + err.Error())
		return
	}
	defer os.RemoveAll(scratch)
	pool, err := newCLIPool(16)
	if err != nil {
		r.Incomplete("cannot start CLI workers: " + err.Error())
		return
	}
	defer pool.close()
	rn := &runner{r: r, ctx: ctx, pool: pool, scratch: scratch, counts: map[string]int{}, pairs: map[string]bool{}}

	defs := workspaces(r.Quick())
	if only := os.Getenv("VERIF_C11_WS"); only != "" {
		// debugging aid: restrict to some workspaces (the run is then marked incomplete)
		var keep []*wsDef
		for _, d := range workspaces(false) {
			if strings.Contains(","+only+",", ","+d.Name+",") {
				keep = append(keep, d)
			}
		}
		defs = keep
		r.Incomplete("restricted to workspaces " + only)
	}
	states := make([]*wsState, len(defs))
	r.ParallelFor(len(defs), 0, func(i int) { states[i] = rn.setup(defs[i]) })
	var items []func()
	for _, s := range states {
		if s == nil || s.broken {
			continue
		}
		items = append(items, rn.encodingItems(s)...)
		items = append(items, rn.packagingItems(s)...)
		items = append(items, rn.selectionItems(s)...)
		items = append(items, rn.apiItems(s)...)
	}
	r.Set("workspaces", len(defs))
	r.Set("work_items", len(items))
	r.ParallelFor(len(items), 0, func(i int) { items[i]() })
	rn.flush()

	rn.mu.Lock()
	for _, k := range bufx.SortedKeys(rn.counts) {
		r.Set(k, rn.counts[k])
	}
	counts := rn.counts
	rn.mu.Unlock()
	pool.mu.Lock()
	r.Set("cli_calls", pool.calls)
	for _, k := range bufx.SortedKeys(pool.nCmd) {
		r.Set("cli_calls_"+k, pool.nCmd[k])
		r.Set("cli_cpu_ms_per_call_"+k, pool.cpuMS[k]/max(pool.nCmd[k], 1))
	}
	if pool.retries > 0 {
		r.Set("cli_retries_after_deadline_or_worker_death", pool.retries)
	}
	if pool.died > 0 {
		r.Set("cli_workers_died", pool.died)
	}
	pool.mu.Unlock()
	// vacuity guards: every clause of the property must have been exercised
	for _, k := range []string{
		"enc_roundtrips_ok", "enc_compressed_magic_verified", "enc_with_custom_options", "enc_transcodings_ok", "enc_imageflag_cases",
		"enc_injected_unknown_ok", "pack_equal", "pack_equal_unnormalized_entry_names", "sel_build_proper_subset", "sel_build_excluded_file_back_as_import",
		"sel_build_empty_target_both_fail", "sel_lint_with_annotations", "sel_lint_annotations_narrowed", "sel_breaking_with_annotations",
		"sel_breaking_annotations_narrowed", "api_strip_cases",
		"sel_lint_v2_default_reports_v2_only_rule", "sel_breaking_v2_default_reports_v2_only_rule", "sel_menu_config_x_selection_shape_pairs",
		"pack_export_equal_with_vendored_wkt", "enc_roundtrips_ok_legacy_features",
		"sel_forms_subdir_exclude_only_effective", "sel_forms_subdir_path_only_effective", "sel_forms_subdir_path_and_exclude_effective",
		"sel_forms_directory_ref_effective", "sel_forms_module_dir_effective", "sel_forms_git_subdir_effective",
		"sel_forms_lint_subdir_exclude_only_with_annotations", "sel_forms_breaking_subdir_exclude_only_with_annotations",
	} {
		if counts[k] == 0 && !r.Expired() {
			r.Incomplete("clause never exercised: " + k)
		}
	}
}

// ---- setup ---------------------------------------------------------------------------------------------------

func writeTree(dir string, files map[string]string) error {
	for p, text := range files {
		full := filepath.Join(dir, filepath.FromSlash(p))
		if err := os.MkdirAll(filepath.Dir(full), 0o755); err != nil {
			return err
		}
		if err := os.WriteFile(full, []byte(text), 0o644); err != nil {
			return err
		}
	}
	return nil
}

func (rn *runner) setup(def *wsDef) *wsState {
	s := &wsState{def: def, dir: filepath.Join(rn.scratch, def.Name)}
	s.src = filepath.Join(s.dir, "src")
	bad := func(msg string) *wsState {
		rn.r.Incomplete("workspace " + def.Name + ": " + msg)
		s.broken = true
		return s
	}
	for _, d := range []string{"out", "pk"} {
		if err := os.MkdirAll(filepath.Join(s.dir, d), 0o755); err != nil {
			return bad(err.Error())
		}
	}
	if err := writeTree(s.src, def.Files); err != nil {
		return bad(err.Error())
	}
	sources, back := def.imageSources()
	s.back = back
	model, err := newRefModel(sources)
	if err != nil {
		return bad(err.Error())
	}
	s.model = model
	s.cands = model.candidates()

	res := rn.cli(s, "build", ".", "-o", "../out/o.binpb")
	rn.r.Eval(1)
	if res.ExitCode != 0 {
		return bad("does not build: " + res.Stderr)
	}
	s.oRaw, err = os.ReadFile(filepath.Join(s.dir, "out", "o.binpb"))
	if err != nil {
		return bad(err.Error())
	}
	raw, err := decodeRaw(s.oRaw)
	if err != nil {
		return bad("image does not decode: " + err.Error())
	}
	s.res, _, err = newResolver(raw)
	if err != nil {
		rn.fail("original/does-not-link", 0, "", nil, "the image built from the sources does not link with protodesc.NewFiles: "+err.Error(),
			caseInfo{Part: "original", Workspace: def.Name, Files: def.Files})
		s.broken = true
		return s
	}
	s.o, err = decodeWith(s.oRaw, s.res)
	if err != nil {
		return bad("image does not decode with its own resolver: " + err.Error())
	}
	rn.checkOriginal(s, sources)

	if def.V0 != nil {
		if err := writeTree(filepath.Join(s.dir, "v0"), def.v0Files()); err != nil {
			return bad(err.Error())
		}
		res := rn.pool.run(filepath.Join(s.dir, "v0"), "build", ".", "-o", "../out/v0.binpb")
		rn.r.Eval(1)
		if res.ExitCode != 0 {
			return bad("v0 does not build: " + res.Stderr)
		}
		s.v0OK = true
	}
	if err := rn.makePackagings(s); err != nil {
		return bad("packagings: " + err.Error())
	}
	return s
}

// checkOriginal compares the image built from the directory with what the workspace declares: file set =
// locals + import closure, is_import exactly for the non-local files, module names, is_syntax_unspecified,
// unused_dependency; and the descriptors (with source info) with an independent protocompile run.
func (rn *runner) checkOriginal(s *wsState, sources map[string]string) {
	ci := caseInfo{Part: "original", Workspace: s.def.Name, Commands: [][]string{{"build", ".", "-o", "../out/o.binpb"}}, Files: s.def.Files}
	_, files := s.model.expect(nil, nil)
	got := byName(s.o)
	var wantNames []string
	for p := range files {
		wantNames = append(wantNames, p)
	}
	sort.Strings(wantNames)
	if !sameStrings(wantNames, sortedCopy(names(s.o))) {
		rn.fail("original/file-set", 0, "", nil, fmt.Sprintf("image files %v, expected %v", names(s.o), wantNames), ci)
		return
	}
	if ok, why := dagOrdered(s.o); !ok {
		rn.fail("original/file-order", 0, "", nil, why, ci)
	}
	for _, p := range wantNames {
		f := got[p]
		ext := f.GetBufExtension()
		wantImport := files[p]
		if ext.GetIsImport() != wantImport {
			rn.fail("original/is_import", 0, "", nil, fmt.Sprintf("%s: is_import=%v, expected %v", p, ext.GetIsImport(), wantImport), ci)
		}
		wantModule := ""
		meta := fileMeta{}
		if wp, ok := s.back[p]; ok {
			m, _ := s.def.moduleOf(wp)
			wantModule = m.Name
			meta = s.def.Meta[p]
		}
		gotModule := ""
		if n := ext.GetModuleInfo().GetName(); n != nil {
			gotModule = n.GetRemote() + "/" + n.GetOwner() + "/" + n.GetRepository()
		}
		if gotModule != wantModule || ext.GetModuleInfo().GetCommit() != "" {
			rn.fail("original/module_info", 0, "", nil, fmt.Sprintf("%s: module %q commit %q, expected module %q and no commit", p, gotModule, ext.GetModuleInfo().GetCommit(), wantModule), ci)
		}
		if !wantImport {
			if ext.GetIsSyntaxUnspecified() != meta.SyntaxUnspecified {
				rn.fail("original/is_syntax_unspecified", 0, "", nil, fmt.Sprintf("%s: is_syntax_unspecified=%v, expected %v", p, ext.GetIsSyntaxUnspecified(), meta.SyntaxUnspecified), ci)
			}
			if fmt.Sprint(ext.GetUnusedDependency()) != fmt.Sprint(meta.Unused) {
				rn.fail("original/unused_dependency", 0, "", nil, fmt.Sprintf("%s: unused_dependency=%v, expected %v", p, ext.GetUnusedDependency(), meta.Unused), ci)
			}
			if meta.SyntaxUnspecified {
				rn.count("orig_syntax_unspecified_files", 1)
			}
			if len(meta.Unused) > 0 {
				rn.count("orig_unused_dependency_files", 1)
			}
			if wantModule != "" {
				rn.count("orig_named_module_files", 1)
			}
		}
	}
	// independent compile
	comp := protocompile.Compiler{
		Resolver:       protocompile.WithStandardImports(&protocompile.SourceResolver{Accessor: protocompile.SourceAccessorFromMap(sources)}),
		SourceInfoMode: protocompile.SourceInfoExtraOptionLocations,
	}
	compiled, err := comp.Compile(rn.ctx, s.model.locals...)
	if err != nil {
		rn.r.Incomplete("workspace " + s.def.Name + ": independent protocompile run failed: " + err.Error())
		return
	}
	for i, p := range s.model.locals {
		fdp := protoutil.ProtoFromFileDescriptor(compiled[i])
		b, err := proto.MarshalOptions{Deterministic: true}.Marshal(fdp)
		if err != nil {
			rn.r.Incomplete("marshal: " + err.Error())
			return
		}
		want := &imagev1.ImageFile{}
		if err := (proto.UnmarshalOptions{Resolver: s.res}).Unmarshal(b, want); err != nil {
			rn.r.Incomplete("unmarshal: " + err.Error())
			return
		}
		g := proto.Clone(got[p]).(*imagev1.ImageFile)
		g.ClearBufExtension()
		kinds, detail := diffImages(imageOf(want), imageOf(g), true)
		for _, k := range kinds {
			rn.fail("original/vs-protocompile/"+k, 0, "", nil, "image file differs from an independent protocompile compilation of the same source: "+detail, ci)
		}
		rn.count("orig_files_equal_to_independent_compile", 1)
	}
}

func imageOf(files ...*imagev1.ImageFile) *imagev1.Image {
	img := &imagev1.Image{}
	img.SetFile(files)
	return img
}

// ---- part A: encodings ---------------------------------------------------------------------------------------

var formats = []string{"binpb", "json", "txtpb", "yaml"}
var compressions = []string{"none", "gzip", "zstd"}

func extOf(format, comp string) string {
	e := "." + format
	switch comp {
	case "gzip":
		e += ".gz"
	case "zstd":
		e += ".zst"
	}
	return e
}

func magicOK(data []byte, comp string) bool {
	gz := len(data) > 2 && data[0] == 0x1f && data[1] == 0x8b
	zs := len(data) > 4 && data[0] == 0x28 && data[1] == 0xb5 && data[2] == 0x2f && data[3] == 0xfd
	switch comp {
	case "gzip":
		return gz
	case "zstd":
		return zs
	}
	return !gz && !zs
}

func hasCustomOptions(img *imagev1.Image) bool {
	for _, f := range img.GetFile() {
		if f.GetBufExtension().GetIsImport() {
			continue
		}
		b, _ := proto.Marshal(f)
		raw := &imagev1.ImageFile{}
		_ = (proto.UnmarshalOptions{Resolver: emptyResolver{}}).Unmarshal(b, raw)
		if optionsHaveUnknown(raw.ProtoReflect()) {
			return true
		}
	}
	return false
}

type encRef struct {
	label  string // signature component (format family)
	ref    string // the reference passed to -o and as input
	file   string // file name below out/
	format string
	comp   string
}

func (rn *runner) encodingItems(s *wsState) []func() {
	var items []func()
	custom := hasCustomOptions(s.o)
	n := 0
	next := func() int { n++; return n }
	addRT := func(e encRef, fl flagSet, style string) {
		items = append(items, func() { rn.roundTrip(s, e, fl, style, custom) })
	}
	for _, f := range formats {
		for _, c := range compressions {
			for _, fl := range allFlagSets() {
				file := fmt.Sprintf("rt%d.dat", next())
				addRT(encRef{f, "../out/" + file + "#format=" + f + ",compression=" + c, file, f, c}, fl, "explicit")
			}
			// extension-implied format and compression
			file := fmt.Sprintf("rt%d%s", next(), extOf(f, c))
			addRT(encRef{f, "../out/" + file, file, f, c}, flagSet{}, "extension")
		}
		// explicit format, compression left to the default
		file := fmt.Sprintf("rt%d.dat", next())
		addRT(encRef{f, "../out/" + file + "#format=" + f, file, f, "none"}, flagSet{}, "explicit-format-only")
	}
	// deprecated spellings
	for _, d := range []struct{ ref, format, comp string }{
		{".bin", "binpb", "none"}, {".bin.gz", "binpb", "gzip"}, {".bin.zst", "binpb", "zstd"}, {".dat#format=bin", "binpb", "none"},
		{".dat#format=bingz", "binpb", "gzip"}, {".dat#format=jsongz", "json", "gzip"},
	} {
		name := fmt.Sprintf("rt%d", next())
		file := name + strings.SplitN(d.ref, "#", 2)[0]
		addRT(encRef{d.format, "../out/" + name + d.ref, file, d.format, d.comp}, flagSet{}, "deprecated")
	}
	// transcodings
	for _, f1 := range formats {
		for _, f2 := range formats {
			k := next()
			items = append(items, func() { rn.transcode(s, f1, f2, k) })
		}
	}
	// flags on the image route and directly on the source route
	for _, fl := range allFlagSets() {
		items = append(items, func() { rn.imageFlags(s, fl) })
	}
	// injected unknown fields
	for _, c := range compressions {
		items = append(items, func() { rn.injected(s, c) })
	}
	return items
}

func (rn *runner) roundTrip(s *wsState, e encRef, fl flagSet, style string, custom bool) {
	rn.r.Eval(1)
	wargs := append(append([]string{"build", "."}, fl.args()...), "-o", e.ref)
	rargs := []string{"build", e.ref, "-o", "-#format=binpb"}
	ci := caseInfo{Part: "roundtrip", Workspace: s.def.Name, Commands: [][]string{wargs, rargs}, Files: s.def.Files}
	group := "roundtrip/" + e.label
	w := rn.cli(s, wargs...)
	if w.ExitCode != 0 {
		ci.Stderr = w.Stderr
		rn.fail(group+"/write-exit", 0, "", &fl, fmt.Sprintf("`buf %s` exits %d: %s", strings.Join(wargs, " "), w.ExitCode, clip(w.Stderr, 400)), ci)
		return
	}
	data, err := os.ReadFile(filepath.Join(s.dir, "out", e.file))
	if err != nil {
		rn.fail(group+"/no-output-file", 0, "", &fl, "output file missing after a successful build: "+err.Error(), ci)
		return
	}
	if !magicOK(data, e.comp) {
		rn.fail(group+"/compression-"+e.comp+"-not-applied", 0, "", &fl, fmt.Sprintf("output of compression=%s starts with % x", e.comp, data[:min(6, len(data))]), ci)
	} else if e.comp != "none" {
		rn.count("enc_compressed_magic_verified", 1)
	}
	if e.format == "json" && e.comp == "none" && !json.Valid(data) {
		rn.fail(group+"/not-json", 0, "", &fl, "format=json output is not valid JSON", ci)
	}
	rd := rn.cli(s, rargs...)
	if rd.ExitCode != 0 {
		rn.readFail(e.format, fl, rargs, rd, ci)
		return
	}
	got, err := decodeWith([]byte(rd.Stdout), s.res)
	if err != nil {
		rn.fail(group+"/read-undecodable", 0, "", &fl, "read-back binpb does not decode: "+err.Error(), ci)
		return
	}
	want := applyFlags(s.o, fl)
	kinds, detail := diffImages(want, got, true)
	for _, k := range kinds {
		ci.Detail = detail
		rn.fail(group+"/"+k, 0, "", &fl, fmt.Sprintf("image written as %s (compression %s, %s) and read back differs from the original: %s", e.format, e.comp, fl, detail), ci)
	}
	if len(kinds) == 0 {
		rn.count("enc_roundtrips_ok", 1)
		rn.count("enc_roundtrips_ok_"+e.format, 1)
		if custom {
			rn.count("enc_with_custom_options", 1)
		}
		if style != "explicit" {
			rn.count("enc_roundtrips_ok_style_"+style, 1)
		}
		if s.def.Note == "legacy-features" {
			rn.count("enc_roundtrips_ok_legacy_features", 1)
		}
		rn.r.Distinct("rt|" + s.def.Name + "|" + e.format + "|" + e.comp + "|" + fl.String() + "|" + style)
	}
	_ = os.Remove(filepath.Join(s.dir, "out", e.file))
	rn.r.SampleEvery(len(data), 211, func() any { return ci })
}

func (rn *runner) transcode(s *wsState, f1, f2 string, k int) {
	rn.r.Eval(1)
	t1 := fmt.Sprintf("../out/tc%d-1.%s", k, f1)
	t2 := fmt.Sprintf("../out/tc%d-2.dat#format=%s", k, f2)
	cmds := [][]string{
		{"build", ".", "-o", t1},
		{"build", t1, "-o", t2},
		{"build", t2, "-o", "-#format=binpb"},
	}
	ci := caseInfo{Part: "transcode", Workspace: s.def.Name, Commands: cmds, Files: s.def.Files}
	group := "transcode/" + f1 + "-to-" + f2
	var last bufx.CLIResult
	for i, c := range cmds {
		last = rn.cli(s, c...)
		if last.ExitCode != 0 {
			if i > 0 && isDecodeError(last.Stderr) {
				rn.readFail([]string{f1, f2}[i-1], flagSet{}, c, last, ci)
				return
			}
			ci.Stderr = last.Stderr
			rn.fail(fmt.Sprintf("%s/exit-step%d", group, i+1), 0, "", nil, fmt.Sprintf("`buf %s` exits %d: %s", strings.Join(c, " "), last.ExitCode, clip(last.Stderr, 400)), ci)
			return
		}
	}
	got, err := decodeWith([]byte(last.Stdout), s.res)
	if err != nil {
		rn.fail(group+"/undecodable", 0, "", nil, err.Error(), ci)
		return
	}
	kinds, detail := diffImages(s.o, got, true)
	for _, kd := range kinds {
		ci.Detail = detail
		rn.failEnc([]string{f1, f2}, kd, group+"/"+kd, 0, "", fmt.Sprintf("sources -> %s -> %s -> binpb differs from the original image: %s", f1, f2, detail), ci)
	}
	if len(kinds) == 0 {
		rn.count("enc_transcodings_ok", 1)
		rn.r.Distinct("tc|" + s.def.Name + "|" + f1 + "|" + f2)
	}
	_ = os.Remove(filepath.Join(s.dir, "out", fmt.Sprintf("tc%d-1.%s", k, f1)))
	_ = os.Remove(filepath.Join(s.dir, "out", fmt.Sprintf("tc%d-2.dat", k)))
}

// imageFlags: the three flags applied while reading the image, and applied on the sources with binpb on
// stdout, must both give the reference model's image.
func (rn *runner) imageFlags(s *wsState, fl flagSet) {
	want := applyFlags(s.o, fl)
	if fl.AsFDS {
		// stdout is a FileDescriptorSet: no buf extension at all
		for _, f := range want.GetFile() {
			f.ClearBufExtension()
		}
	}
	for _, route := range []struct{ name, input string }{{"image", "../out/o.binpb"}, {"source", "."}} {
		rn.r.Eval(1)
		args := append(append([]string{"build", route.input}, fl.args()...), "-o", "-#format=binpb")
		ci := caseInfo{Part: "imageflags", Workspace: s.def.Name, Commands: [][]string{args}, Files: s.def.Files}
		group := "flags-on-" + route.name
		res := rn.cli(s, args...)
		if res.ExitCode != 0 {
			if route.name == "image" && isDecodeError(res.Stderr) {
				rn.readFail("binpb", fl, args, res, ci)
				continue
			}
			ci.Stderr = res.Stderr
			rn.fail(group+"/exit", 0, "", &fl, fmt.Sprintf("`buf %s` exits %d: %s", strings.Join(args, " "), res.ExitCode, clip(res.Stderr, 400)), ci)
			continue
		}
		got, err := decodeWith([]byte(res.Stdout), s.res)
		if err != nil {
			rn.fail(group+"/undecodable", 0, "", &fl, err.Error(), ci)
			continue
		}
		kinds, detail := diffImages(want, got, true)
		for _, k := range kinds {
			ci.Detail = detail
			rn.fail(group+"/"+k, 0, "", &fl, fmt.Sprintf("`buf %s` differs from the flag's documented effect on the original image: %s", strings.Join(args, " "), detail), ci)
		}
		if len(kinds) == 0 {
			rn.count("enc_imageflag_cases", 1)
			if fl.ExcludeImports && len(want.GetFile()) < len(s.o.GetFile()) {
				rn.count("enc_exclude_imports_removed_files", 1)
			}
			rn.r.Distinct("fl|" + s.def.Name + "|" + route.name + "|" + fl.String())
		}
	}
}

func appendUnknown(m proto.Message, b []byte) {
	r := m.ProtoReflect()
	r.SetUnknown(append(append([]byte(nil), r.GetUnknown()...), b...))
}

// injected writes an image with unknown fields in a file, in file options and in message options and
// lets buf read and re-write it as binpb.
func (rn *runner) injected(s *wsState, comp string) {
	rn.r.Eval(1)
	img, err := decodeRaw(s.oRaw)
	if err != nil {
		rn.r.Incomplete("decode: " + err.Error())
		return
	}
	injectedSomething := false
	for _, f := range img.GetFile() {
		if f.GetBufExtension().GetIsImport() {
			continue
		}
		// unknown field in the file itself (number far away from descriptor.proto's and from 8042)
		appendUnknown(f, protowire.AppendBytes(protowire.AppendTag(nil, 9999, protowire.BytesType), []byte("zz")))
		if !f.HasOptions() {
			f.SetOptions(&descriptorpb.FileOptions{})
		}
		appendUnknown(f.GetOptions(), protowire.AppendVarint(protowire.AppendTag(nil, 77002, protowire.VarintType), 7))
		for _, m := range f.GetMessageType() {
			if m.Options == nil {
				m.Options = &descriptorpb.MessageOptions{}
			}
			appendUnknown(m.Options, protowire.AppendVarint(protowire.AppendTag(nil, 77001, protowire.VarintType), 5))
			for _, fd := range m.GetField() {
				if fd.Options == nil {
					fd.Options = &descriptorpb.FieldOptions{}
				}
				appendUnknown(fd.Options, protowire.AppendFixed32(protowire.AppendTag(nil, 77003, protowire.Fixed32Type), 0xdeadbeef))
			}
		}
		injectedSomething = true
	}
	if !injectedSomething {
		return
	}
	data, err := proto.Marshal(img)
	if err != nil {
		rn.r.Incomplete("marshal: " + err.Error())
		return
	}
	want, err := decodeWith(data, s.res)
	if err != nil {
		rn.r.Incomplete("decode: " + err.Error())
		return
	}
	in := "../out/inj-" + comp + ".binpb"
	out := "../out/inj-" + comp + "-out" + extOf("binpb", comp)
	if err := os.WriteFile(filepath.Join(s.src, in), data, 0o644); err != nil {
		rn.r.Incomplete(err.Error())
		return
	}
	cmds := [][]string{{"build", in, "-o", out}, {"build", out, "-o", "-#format=binpb"}}
	ci := caseInfo{Part: "injected-unknown-fields", Workspace: s.def.Name, Commands: cmds, Files: s.def.Files,
		Detail: "input image = original image + unknown field 9999 in every local file, 77002 in its file options, 77001 in every top-level message's options, 77003 in every field's options"}
	var last bufx.CLIResult
	for i, c := range cmds {
		last = rn.cli(s, c...)
		if last.ExitCode != 0 {
			ci.Stderr = last.Stderr
			rn.fail(fmt.Sprintf("inject/exit-step%d", i+1), 0, comp, nil, fmt.Sprintf("`buf %s` exits %d: %s", strings.Join(c, " "), last.ExitCode, clip(last.Stderr, 400)), ci)
			return
		}
	}
	got, err := decodeWith([]byte(last.Stdout), s.res)
	if err != nil {
		rn.fail("inject/undecodable", 0, "", nil, err.Error(), ci)
		return
	}
	kinds, detail := diffImages(want, got, true)
	for _, k := range kinds {
		rn.fail("inject/"+k, 0, "", nil, "image with unknown fields read and re-written as binpb differs: "+detail, ci)
	}
	if len(kinds) == 0 {
		rn.count("enc_injected_unknown_ok", 1)
		rn.r.Distinct("inj|" + s.def.Name + "|" + comp)
	}
}

// ---- part C: selections ------------------------------------------------------------------------------------------

type selection struct {
	P, X []string
	same bool // some p equals some x
}

func (s *wsState) selections(maxP, maxX int) []selection {
	n := len(s.cands)
	pick := func(idx []int) []string {
		out := make([]string, len(idx))
		for i, j := range idx {
			out[i] = s.cands[j]
		}
		return out
	}
	var out []selection
	for _, pi := range enum.Subsets(n, 0, maxP) {
		for _, xi := range enum.Subsets(n, 0, maxX) {
			sel := selection{P: pick(pi), X: pick(xi)}
			inside := false
			for _, p := range sel.P {
				for _, x := range sel.X {
					if p == x {
						sel.same = true
					} else if containsPath(x, p) {
						inside = true
					}
				}
			}
			if inside {
				continue
			}
			out = append(out, sel)
		}
	}
	return out
}

// pathDirHoldsImports reports whether some --path of the selection is a directory below which the full
// image has a file that is not a local file of the workspace.
func (s *wsState) pathDirHoldsImports(sel selection) bool {
	for _, p := range sel.P {
		if !s.isDir(p) {
			continue
		}
		for f := range s.model.deps {
			if _, local := s.back[f]; !local && containsPath(p, f) {
				return true
			}
		}
	}
	return false
}

func (s *wsState) isDir(p string) bool { _, ok := s.back[p]; return !ok }

// shape is the structural role of a selection: kind of each --path (d/f), kind of each --exclude-path
// with '<' when it lies inside some --path and '=' when it equals one.
func (s *wsState) shape(sel selection) string {
	k := func(p string) string {
		if s.isDir(p) {
			return "d"
		}
		return "f"
	}
	var ps, xs []string
	for _, p := range sel.P {
		ps = append(ps, k(p))
	}
	for _, x := range sel.X {
		t := k(x)
		for _, p := range sel.P {
			if p == x {
				t += "="
			} else if containsPath(p, x) {
				t += "<"
			}
		}
		xs = append(xs, t)
	}
	sort.Strings(ps)
	sort.Strings(xs)
	return "P[" + strings.Join(ps, ",") + "]X[" + strings.Join(xs, ",") + "]"
}

func selArgs(paths, excludes []string) []string {
	var a []string
	for _, p := range paths {
		a = append(a, "--path", p)
	}
	for _, x := range excludes {
		a = append(a, "--exclude-path", x)
	}
	return a
}

func (s *wsState) srcSel(sel selection) (paths, excludes []string) {
	for _, p := range sel.P {
		paths = append(paths, s.srcPath(p))
	}
	for _, x := range sel.X {
		excludes = append(excludes, s.srcPath(x))
	}
	return
}

// checkCfg is one entry of the --config menu: Label goes into distinct keys and counters, Text is the
// configuration passed with --config on both routes.
type checkCfg struct {
	Label string
	Text  string
	// RuleSet: a v1 file that selects one named rule set (the menu of the first version of this check)
	RuleSet bool
	// V2Default: the config is version v2 and has no section for the kind of check it is used with, so both
	// routes have to fall back to the v2 default of that kind
	V2Default bool
}

func useCfg(kind, rule string) checkCfg {
	return checkCfg{Label: rule, RuleSet: true, Text: fmt.Sprintf(`{"version":"v1","%s":{"use":["%s"]}}`, kind, rule)}
}

// The rule-set menu, then the configurations that differ in WHERE the rule set comes from: a version
// without any section (the default of that version applies), a v2 file that only has the section of the
// other kind of check, a v2 file with an explicit section.
var lintMenu = []checkCfg{
	useCfg("lint", "MINIMAL"), useCfg("lint", "BASIC"), useCfg("lint", "STANDARD"), useCfg("lint", "COMMENTS"), useCfg("lint", "UNARY_RPC"),
	{Label: "v2-no-sections", Text: `{"version":"v2"}`, V2Default: true},
	{Label: "v2-breaking-section-only", Text: `{"version":"v2","breaking":{"use":["WIRE"]}}`, V2Default: true},
	{Label: "v2-lint-section", Text: `{"version":"v2","lint":{"use":["STANDARD"],"except":["PROTOVALIDATE"],"disallow_comment_ignores":true}}`},
	{Label: "v1-no-sections", Text: `{"version":"v1"}`},
}
var breakingMenu = []checkCfg{
	useCfg("breaking", "FILE"), useCfg("breaking", "PACKAGE"), useCfg("breaking", "WIRE_JSON"), useCfg("breaking", "WIRE"),
	{Label: "v2-no-sections", Text: `{"version":"v2"}`, V2Default: true},
	{Label: "v2-lint-section-only", Text: `{"version":"v2","lint":{"use":["MINIMAL"]}}`, V2Default: true},
	{Label: "v2-breaking-section", Text: `{"version":"v2","breaking":{"use":["FILE"],"except":["FILE_NO_DELETE"]}}`},
	{Label: "v1-no-sections", Text: `{"version":"v1"}`},
}

var workspaceCfg = checkCfg{}

// xInsideP reports whether some exclude lies strictly inside some path.
func xInsideP(sel selection) bool {
	for _, p := range sel.P {
		for _, x := range sel.X {
			if p != x && containsPath(p, x) {
				return true
			}
		}
	}
	return false
}

func (rn *runner) selectionItems(s *wsState) []func() {
	var items []func()
	quick := rn.r.Quick()
	lb := s.v0OK && len(s.def.Modules) == 1 && s.def.Modules[0].Dir == "."
	// the menu entry a single-path selection gets in the quick tier rotates; the start differs per workspace
	offset := 0
	for _, c := range s.def.Name {
		offset += int(c)
	}
	nSingle := 0
	for i, sel := range s.selections(2, 2) {
		small := len(sel.P) <= 1 && len(sel.X) <= 1
		single := len(sel.P)+len(sel.X) <= 1
		if quick && sel.same && !small {
			// quick tier: "the same path in both flags" only asks for agreement of the routes; with a second,
			// unrelated path next to it nothing new is asked
			continue
		}
		// lint/breaking calls cost ~15x a build call. Thorough: every selection. Quick: no selection, one path,
		// one exclude, and one exclude strictly inside one path (a disjoint path/exclude pair selects what the
		// path alone selects; what the two routes build for it is compared by selectBuild all the same).
		doLB := lb && !sel.same && (!quick || single || (small && xInsideP(sel)))
		items = append(items, func() {
			rn.selectBuild(s, sel, i, small)
			if doLB {
				rn.selectCheck(s, sel, "lint", workspaceCfg)
				rn.selectCheck(s, sel, "breaking", workspaceCfg)
			}
		})
		if !lb || sel.same {
			continue
		}
		// the --config menu on both routes. Thorough: rule sets x selections with |P|<=1,|X|<=1, the other entries
		// x selections with at most one path. Quick: the whole
		// menu without a selection; every one-path selection with one entry, rotating through both menus, so
		// that config x kind of selection is covered pairwise over the workspaces instead of as a product.
		switch {
		case !quick && small, quick && len(sel.P)+len(sel.X) == 0:
			for _, c := range lintMenu {
				if single || c.RuleSet {
					items = append(items, func() { rn.selectCheck(s, sel, "lint", c) })
				}
			}
			for _, c := range breakingMenu {
				if single || c.RuleSet {
					items = append(items, func() { rn.selectCheck(s, sel, "breaking", c) })
				}
			}
		case quick && single:
			k := nSingle + offset
			nSingle++
			if k%2 == 0 {
				c := lintMenu[(k/2)%len(lintMenu)]
				items = append(items, func() { rn.selectCheck(s, sel, "lint", c) })
			} else {
				c := breakingMenu[(k/2)%len(breakingMenu)]
				items = append(items, func() { rn.selectCheck(s, sel, "breaking", c) })
			}
		}
	}
	if lb {
		items = append(items, func() { rn.breakingDirAgainstDir(s) })
	}
	items = append(items, rn.moduleDirItems(s)...)
	return items
}

type buildOutcome struct {
	exit int
	img  *imagev1.Image
	err  string
	args []string
}

func (rn *runner) buildRoute(s *wsState, input string, paths, excludes []string) buildOutcome {
	rn.r.Eval(1)
	args := append(append([]string{"build", input}, selArgs(paths, excludes)...), "-o", "-#format=binpb")
	res := rn.cli(s, args...)
	out := buildOutcome{exit: res.ExitCode, err: res.Stderr, args: args}
	if res.ExitCode == 0 {
		img, err := decodeWith([]byte(res.Stdout), s.res)
		if err != nil {
			out.exit, out.err = -1, "undecodable output: "+err.Error()
		}
		out.img = img
	}
	return out
}

func (rn *runner) selectBuild(s *wsState, sel selection, idx int, small bool) {
	sp, sx := s.srcSel(sel)
	shape := s.shape(sel)
	rank := len(sel.P) + len(sel.X)
	// A --path directory that, in the image, also holds files that are not local (imports that live in the
	// same directory as local files: a vendored google/protobuf next to the implicit well-known types) is a
	// structural role of its own: its failures get their own signature groups.
	sb := "select-build"
	if s.pathDirHoldsImports(sel) {
		sb = "select-build-path-dir-holds-imports"
		rn.count("sel_build_path_dir_holds_imports", 1)
	}
	routes := []struct {
		name string
		out  buildOutcome
	}{
		{"source", rn.buildRoute(s, ".", sp, sx)},
		{"image", rn.buildRoute(s, "../out/o.binpb", sel.P, sel.X)},
	}
	if small {
		// the other packagings and another image encoding take the same selections
		routes = append(routes,
			struct {
				name string
				out  buildOutcome
			}{"tar", rn.buildRoute(s, "../pk/ws.tar", sp, sx)},
			struct {
				name string
				out  buildOutcome
			}{"zip", rn.buildRoute(s, "../pk/ws.zip", sp, sx)},
			struct {
				name string
				out  buildOutcome
			}{"image-yaml-gz", rn.buildRoute(s, "../out/o.yaml.gz", sel.P, sel.X)},
		)
	}
	ci := caseInfo{Part: "select-build", Workspace: s.def.Name, Paths: sel.P, Excludes: sel.X, Files: s.def.Files}
	for _, rt := range routes {
		ci.Commands = append(ci.Commands, rt.out.args)
	}
	src := routes[0].out
	if small {
		// round 3: the same selection on every other way of naming the tree as an input (inputforms.go)
		rn.selectForms(s, sel, src, sp, sx)
	}
	if sel.same {
		// the same path as --path and --exclude-path: the statement only asks for agreement
		for _, rt := range routes[1:] {
			if (rt.out.exit == 0) != (src.exit == 0) {
				ci.Stderr = src.err + " | " + rt.out.err
				rn.fail(sb+"/same-path-in-both-flags/exit-"+rt.name, rank, shape, nil, fmt.Sprintf("source route exits %d, %s route exits %d", src.exit, rt.name, rt.out.exit), ci)
			}
		}
		rn.count("sel_build_same_path_both_flags", 1)
		return
	}
	targets, files := s.model.expect(sel.P, sel.X)
	if len(targets) == 0 {
		ok := true
		for _, rt := range routes {
			if rt.out.exit == 0 {
				ok = false
				ci.Detail = "the selection targets no file"
				rn.fail(sb+"/empty-target/"+rt.name+"-succeeds", rank, shape, nil,
					fmt.Sprintf("selection targets no file; %s route exits 0 with files %v (source route exit %d)", rt.name, names(rt.out.img), src.exit), ci)
			}
		}
		if ok {
			rn.count("sel_build_empty_target_both_fail", 1)
		}
		return
	}
	want := expectedImage(s.o, files)
	allOK := true
	for _, rt := range routes {
		if rt.out.exit != 0 {
			allOK = false
			if strings.HasPrefix(rt.name, "image") && isDecodeError(rt.out.err) {
				format := "binpb"
				if rt.name == "image-yaml-gz" {
					format = "yaml"
				}
				rn.readFail(format, flagSet{}, rt.out.args, bufx.CLIResult{ExitCode: rt.out.exit, Stderr: rt.out.err}, ci)
				continue
			}
			ci.Stderr = rt.out.err
			rn.fail(sb+"/"+rt.name+"-route/exit", rank, shape, nil,
				fmt.Sprintf("selection with targets %v: %s route exits %d: %s", targets, rt.name, rt.out.exit, clip(rt.out.err, 300)), ci)
			continue
		}
		if rt.name == "tar" || rt.name == "zip" {
			// a packaging of the same tree: must be the image the directory gives (same order too)
			if src.exit != 0 {
				continue
			}
			kinds, detail := diffImages(src.img, rt.out.img, true)
			for _, k := range kinds {
				allOK = false
				ci.Detail = detail
				rn.fail(sb+"/"+rt.name+"-vs-directory/"+k, rank, shape, nil,
					fmt.Sprintf("%s input with the same --path/--exclude-path differs from the directory input: %s", rt.name, detail), ci)
			}
			continue
		}
		kinds, detail := diffImages(want, rt.out.img, false)
		for _, k := range kinds {
			allOK = false
			ci.Detail = detail
			var encs []string
			if rt.name == "image-yaml-gz" {
				encs = []string{"yaml"}
			}
			rn.failEnc(encs, k, sb+"/"+rt.name+"-route-vs-model/"+k, rank, shape,
				fmt.Sprintf("%s route differs from the targeting rule applied to the full image (targets %v + import closure as imports, every file as in the full image): %s", rt.name, targets, detail), ci)
		}
		if ok, why := dagOrdered(rt.out.img); !ok {
			allOK = false
			rn.fail(sb+"/"+rt.name+"-route/file-order", rank, shape, nil, why, ci)
		}
	}
	// Order of files: both routes must give a valid DAG order (checked above). Whether they give the *same*
	// valid order is not demanded (the property speaks of the result, C01 of "every file after the files it
	// imports"); it is measured, see NOTES.md.
	if src.exit == 0 {
		for _, rt := range routes[1:] {
			if rt.out.exit == 0 && sameStrings(sortedCopy(names(src.img)), sortedCopy(names(rt.out.img))) && !sameStrings(names(src.img), names(rt.out.img)) {
				rn.count("sel_build_valid_but_different_file_order_"+rt.name, 1)
			}
		}
	}
	if !allOK {
		return
	}
	rn.count("sel_build_agree", 1)
	if small {
		rn.count("sel_build_agree_5_routes", 1)
	}
	nonTrivial := false
	if len(targets) < len(s.model.locals) {
		rn.count("sel_build_proper_subset", 1)
		nonTrivial = true
	}
	for _, f := range s.model.locals {
		isTarget := false
		for _, t := range targets {
			if t == f {
				isTarget = true
			}
		}
		if imp, in := files[f]; in && imp && !isTarget {
			excluded := false
			for _, x := range sel.X {
				if containsPath(x, f) {
					excluded = true
				}
			}
			if excluded {
				rn.count("sel_build_excluded_file_back_as_import", 1)
			} else {
				rn.count("sel_build_untargeted_local_as_import", 1)
			}
			break
		}
	}
	for _, x := range sel.X {
		for _, p := range sel.P {
			if containsPath(p, x) {
				rn.count("sel_build_exclude_inside_path", 1)
			}
		}
	}
	if nonTrivial {
		rn.r.Distinct("sel|" + s.def.Name + "|" + strings.Join(sel.P, ",") + "|" + strings.Join(sel.X, ","))
	}
	rn.r.SampleEvery(idx, 499, func() any { return ci })
}

type annLine struct {
	Path        string `json:"path"`
	StartLine   int    `json:"start_line"`
	StartColumn int    `json:"start_column"`
	EndLine     int    `json:"end_line"`
	EndColumn   int    `json:"end_column"`
	Type        string `json:"type"`
	Message     string `json:"message"`
}

func parseAnnotations(stdout string) ([]string, error) {
	var out []string
	for _, line := range strings.Split(strings.TrimSpace(stdout), "\n") {
		if line == "" {
			continue
		}
		var a annLine
		if err := json.Unmarshal([]byte(line), &a); err != nil {
			return nil, fmt.Errorf("not a JSON annotation: %q", clip(line, 200))
		}
		out = append(out, fmt.Sprintf("%s:%d:%d-%d:%d %s %s", a.Path, a.StartLine, a.StartColumn, a.EndLine, a.EndColumn, a.Type, a.Message))
	}
	sort.Strings(out)
	return out, nil
}

// selectCheck runs lint or breaking on the directory and on the image with one selection.
func (rn *runner) selectCheck(s *wsState, sel selection, kind string, cfgEntry checkCfg) {
	rule := cfgEntry.Label
	sp, sx := s.srcSel(sel)
	mk := func(input string, paths, excludes []string) []string {
		a := []string{kind, input}
		if kind == "breaking" {
			a = append(a, "--against", "../out/v0.binpb")
		}
		a = append(a, selArgs(paths, excludes)...)
		a = append(a, "--error-format=json")
		if rule != "" {
			a = append(a, "--config", cfgEntry.Text)
		}
		return a
	}
	srcArgs, imgArgs := mk(".", sp, sx), mk("../out/o.binpb", sel.P, sel.X)
	rn.r.Eval(2)
	a, b := rn.cli(s, srcArgs...), rn.cli(s, imgArgs...)
	ci := caseInfo{Part: "select-" + kind, Workspace: s.def.Name, Paths: sel.P, Excludes: sel.X, Commands: [][]string{srcArgs, imgArgs}, Files: s.def.Files}
	if s.def.V0 != nil && kind == "breaking" {
		ci.Detail = "previous version: " + fmt.Sprint(s.def.V0)
	}
	shape := s.shape(sel)
	rank := len(sel.P) + len(sel.X)
	if rule == "" {
		// round 3: the other input forms of the same tree against the directory's result (inputforms.go)
		if a.ExitCode != 0 && a.ExitCode != 100 {
			rn.checkForms(s, sel, kind, a.ExitCode, nil, srcArgs)
		} else if dirAnns, err := parseAnnotations(a.Stdout); err == nil {
			rn.checkForms(s, sel, kind, a.ExitCode, dirAnns, srcArgs)
		}
	}
	cfg := "workspace-config"
	if rule != "" {
		cfg = "config-override"
	}
	group := "select-" + kind + "/" + cfg
	if a.ExitCode != b.ExitCode {
		// both failing for the same reason (empty selection, same path twice) with different codes would be a difference too
		ci.Stderr = a.Stderr + " | " + b.Stderr
		rn.fail(group+"/exit", rank, shape, nil, fmt.Sprintf("`buf %s` exits %d on the directory and %d on the image (stdout %q vs %q)", kind, a.ExitCode, b.ExitCode, clip(a.Stdout, 300), clip(b.Stdout, 300)), ci)
		return
	}
	if a.ExitCode != 0 && a.ExitCode != 100 {
		rn.count("sel_"+kind+"_both_fail", 1)
		return
	}
	aa, err1 := parseAnnotations(a.Stdout)
	ba, err2 := parseAnnotations(b.Stdout)
	if err1 != nil || err2 != nil {
		rn.fail(group+"/unparsable-output", rank, shape, nil, fmt.Sprint(err1, err2), ci)
		return
	}
	if !sameStrings(aa, ba) {
		rn.fail(group+"/annotations", rank, shape, nil, fmt.Sprintf("`buf %s` on the directory reports %v, on the image %v", kind, aa, ba), ci)
		return
	}
	rn.count("sel_"+kind+"_agree", 1)
	if rule != "" {
		rn.pair("sel_menu_config_x_selection_shape_pairs", kind+"|"+rule+"|"+shape)
	}
	// which default applies: a v2 configuration without a section for this kind of check
	if cfgEntry.V2Default || (rule == "" && s.def.Note == "default-config") {
		if len(aa) > 0 {
			rn.count("sel_"+kind+"_v2_default_with_annotations", 1)
		}
		for _, l := range aa {
			// rules that are in the v2 default set and not in the v1 default set
			if strings.Contains(l, " FIELD_NOT_REQUIRED ") || strings.Contains(l, " PACKAGE_NO_IMPORT_CYCLE ") ||
				strings.Contains(l, " FIELD_SAME_CARDINALITY ") || strings.Contains(l, " FIELD_SAME_DEFAULT ") {
				rn.count("sel_"+kind+"_v2_default_reports_v2_only_rule", 1)
				break
			}
		}
	}
	if len(aa) > 0 {
		rn.count("sel_"+kind+"_with_annotations", 1)
		rn.r.Distinct("chk|" + kind + "|" + rule + "|" + s.def.Name + "|" + strings.Join(sel.P, ",") + "|" + strings.Join(sel.X, ","))
	}
	// narrowed: fewer annotations than the unrestricted run of the same config would give
	if len(sel.P)+len(sel.X) > 0 {
		targets, _ := s.model.expect(sel.P, sel.X)
		if len(targets) < len(s.model.locals) && len(aa) > 0 {
			tset := map[string]bool{}
			for _, t := range targets {
				tset[t] = true
			}
			onlyTargets := true
			for _, l := range aa {
				if !tset[l[:strings.Index(l, ":")]] {
					onlyTargets = false
				}
			}
			if onlyTargets {
				rn.count("sel_"+kind+"_annotations_narrowed", 1)
			}
		}
	}
}

// breakingDirAgainstDir: without path flags a directory --against works; it must agree with the image routes.
func (rn *runner) breakingDirAgainstDir(s *wsState) {
	rn.r.Eval(3)
	cmds := [][]string{
		{"breaking", ".", "--against", "../v0", "--error-format=json"},
		{"breaking", "../out/o.binpb", "--against", "../out/v0.binpb", "--error-format=json"},
		{"breaking", "../out/o.binpb", "--against", "../v0", "--error-format=json"},
	}
	ci := caseInfo{Part: "breaking-dir-vs-image", Workspace: s.def.Name, Commands: cmds, Files: s.def.Files}
	var first []string
	firstExit := 0
	for i, c := range cmds {
		res := rn.cli(s, c...)
		anns, err := parseAnnotations(res.Stdout)
		if err != nil {
			rn.fail("breaking-unselected/unparsable-output", 0, "", nil, err.Error(), ci)
			return
		}
		if i == 0 {
			first, firstExit = anns, res.ExitCode
			continue
		}
		if res.ExitCode != firstExit || !sameStrings(first, anns) {
			ci.Stderr = res.Stderr
			rn.fail("breaking-unselected/differs", 0, "", nil, fmt.Sprintf("`buf %s`: exit %d %v; `buf %s`: exit %d %v", strings.Join(cmds[0], " "), firstExit, first, strings.Join(c, " "), res.ExitCode, anns), ci)
			return
		}
	}
	rn.count("breaking_dir_vs_image_agree", 1)
}
