// Package c11 is the check for property C11 (see DESIGN.md section 3).
package c11
