package c11

import (
	"fmt"
	"os"
	"os/exec"
	"path/filepath"
	"strings"
)

// Strengthening round 3: the way the SAME tree is named as a source input is a dimension of the selection
// part. buf maps --path/--exclude-path values differently per kind of reference: for a directory they are
// relative to the working directory (buffetch/internal: getReadWriteBucketForOS), for archive and git
// references they are relative to the reference's subdir and are re-mapped below it
// (getReadBucketCloserForBucket / mapTargetPathsAndTargetExcludePathsForArchiveAndGitRefs), after
// strip_components. Before this round every selection was run on `.`, `ws.tar` and `ws.zip` only, i.e. with
// an identity mapping. Each form below names the tree the directory route reads, so under every selection
// it has to build the image the directory route builds (property: "every source packaging of the same tree
// builds to the same image", with --path/--exclude-path).

type inputForm struct {
	name string
	// family is the signature group: archive and git references share buf's "bucket in memory" code,
	// directory references have their own
	family string
	rank   int
	// fromParent: the working directory is the parent of the workspace directory
	fromParent bool
	ref        string
	// spell writes a workspace-relative path value the way this input wants it
	spell func(wsRel string) string
	// annPrefix: what the paths of lint/breaking annotations start with for this input (the path inside the
	// archive, the path relative to the working directory); removed before annotations are compared
	annPrefix string
	// wide: run on every selection with |P|<=1, |X|<=1; otherwise on selections with at most one value and on
	// one exclude strictly inside one path
	wide bool
	// subdir: the reference has a subdir option other than "."
	subdir bool
	git    bool
	// lint/breaking: also compared for lint / breaking with the workspace's configuration, on selections with
	// |P|<=1, |X|<=1 (quick tier: only the forms with checkQuick; git: only selections of narrowSel)
	lint, breaking, checkQuick bool
}

const (
	familyArchive = "archive-or-git-ref-vs-directory"
	familyDir     = "directory-ref-vs-directory"
)

func identity(p string) string { return p }

func (s *wsState) inputForms() []inputForm {
	forms := []inputForm{
		{name: "tar-subdir", family: familyArchive, ref: "../pk/sub.tar#subdir=top", spell: identity, annPrefix: "top/", wide: true, subdir: true, lint: true, breaking: true, checkQuick: true},
		{name: "zip-subdir", family: familyArchive, ref: "../pk/sub.zip#subdir=top", spell: identity, annPrefix: "top/", wide: true, subdir: true, lint: true, breaking: true},
		{name: "tar.gz-strip1-subdir", family: familyArchive, ref: "../pk/wrapsub.tar.gz#strip_components=1,subdir=top", spell: identity, annPrefix: "top/", wide: true, subdir: true},
		{name: "zip-subdir-spelled-dotslash", family: familyArchive, ref: "../pk/sub.zip#subdir=./top", spell: identity, subdir: true},
		{name: "tar-subdir-two-levels", family: familyArchive, ref: "../pk/clean2.tar#subdir=top/second", spell: identity, subdir: true},
		{name: "tar-dotslash-names-subdir", family: familyArchive, ref: "../pk/dotslash-sub.tar#subdir=top", spell: identity, subdir: true},
		{name: "zip-strip1", family: familyArchive, ref: "../pk/wrapped.zip#strip_components=1", spell: identity},
		{name: "tar.gz-subdir-dot", family: familyArchive, ref: "../pk/ws.tar.gz#subdir=.", spell: identity},
		{name: "dir-from-parent", family: familyDir, fromParent: true, ref: "src", spell: func(p string) string { return "src/" + p }, annPrefix: "src/", wide: true, lint: true},
		{name: "dir-absolute", family: familyDir, ref: s.src, spell: func(p string) string { return filepath.Join(s.src, filepath.FromSlash(p)) }},
		{name: "dir-values-spelled-dotslash", family: familyDir, ref: ".", spell: func(p string) string { return "./" + p }},
	}
	if s.gitOK {
		forms = append(forms, inputForm{name: "git-subdir", family: familyArchive, ref: "../pk/repo.git#subdir=top", spell: identity, annPrefix: "top/", subdir: true, git: true, lint: true, breaking: true})
	}
	for i := range forms {
		forms[i].rank = i + 1
	}
	return forms
}

func (s *wsState) formCwd(f inputForm) string {
	if f.fromParent {
		return s.dir
	}
	return s.src
}

// narrowSel: at most one value, or one exclude strictly inside one path.
func narrowSel(sel selection) bool {
	return len(sel.P)+len(sel.X) <= 1 || (len(sel.P) <= 1 && len(sel.X) <= 1 && xInsideP(sel))
}

func spellAll(f func(string) string, in []string) []string {
	var out []string
	for _, p := range in {
		out = append(out, f(p))
	}
	return out
}

func (rn *runner) buildRouteIn(s *wsState, cwd, input string, paths, excludes []string) buildOutcome {
	rn.r.Eval(1)
	args := append(append([]string{"build", input}, selArgs(paths, excludes)...), "-o", "-#format=binpb")
	res := rn.pool.run(cwd, args...)
	out := buildOutcome{exit: res.ExitCode, err: res.Stderr, args: args}
	if res.ExitCode == 0 {
		img, err := decodeWith([]byte(res.Stdout), s.res)
		if err != nil {
			out.exit, out.err = -1, "undecodable output: "+err.Error()
		}
		out.img = img
	}
	return out
}

// selectForms runs one selection (|P|<=1, |X|<=1) on every input form and compares with what the directory
// route (`buf build . <selection>`, outcome src) gave: both fail, or both succeed with the same image, file
// order included. This also holds for selections that target nothing and for "the same value in both flags".
func (rn *runner) selectForms(s *wsState, sel selection, src buildOutcome, sp, sx []string) {
	shape := s.shape(sel)
	selRank := len(sel.P) + len(sel.X)
	narrow := narrowSel(sel)
	targets, _ := s.model.expect(sel.P, sel.X)
	for _, f := range s.inputForms() {
		if !f.wide && !narrow {
			continue
		}
		out := rn.buildRouteIn(s, s.formCwd(f), f.ref, spellAll(f.spell, sp), spellAll(f.spell, sx))
		group := "select-build/" + f.family
		label := f.name + "/" + shape
		rank := selRank*100 + f.rank
		ci := caseInfo{Part: "select-build-input-forms", Workspace: s.def.Name, Paths: sel.P, Excludes: sel.X, Files: s.def.Files,
			Commands: [][]string{src.args, out.args}}
		if f.fromParent {
			ci.Cwd = s.def.Name + " (second command; the first runs in " + s.def.Name + "/src)"
		}
		if (out.exit == 0) != (src.exit == 0) {
			ci.Stderr = src.err + " | " + out.err
			rn.fail(group+"/exit", rank, label, nil,
				fmt.Sprintf("the directory input exits %d, the %s input of the same tree with the same selection exits %d: %s", src.exit, f.name, out.exit, clip(out.err, 300)), ci)
			continue
		}
		if src.exit != 0 {
			rn.count("sel_forms_both_fail", 1)
			continue
		}
		kinds, detail := diffImages(src.img, out.img, true)
		for _, k := range kinds {
			ci.Detail = detail
			rn.fail(group+"/"+k, rank, label, nil,
				fmt.Sprintf("%s input with the same --path/--exclude-path differs from the directory input: %s", f.name, detail), ci)
		}
		if len(kinds) > 0 {
			continue
		}
		rn.count("sel_forms_agree", 1)
		rn.count("sel_forms_agree_"+f.name, 1)
		effective := !sel.same && len(targets) > 0 && len(targets) < len(s.model.locals)
		if effective {
			if f.subdir {
				switch {
				case len(sel.P) == 0:
					rn.count("sel_forms_subdir_exclude_only_effective", 1)
				case len(sel.X) == 0:
					rn.count("sel_forms_subdir_path_only_effective", 1)
				default:
					rn.count("sel_forms_subdir_path_and_exclude_effective", 1)
				}
				if f.git {
					rn.count("sel_forms_git_subdir_effective", 1)
				}
			}
			if f.family == familyDir {
				rn.count("sel_forms_directory_ref_effective", 1)
			}
			rn.r.Distinct("form|" + s.def.Name + "|" + f.name + "|" + strings.Join(sel.P, ",") + "|" + strings.Join(sel.X, ","))
		}
	}
}

func stripAnnPrefix(anns []string, prefix string) []string {
	if prefix == "" {
		return anns
	}
	out := make([]string, len(anns))
	for i, a := range anns {
		out[i] = strings.TrimPrefix(a, prefix)
	}
	return out
}

// checkForms: lint / breaking with the workspace's own configuration on the input forms, compared with the
// result on the directory (exit code and annotation multiset; annotation paths are compared relative to the
// tree: an archive input reports `top/a/x.proto`, the directory `a/x.proto`).
func (rn *runner) checkForms(s *wsState, sel selection, kind string, dirExit int, dirAnns []string, dirArgs []string) {
	if len(sel.P) > 1 || len(sel.X) > 1 {
		// lint/breaking calls cost ~15x a build call: the input forms take the selections with |P|<=1, |X|<=1
		return
	}
	sp, sx := s.srcSel(sel)
	shape := s.shape(sel)
	selRank := len(sel.P) + len(sel.X)
	targets, _ := s.model.expect(sel.P, sel.X)
	for _, f := range s.inputForms() {
		if (kind == "lint" && !f.lint) || (kind == "breaking" && !f.breaking) {
			continue
		}
		if rn.r.Quick() && !f.checkQuick {
			continue
		}
		if f.git && !narrowSel(sel) {
			continue
		}
		args := []string{kind, f.ref}
		if kind == "breaking" {
			args = append(args, "--against", "../out/v0.binpb")
		}
		args = append(args, selArgs(spellAll(f.spell, sp), spellAll(f.spell, sx))...)
		args = append(args, "--error-format=json")
		rn.r.Eval(1)
		res := rn.pool.run(s.formCwd(f), args...)
		group := "select-" + kind + "/" + f.family
		label := f.name + "/" + shape
		rank := selRank*100 + f.rank
		ci := caseInfo{Part: "select-" + kind + "-input-forms", Workspace: s.def.Name, Paths: sel.P, Excludes: sel.X, Files: s.def.Files,
			Commands: [][]string{dirArgs, args}}
		if res.ExitCode != dirExit {
			ci.Stderr = res.Stderr
			rn.fail(group+"/exit", rank, label, nil,
				fmt.Sprintf("`buf %s` exits %d on the directory and %d on the %s input of the same tree (stdout %q, stderr %q)", kind, dirExit, res.ExitCode, f.name, clip(res.Stdout, 300), clip(res.Stderr, 300)), ci)
			continue
		}
		if dirExit != 0 && dirExit != 100 {
			rn.count("sel_forms_"+kind+"_both_fail", 1)
			continue
		}
		anns, err := parseAnnotations(res.Stdout)
		if err != nil {
			rn.fail(group+"/unparsable-output", rank, label, nil, err.Error(), ci)
			continue
		}
		anns = sortedCopy(stripAnnPrefix(anns, f.annPrefix))
		if !sameStrings(dirAnns, anns) {
			rn.fail(group+"/annotations", rank, label, nil,
				fmt.Sprintf("`buf %s` on the directory reports %v, on the %s input of the same tree %v", kind, dirAnns, f.name, anns), ci)
			continue
		}
		rn.count("sel_forms_"+kind+"_agree", 1)
		if len(anns) > 0 && len(targets) > 0 && len(targets) < len(s.model.locals) {
			if f.subdir && len(sel.P) == 0 {
				rn.count("sel_forms_"+kind+"_subdir_exclude_only_with_annotations", 1)
			}
			rn.r.Distinct("formchk|" + kind + "|" + s.def.Name + "|" + f.name + "|" + strings.Join(sel.P, ",") + "|" + strings.Join(sel.X, ","))
		}
	}
}

// ---- a module directory of a multi-module workspace as the input -------------------------------------------------
//
// `buf build <module dir>` builds that module with the rest of the workspace as its dependencies; the archive
// twin is `ws.tar#subdir=<module dir>`, where the controlling workspace is ABOVE the subdir and the path values
// are relative to the subdir, i.e. they are image paths. Reference: the directory form, from the workspace
// directory, with values relative to the working directory.

type moduleDirForm struct {
	name string
	rank int
	ref  func(mdir string) string
}

var moduleDirForms = []moduleDirForm{
	{name: "tar-subdir-is-module-dir", rank: 1, ref: func(m string) string { return "../pk/ws.tar#subdir=" + m }},
	{name: "zip-subdir-is-module-dir-two-levels", rank: 2, ref: func(m string) string { return "../pk/sub.zip#subdir=top/" + m }},
	{name: "tar.gz-strip1-subdir-is-module-dir", rank: 3, ref: func(m string) string { return "../pk/wrapped.tar.gz#strip_components=1,subdir=" + m }},
}

// inModule reports whether the image-namespace candidate p (file or directory) lies in the module at mdir.
func (s *wsState) inModule(p, mdir string) bool {
	if wp, ok := s.back[p]; ok {
		return strings.HasPrefix(wp, mdir+"/")
	}
	found := false
	for ip, wp := range s.back {
		if strings.HasPrefix(ip, p+"/") {
			if !strings.HasPrefix(wp, mdir+"/") {
				return false
			}
			found = true
		}
	}
	return found
}

func (rn *runner) moduleDirItems(s *wsState) []func() {
	var items []func()
	if len(s.def.Modules) < 2 {
		return nil
	}
	for _, m := range s.def.Modules {
		if m.Dir == "." {
			continue
		}
		nLocal := 0
		for _, wp := range s.back {
			if strings.HasPrefix(wp, m.Dir+"/") {
				nLocal++
			}
		}
		for _, sel := range s.selections(1, 1) {
			ok := true
			for _, p := range append(append([]string(nil), sel.P...), sel.X...) {
				if !s.inModule(p, m.Dir) {
					ok = false
				}
			}
			if !ok {
				continue
			}
			items = append(items, func() { rn.selectModuleDir(s, m.Dir, nLocal, sel) })
		}
	}
	return items
}

func (rn *runner) selectModuleDir(s *wsState, mdir string, nLocal int, sel selection) {
	sp, sx := s.srcSel(sel)
	ref := rn.buildRouteIn(s, s.src, mdir, sp, sx)
	shape := s.shape(sel)
	selRank := len(sel.P) + len(sel.X)
	for _, f := range moduleDirForms {
		// relative to the subdir = relative to the module root = the image path
		out := rn.buildRouteIn(s, s.src, f.ref(mdir), sel.P, sel.X)
		group := "select-build/" + familyArchive
		label := f.name + "/" + shape
		rank := selRank*100 + 50 + f.rank
		ci := caseInfo{Part: "select-build-module-dir", Workspace: s.def.Name, Paths: sel.P, Excludes: sel.X, Files: s.def.Files,
			Commands: [][]string{ref.args, out.args}}
		if (out.exit == 0) != (ref.exit == 0) {
			ci.Stderr = ref.err + " | " + out.err
			rn.fail(group+"/exit", rank, label, nil,
				fmt.Sprintf("the module directory input exits %d, the %s input of the same tree with the same selection exits %d: %s", ref.exit, f.name, out.exit, clip(out.err, 300)), ci)
			continue
		}
		if ref.exit != 0 {
			rn.count("sel_forms_both_fail", 1)
			continue
		}
		kinds, detail := diffImages(ref.img, out.img, true)
		for _, k := range kinds {
			ci.Detail = detail
			rn.fail(group+"/"+k, rank, label, nil,
				fmt.Sprintf("%s input with the same --path/--exclude-path differs from the module directory input: %s", f.name, detail), ci)
		}
		if len(kinds) > 0 {
			continue
		}
		rn.count("sel_forms_agree", 1)
		rn.count("sel_forms_agree_"+f.name, 1)
		nTargets := 0
		for _, file := range out.img.GetFile() {
			if !file.GetBufExtension().GetIsImport() {
				nTargets++
			}
		}
		if !sel.same && nTargets > 0 && nTargets < nLocal {
			rn.count("sel_forms_module_dir_effective", 1)
			if len(sel.P) == 0 {
				rn.count("sel_forms_subdir_exclude_only_effective", 1)
			}
			rn.r.Distinct("form|" + s.def.Name + "|" + f.name + "|" + mdir + "|" + strings.Join(sel.P, ",") + "|" + strings.Join(sel.X, ","))
		}
	}
}

// ---- git ---------------------------------------------------------------------------------------------------------

// makeGitRepo writes pk/repo.git: a non-bare repository with one commit on branch main that holds the tree
// below top/ and an uncompilable tree next to it (the contents of sub.tar). Needs the git binary, like buf's
// own git inputs do.
func makeGitRepo(dir string, files map[string]string) error {
	if _, err := exec.LookPath("git"); err != nil {
		return err
	}
	if err := writeTree(dir, files); err != nil {
		return err
	}
	env := append(os.Environ(),
		"GIT_CONFIG_GLOBAL=/dev/null", "GIT_CONFIG_SYSTEM=/dev/null", "GIT_CONFIG_NOSYSTEM=1",
		"GIT_AUTHOR_NAME=verif", "GIT_AUTHOR_EMAIL=verif@example.com", "GIT_COMMITTER_NAME=verif", "GIT_COMMITTER_EMAIL=verif@example.com",
		"GIT_AUTHOR_DATE=2024-01-01T00:00:00Z", "GIT_COMMITTER_DATE=2024-01-01T00:00:00Z")
	for _, args := range [][]string{
		{"init", "-q", "-b", "main", "."},
		{"add", "-A"},
		{"commit", "-q", "-m", "tree"},
	} {
		cmd := exec.Command("git", args...)
		cmd.Dir = dir
		cmd.Env = env
		if out, err := cmd.CombinedOutput(); err != nil {
			return fmt.Errorf("git %s: %v: %s", strings.Join(args, " "), err, clip(string(out), 200))
		}
	}
	return nil
}
