package c11

import (
	"bufio"
	"context"
	"encoding/json"
	"fmt"
	"io"
	"os"
	"os/exec"
	"runtime"
	"strings"
	"sync"
	"syscall"

	"github.com/bufbuild/buf/private/pkg/osext"
	"github.com/bufbuild/bufverif/internal/bufx"
	"github.com/bufbuild/bufverif/internal/evid"
)

// The CLI seam. Every `buf ...` invocation of this check is the real root command, run in-process by
// bufx.RunCLI, but inside a pool of worker subprocesses of this same binary: a worker handles one request
// at a time and changes its working directory to the request's cwd first. This is what makes the two
// routes of the property comparable the way a user runs them (`buf build . --path a/x.proto` next to
// `buf build ../img.binpb --path a/x.proto`, `buf lint` on an image picking up ./buf.yaml), which an
// in-process call in the harness process (shared cwd, 16 parallel cases) cannot do.

const workerName = "c11cli"

func init() { evid.RegisterWorker(workerName, cliWorker) }

type cliRequest struct {
	Cwd   string   `json:"cwd"`
	Args  []string `json:"args"`
	Stdin []byte   `json:"stdin,omitempty"`
}

type cliResponse struct {
	Exit   int    `json:"exit"`
	Stdout []byte `json:"stdout,omitempty"`
	Stderr []byte `json:"stderr,omitempty"`
	CPUms  int64  `json:"cpu_ms"`
}

func cpuNow() int64 {
	var ru syscall.Rusage
	if syscall.Getrusage(syscall.RUSAGE_SELF, &ru) != nil {
		return 0
	}
	return (ru.Utime.Sec+ru.Stime.Sec)*1000 + int64(ru.Utime.Usec+ru.Stime.Usec)/1000
}

// cliWorker is the subprocess entry point: JSON requests on stdin, JSON responses on stdout.
func cliWorker(_ []string) int {
	dec := json.NewDecoder(bufio.NewReaderSize(os.Stdin, 1<<20))
	out := bufio.NewWriterSize(os.Stdout, 1<<20)
	enc := json.NewEncoder(out)
	ctx := context.Background()
	for {
		var req cliRequest
		if err := dec.Decode(&req); err != nil {
			if err == io.EOF {
				return 0
			}
			return 3
		}
		var resp cliResponse
		t0 := cpuNow()
		// osext.Chdir, not os.Chdir: buf caches its working directory (osext.Getwd)
		if err := osext.Chdir(req.Cwd); err != nil {
			resp = cliResponse{Exit: -4, Stderr: []byte("chdir: " + err.Error())}
		} else {
			resp = runOne(ctx, req)
		}
		resp.CPUms = cpuNow() - t0
		if err := enc.Encode(&resp); err != nil {
			return 3
		}
		if err := out.Flush(); err != nil {
			return 3
		}
	}
}

func runOne(ctx context.Context, req cliRequest) (resp cliResponse) {
	defer func() {
		if p := recover(); p != nil {
			buf := make([]byte, 4096)
			buf = buf[:runtime.Stack(buf, false)]
			resp = cliResponse{Exit: -2, Stderr: []byte(fmt.Sprintf("panic: %v\n%s", p, buf))}
		}
	}()
	res := bufx.RunCLI(ctx, nil, string(req.Stdin), req.Args...)
	return cliResponse{Exit: res.ExitCode, Stdout: []byte(res.Stdout), Stderr: []byte(res.Stderr)}
}

type cliProc struct {
	cmd *exec.Cmd
	in  io.WriteCloser
	enc *json.Encoder
	dec *json.Decoder
}

// cliPool hands out worker subprocesses.
type cliPool struct {
	self    string
	free    chan *cliProc
	mu      sync.Mutex
	all     []*cliProc
	died    int
	retries int
	calls   int64
	cpuMS   map[string]int64
	nCmd    map[string]int64
}

func newCLIPool(n int) (*cliPool, error) {
	self, err := os.Executable()
	if err != nil {
		return nil, err
	}
	p := &cliPool{self: self, free: make(chan *cliProc, n), cpuMS: map[string]int64{}, nCmd: map[string]int64{}}
	for i := 0; i < n; i++ {
		w, err := p.spawn()
		if err != nil {
			p.close()
			return nil, err
		}
		p.free <- w
	}
	return p, nil
}

func (p *cliPool) spawn() (*cliProc, error) {
	cmd := exec.Command(p.self, "worker", workerName)
	cmd.Stderr = io.Discard
	in, err := cmd.StdinPipe()
	if err != nil {
		return nil, err
	}
	outp, err := cmd.StdoutPipe()
	if err != nil {
		return nil, err
	}
	if err := cmd.Start(); err != nil {
		return nil, err
	}
	w := &cliProc{cmd: cmd, in: in, enc: json.NewEncoder(in), dec: json.NewDecoder(bufio.NewReaderSize(outp, 1<<20))}
	p.mu.Lock()
	p.all = append(p.all, w)
	p.mu.Unlock()
	return w, nil
}

func (p *cliPool) close() {
	p.mu.Lock()
	defer p.mu.Unlock()
	for _, w := range p.all {
		_ = w.in.Close()
		_ = w.cmd.Process.Kill()
		_, _ = w.cmd.Process.Wait()
	}
	p.all = nil
}

// run executes `buf args...` with working directory cwd. Exit codes < 0 are harness-level:
// -2 panic inside the command (recovered), -3 the worker process died.
func (p *cliPool) run(cwd string, args ...string) bufx.CLIResult {
	// buf's own --timeout (default 2m) is switched off: on a heavily loaded machine a command can be
	// descheduled for that long and "context deadline exceeded" would look like a difference between routes.
	args = append(append([]string(nil), args...), "--timeout=0")
	var res bufx.CLIResult
	for attempt := 0; attempt < 3; attempt++ {
		res = p.runOnce(cwd, args...)
		// environment-induced failures (worker killed, deadline): try again; a deterministic crash repeats
		if res.ExitCode == -3 || strings.Contains(res.Stderr, "context deadline exceeded") || strings.Contains(res.Stderr, "context canceled") {
			p.mu.Lock()
			p.retries++
			p.mu.Unlock()
			continue
		}
		break
	}
	return res
}

func (p *cliPool) runOnce(cwd string, args ...string) bufx.CLIResult {
	w := <-p.free
	p.mu.Lock()
	p.calls++
	p.mu.Unlock()
	var resp cliResponse
	err := w.enc.Encode(&cliRequest{Cwd: cwd, Args: args})
	if err == nil {
		err = w.dec.Decode(&resp)
	}
	if err != nil {
		// the worker died (a panic on another goroutine, os.Exit, ...): replace it
		_ = w.in.Close()
		_ = w.cmd.Process.Kill()
		p.mu.Lock()
		p.died++
		p.mu.Unlock()
		if nw, serr := p.spawn(); serr == nil {
			p.free <- nw
		}
		return bufx.CLIResult{ExitCode: -3, Stderr: "worker process died: " + err.Error()}
	}
	p.free <- w
	if len(args) > 0 {
		p.mu.Lock()
		p.cpuMS[args[0]] += resp.CPUms
		p.nCmd[args[0]]++
		p.mu.Unlock()
	}
	return bufx.CLIResult{ExitCode: resp.Exit, Stdout: string(resp.Stdout), Stderr: string(resp.Stderr)}
}
