package c11

import (
	"context"
	"sort"
	"strings"

	"github.com/bufbuild/buf/private/gen/data/datawkt"
	"github.com/bufbuild/buf/private/pkg/storage"
)

// module is one local module of a workspace: Dir is the module root relative to the workspace root
// ("." for the root), Name the configured full name ("" for none).
type module struct {
	Dir  string
	Name string
}

// fileMeta is the hand-declared expectation for the buf extension of a local file.
type fileMeta struct {
	SyntaxUnspecified bool
	Unused            []int32
}

// wsDef is one hand-written workspace. Files are workspace-relative (buf.yaml included).
type wsDef struct {
	Name    string
	Quick   bool
	Files   map[string]string
	Modules []module
	// Meta holds the non-default buf-extension expectations keyed by image (root-relative) path.
	Meta map[string]fileMeta
	// V0 overrides files (workspace-relative) for the previous version used by `buf breaking`;
	// nil means no lint/breaking part for this workspace (multi-module workspaces: a single image has one
	// config, a workspace has one per module, so the property's comparison is not well defined there).
	V0 map[string]string
	// Note names what a workspace is there for, for the vacuity counters: "default-config" (the buf.yaml has
	// no lint/breaking section), "vendored-wkt" (local files at well-known-type paths), "legacy-features".
	Note string
}

// protoFiles returns the workspace-relative proto paths, sorted.
func (w *wsDef) protoFiles() []string {
	var out []string
	for p := range w.Files {
		if strings.HasSuffix(p, ".proto") {
			out = append(out, p)
		}
	}
	sort.Strings(out)
	return out
}

// moduleOf returns the module containing the workspace-relative path and the root-relative path.
func (w *wsDef) moduleOf(wsPath string) (module, string) {
	best := -1
	var rel string
	for i, m := range w.Modules {
		if m.Dir == "." {
			if best < 0 {
				best, rel = i, wsPath
			}
			continue
		}
		if strings.HasPrefix(wsPath, m.Dir+"/") {
			best, rel = i, strings.TrimPrefix(wsPath, m.Dir+"/")
		}
	}
	if best < 0 {
		panic("no module for " + wsPath + " in " + w.Name)
	}
	return w.Modules[best], rel
}

// imageSources returns root-relative path -> source text, and root-relative path -> workspace-relative path.
func (w *wsDef) imageSources() (map[string]string, map[string]string) {
	src := map[string]string{}
	back := map[string]string{}
	for _, p := range w.protoFiles() {
		_, rel := w.moduleOf(p)
		src[rel] = w.Files[p]
		back[rel] = p
	}
	return src, back
}

// v0Files returns the previous version of the workspace.
func (w *wsDef) v0Files() map[string]string {
	out := map[string]string{}
	for k, v := range w.Files {
		out[k] = v
	}
	for k, v := range w.V0 {
		if v == "" {
			delete(out, k)
		} else {
			out[k] = v
		}
	}
	return out
}

const bufYAMLV1One = `version: v1
name: buf.test/acme/one
lint:
  use:
    - STANDARD
breaking:
  use:
    - FILE
`

func workspaces(quick bool) []*wsDef {
	all := []*wsDef{
		wsOpts(), wsExt(), wsSvc(), wsTwoMod(), wsNest(), wsPlain(), wsAnyOpt(), wsComments(), wsLintCfg(), wsScoped(),
		wsV2Default(), wsVendorWKT(), wsLegacy(),
		wsV2DefaultModules(), wsVendorWKTOne(), wsEditions(), wsWorkV1(), wsGroups(), wsSubdirModule(), wsOptsV2(), wsSvcNoSource(), wsNestNamed(),
		wsThreeMod(), wsAnyOptProto2(), wsWeird(), wsBig(),
	}
	var out []*wsDef
	seen := map[string]bool{}
	for _, w := range all {
		if seen[w.Name] {
			panic("duplicate workspace " + w.Name)
		}
		seen[w.Name] = true
		if quick && !w.Quick {
			continue
		}
		out = append(out, w)
	}
	return out
}

// ---------------------------------------------------------------------------------------------

const optsOpts = `syntax = "proto2";
package a;
import "google/protobuf/descriptor.proto";
// Meta is a message-typed option payload.
message Meta {
  optional string owner = 1;
  repeated int32 tags = 2;
  optional Meta child = 3;
}
extend google.protobuf.MessageOptions {
  optional Meta meta = 50001;
  optional string note = 50002;
}
extend google.protobuf.FieldOptions {
  optional bool hot = 50003;
}
extend google.protobuf.FileOptions {
  repeated string file_tags = 50004;
}
`

const optsX = `syntax = "proto3";
package a;
import "a/opts.proto";
import "google/protobuf/timestamp.proto";
option (a.file_tags) = "alpha";
option (a.file_tags) = "beta";
option go_package = "example.com/a;apb";

// Leading comment on X.
message X {
  option (a.meta) = { owner: "me" tags: [1, 2] child { owner: "kid" } };
  option (a.note) = "hi";
  string name = 1 [(a.hot) = true]; // trailing on name
  google.protobuf.Timestamp at = 2;
}
`

const optsXV0 = `syntax = "proto3";
package a;
import "a/opts.proto";
import "google/protobuf/timestamp.proto";
message X {
  string name = 1;
  google.protobuf.Timestamp at = 2;
  int32 gone = 3;
}
`

const optsY = `syntax = "proto3";
package b;
import "a/x.proto";
// Y refers to X.
message Y {
  a.X x = 1;
  repeated a.X more = 2;
}
`

const optsYV0 = `syntax = "proto3";
package b;
import "a/x.proto";
message Y {
  a.X x = 1;
  a.X more = 2;
  string also_gone = 3;
}
`

func wsOpts() *wsDef {
	return &wsDef{
		Name: "opts", Quick: true,
		Files: map[string]string{
			"buf.yaml":     bufYAMLV1One,
			"a/opts.proto": optsOpts,
			"a/x.proto":    optsX,
			"b/y.proto":    optsY,
		},
		Modules: []module{{".", "buf.test/acme/one"}},
		V0:      map[string]string{"a/x.proto": optsXV0, "b/y.proto": optsYV0},
	}
}

// the same sources under a v2 buf.yaml with one module at "."
func wsOptsV2() *wsDef {
	w := wsOpts()
	w.Name, w.Quick = "opts-v2", false
	w.Files["buf.yaml"] = `version: v2
modules:
  - path: .
    name: buf.test/acme/one
lint:
  use:
    - STANDARD
    - COMMENTS
breaking:
  use:
    - WIRE_JSON
`
	return w
}

// ---------------------------------------------------------------------------------------------

const extBase = `syntax = "proto2";
package x;
import "google/protobuf/descriptor.proto";
message Cfg {
  optional string id = 1;
  extensions 100 to 199;
}
message Extra {
  optional int32 level = 1;
}
extend Cfg {
  optional Extra extra = 100;
  repeated string labels = 101;
}
extend google.protobuf.FileOptions {
  optional Cfg file_cfg = 51001;
}
extend google.protobuf.MessageOptions {
  optional Cfg cfg = 51002;
}
extend google.protobuf.EnumValueOptions {
  optional string alias = 51003;
}
extend google.protobuf.ExtensionRangeOptions {
  optional int32 range_tag = 51004;
}
`

const extUse = `syntax = "proto2";
package x;
import "x/base.proto";
option (x.file_cfg) = { id: "f" [x.extra] { level: 3 } [x.labels]: "l1" [x.labels]: "l2" };
message Holder {
  option (x.cfg).id = "h";
  option (x.cfg).(x.extra).level = 7;
  extensions 10 to 20 [(x.range_tag) = 9];
  optional int32 v = 1 [default = -5];
  message Inner {
    extend Holder {
      optional Inner inner_ext = 10;
    }
    optional bytes raw = 1 [default = "\001\377x"];
    optional double d = 2 [default = -inf];
  }
}
enum Color {
  RED = 0 [(x.alias) = "r"];
  BLUE = 1;
}
extend Holder {
  optional Color color = 11 [default = BLUE];
}
`

const extUseV0 = `syntax = "proto2";
package x;
import "x/base.proto";
message Holder {
  extensions 10 to 30;
  optional int64 v = 1;
  message Inner {
    extend Holder {
      optional Inner inner_ext = 10;
    }
    optional bytes raw = 1;
    optional double d = 2;
    optional string removed = 3;
  }
}
enum Color {
  RED = 0;
  BLUE = 1;
  GREEN = 2;
}
extend Holder {
  optional Color color = 11;
  optional string dropped_ext = 12;
}
`

const extZ = `syntax = "proto2";
package y;
import "x/use.proto";
message Z {
  optional x.Holder h = 1;
  optional x.Color c = 2;
}
`

const extZV0 = `syntax = "proto2";
package y;
import "x/use.proto";
message Z {
  optional x.Holder h = 1;
  optional x.Color c = 2;
  message Old {}
}
`

func wsExt() *wsDef {
	return &wsDef{
		Name: "ext", Quick: true,
		Files: map[string]string{
			"buf.yaml": `version: v1
breaking:
  use:
    - WIRE
`,
			"x/base.proto": extBase,
			"x/use.proto":  extUse,
			"y/z.proto":    extZ,
		},
		Modules: []module{{".", ""}},
		V0:      map[string]string{"x/use.proto": extUseV0, "y/z.proto": extZV0},
	}
}

// ---------------------------------------------------------------------------------------------

const svcRPC = `syntax = "proto3";
package opt;
import "google/protobuf/descriptor.proto";
enum Level {
  LEVEL_UNSPECIFIED = 0;
  LEVEL_ADMIN = 1;
}
message Auth {
  string scope = 1;
  Level level = 2;
  map<string, int32> limits = 3;
}
extend google.protobuf.MethodOptions {
  Auth auth = 52001;
}
extend google.protobuf.ServiceOptions {
  string host = 52002;
}
extend google.protobuf.OneofOptions {
  bool exclusive = 52003;
}
`

const svcTypes = `syntax = "proto3";

// Detached comment about the package.

// Leading comment of the package statement.
package api.v1;

// Kind enumerates kinds.
enum Kind {
  KIND_UNSPECIFIED = 0; // zero
  KIND_A = 1;
  KIND_B = 2 [deprecated = true];
}

import "opt/rpc.proto";

/* HelloRequest is the request.
 * It has a block comment. */
message HelloRequest {
  reserved 9, 20 to 29;
  reserved "legacy";
  string name = 1 [json_name = "who"];
  optional int32 count = 2;
  map<string, Detail> details = 3;
  oneof pick {
    option (opt.exclusive) = true;
    string text = 4;
    Kind kind = 5;
  }
  // Detail is nested.
  message Detail {
    repeated sint64 values = 1 [packed = false];
    bytes blob = 2;
  }
}

message HelloResponse {
  string greeting = 1;
}
`

const svcTypesV0 = `syntax = "proto3";
package api.v1;
enum Kind {
  KIND_UNSPECIFIED = 0;
  KIND_A = 1;
  KIND_B = 2;
  KIND_C = 3;
}
message HelloRequest {
  string name = 1;
  optional int64 count = 2;
  map<string, Detail> details = 3;
  oneof pick {
    string text = 4;
    Kind kind = 5;
  }
  string legacy = 9;
  message Detail {
    repeated sint64 values = 1;
    bytes blob = 2;
  }
}
message HelloResponse {
  string greeting = 1;
  string extra = 2;
}
`

const svcSvc = `syntax = "proto3";
package api.v1;
import "api/v1/types.proto";
import "google/protobuf/empty.proto";
import "opt/rpc.proto";

// Greeter greets.
service Greeter {
  option (opt.host) = "greeter.example.com";
  // Hello says hello.
  rpc Hello(HelloRequest) returns (HelloResponse) {
    option idempotency_level = NO_SIDE_EFFECTS;
    option (opt.auth) = { scope: "read" level: LEVEL_ADMIN limits { key: "qps" value: 5 } };
  }
  rpc Watch(stream HelloRequest) returns (stream google.protobuf.Empty);
}
`

const svcSvcV0 = `syntax = "proto3";
package api.v1;
import "api/v1/types.proto";
import "google/protobuf/empty.proto";
service Greeter {
  rpc Hello(HelloRequest) returns (HelloResponse);
  rpc Watch(HelloRequest) returns (stream google.protobuf.Empty);
  rpc Bye(HelloRequest) returns (google.protobuf.Empty);
}
`

func wsSvc() *wsDef {
	return &wsDef{
		Name: "svc", Quick: true,
		Files: map[string]string{
			"buf.yaml": `version: v1
name: buf.test/acme/svc
lint:
  use:
    - STANDARD
    - COMMENTS
breaking:
  use:
    - FILE
`,
			"opt/rpc.proto":      svcRPC,
			"api/v1/types.proto": svcTypes,
			"api/v1/svc.proto":   svcSvc,
		},
		Modules: []module{{".", "buf.test/acme/svc"}},
		V0:      map[string]string{"api/v1/types.proto": svcTypesV0, "api/v1/svc.proto": svcSvcV0},
	}
}

// svc with a buf.yaml that has no name and a different rule selection
func wsSvcNoSource() *wsDef {
	w := wsSvc()
	w.Name, w.Quick = "svc-minimal", false
	w.Files["buf.yaml"] = `version: v1
lint:
  use:
    - MINIMAL
    - FIELD_LOWER_SNAKE_CASE
  rpc_allow_google_protobuf_empty_responses: true
breaking:
  use:
    - PACKAGE
`
	w.Modules = []module{{".", ""}}
	return w
}

// ---------------------------------------------------------------------------------------------

func wsTwoMod() *wsDef {
	return &wsDef{
		Name: "twomod", Quick: true,
		Files: map[string]string{
			"buf.yaml": `version: v2
modules:
  - path: proto
    name: buf.test/acme/api
  - path: vendor
    name: buf.test/acme/common
`,
			"proto/api/a.proto": `syntax = "proto3";
package api;
import "common/c.proto";
// A uses C.
message A {
  common.C c = 1;
}
`,
			"proto/api/b.proto": `syntax = "proto3";
package api;
import "api/a.proto";
message B {
  A a = 1;
}
`,
			"vendor/common/c.proto": `syntax = "proto3";
package common;
message C {
  string id = 1;
}
`,
			"vendor/common/d.proto": `syntax = "proto3";
package common;
import "google/protobuf/duration.proto";
import "common/c.proto";
message D {
  google.protobuf.Duration ttl = 1;
  C c = 2;
}
`,
		},
		Modules: []module{{"proto", "buf.test/acme/api"}, {"vendor", "buf.test/acme/common"}},
	}
}

func wsThreeMod() *wsDef {
	return &wsDef{
		Name: "threemod", Quick: false,
		Files: map[string]string{
			"buf.yaml": `version: v2
modules:
  - path: m/one
    name: buf.test/acme/m1
  - path: m/two
  - path: three
    name: buf.test/other/m3
`,
			"m/one/p1/a.proto": `syntax = "proto3";
package p1;
import "p2/b.proto";
message A { p2.B b = 1; }
`,
			"m/two/p2/b.proto": `syntax = "proto3";
package p2;
import "p3/deep/c.proto";
message B { p3.deep.C c = 1; }
`,
			"three/p3/deep/c.proto": `syntax = "proto3";
package p3.deep;
import "google/protobuf/wrappers.proto";
message C { google.protobuf.StringValue s = 1; }
`,
			"three/p3/solo.proto": `syntax = "proto3";
package p3;
message Solo {}
`,
		},
		Modules: []module{{"m/one", "buf.test/acme/m1"}, {"m/two", ""}, {"three", "buf.test/other/m3"}},
	}
}

// ---------------------------------------------------------------------------------------------

const nestRoot = `syntax = "proto3";
package root;
import "a/b/c.proto";
message Root {
  a.b.C c = 1;
}
`
const nestRootV0 = `syntax = "proto3";
package root;
import "a/b/c.proto";
message Root {
  a.b.C c = 1;
  int32 old = 2;
}
`
const nestC = `syntax = "proto3";
package a.b;
import "a/d.proto";
message C {
  a.D d = 1;
}
`
const nestCV0 = `syntax = "proto3";
package a.b;
import "a/d.proto";
message C {
  a.D d = 1;
  enum Gone { GONE_UNSPECIFIED = 0; }
}
`
const nestD = `syntax = "proto3";
package a;
message D {
  string BadName = 1;
}
`
const nestDV0 = `syntax = "proto3";
package a;
message D {
  bytes BadName = 1;
}
`
const nestZ = `syntax = "proto3";
package ab;
message z_lower {
  int32 v = 1;
}
`
const nestZV0 = `syntax = "proto3";
package ab;
message z_lower {
  int32 v = 1;
  int32 w = 2;
}
`

// nest has a file at the root, nested directories and a directory ("ab") whose name has another
// directory name ("a") as a string prefix.
func wsNest() *wsDef {
	return &wsDef{
		Name: "nest", Quick: true,
		Files: map[string]string{
			"buf.yaml":    "version: v1\n",
			"root.proto":  nestRoot,
			"a/b/c.proto": nestC,
			"a/d.proto":   nestD,
			"ab/z.proto":  nestZ,
		},
		Modules: []module{{".", ""}},
		V0:      map[string]string{"root.proto": nestRootV0, "a/b/c.proto": nestCV0, "a/d.proto": nestDV0, "ab/z.proto": nestZV0},
	}
}

func wsNestNamed() *wsDef {
	w := wsNest()
	w.Name, w.Quick = "nest-v2", false
	w.Files["buf.yaml"] = `version: v2
name: buf.test/acme/nest
lint:
  use:
    - STANDARD
  except:
    - PACKAGE_VERSION_SUFFIX
breaking:
  use:
    - WIRE
`
	w.Modules = []module{{".", "buf.test/acme/nest"}}
	return w
}

// the nest sources in a module that is a sub-directory of the workspace: source paths are
// proto/a/..., image paths a/...
func wsSubdirModule() *wsDef {
	n := wsNest()
	w := &wsDef{Name: "subdir-module", Quick: false, Files: map[string]string{}, Modules: []module{{"proto", "buf.test/acme/sub"}}}
	for p, text := range n.Files {
		if strings.HasSuffix(p, ".proto") {
			w.Files["proto/"+p] = text
		}
	}
	w.Files["buf.yaml"] = `version: v2
modules:
  - path: proto
    name: buf.test/acme/sub
`
	return w
}

// ---------------------------------------------------------------------------------------------

// plain has no buf.yaml, a file without a syntax statement, an unused import and a public import.
func wsPlain() *wsDef {
	return &wsDef{
		Name: "plain", Quick: true,
		Files: map[string]string{
			"p/unspec.proto": `package p;
message Unspec {
  optional int32 v = 1;
}
`,
			"p/pub.proto": `syntax = "proto3";
package p;
message Pub {
  string s = 1;
}
`,
			"p/unused.proto": `syntax = "proto3";
package p;
import "p/unspec.proto";
import "google/protobuf/any.proto";
import public "p/pub.proto";
message Unused {
  google.protobuf.Any any = 1;
}
`,
			"q/user.proto": `syntax = "proto3";
package q;
import "p/unused.proto";
message User {
  p.Pub pub = 1;
  p.Unused unused = 2;
}
`,
		},
		Modules: []module{{".", ""}},
		Meta: map[string]fileMeta{
			"p/unspec.proto": {SyntaxUnspecified: true},
			"p/unused.proto": {Unused: []int32{0}},
		},
		V0: map[string]string{
			"p/pub.proto": `syntax = "proto3";
package p;
message Pub {
  string s = 1;
  string t = 2;
}
`,
			"q/user.proto": `syntax = "proto3";
package q;
import "p/unused.proto";
message User {
  p.Pub pub = 1;
  p.Unused unused = 2;
  message Nested {}
}
`,
		},
	}
}

// ---------------------------------------------------------------------------------------------

const anyDefs = `syntax = "proto3";
package o;
import "google/protobuf/any.proto";
import "google/protobuf/descriptor.proto";
message Payload {
  string text = 1;
  double ratio = 2;
  repeated Payload sub = 3;
  // a payload type that is nested two levels deep: looked up by URL in the resolver of the image
  message Part {
    message Leaf {
      string v = 1;
    }
  }
}
extend google.protobuf.MessageOptions {
  google.protobuf.Any detail = 53001;
  repeated google.protobuf.Any details = 53002;
}
extend google.protobuf.FieldOptions {
  double weight = 53003;
  float fweight = 53004;
  uint64 big = 53005;
  sint64 neg = 53006;
  bytes blob = 53007;
  string text = 53008;
  fixed64 fx = 53009;
  repeated sfixed32 sfx = 53010;
}
`

const anyUse = `syntax = "proto3";
package o;
import "o/defs.proto";
message U {
  option (o.detail) = {
    [type.googleapis.com/o.Payload] { text: "t" ratio: 0.5 sub { text: "s" } }
  };
  option (o.details) = {
    [type.googleapis.com/o.Payload] { text: "first" }
  };
  option (o.details) = {
    [type.googleapis.com/o.Payload] { ratio: -1.5e300 }
  };
  option (o.details) = {
    [type.googleapis.com/o.Payload.Part.Leaf] { v: "leaf" }
  };
  string f = 1 [
    (o.weight) = inf,
    (o.fweight) = nan,
    (o.big) = 18446744073709551615,
    (o.neg) = -9223372036854775808,
    (o.blob) = "\000\377\n\\",
    (o.text) = "tab\t\"q\" \303\274\303\261 \\ back\nline2: #x - y"
  ];
  int64 g = 2 [(o.weight) = -0.0, (o.fweight) = 1e-45, (o.fx) = 9007199254740993, (o.sfx) = -1, (o.sfx) = 2147483647];
  string h = 3 [(o.text) = "null", (o.blob) = ""];
  string i = 4 [(o.text) = ""];
}
`

func wsAnyOpt() *wsDef {
	return &wsDef{
		Name: "anyopt", Quick: true,
		Files: map[string]string{
			"buf.yaml":     "version: v1\nlint:\n  use:\n    - MINIMAL\n",
			"o/defs.proto": anyDefs,
			"o/use.proto":  anyUse,
		},
		Modules: []module{{".", ""}},
	}
}

func wsAnyOptProto2() *wsDef {
	w := wsAnyOpt()
	w.Name, w.Quick = "anyopt-proto2", false
	w.Files["o/defs.proto"] = strings.NewReplacer(
		`syntax = "proto3";`, `syntax = "proto2";`,
		"  string text = 1;\n  double ratio = 2;", "  optional string text = 1;\n  optional double ratio = 2;",
		"      string v = 1;", "      optional string v = 1;",
		"  google.protobuf.Any detail", "  optional google.protobuf.Any detail",
		"  double weight", "  optional double weight",
		"  float fweight", "  optional float fweight",
		"  uint64 big", "  optional uint64 big",
		"  sint64 neg", "  optional sint64 neg",
		"  bytes blob", "  optional bytes blob",
		"  string text = 53008", "  optional string text = 53008",
		"  fixed64 fx", "  optional fixed64 fx",
	).Replace(anyDefs)
	return w
}

// ---------------------------------------------------------------------------------------------

// scoped varies WHERE an extension that is used as a custom option is declared: at the top level of a
// file and inside messages nested 1, 2, 3 and 4 levels deep; below the first and below a later top-level
// message; for every kind of options message; extensions of an option payload message (extension of an
// extension) declared at depth 2 and 3; extension types that are themselves nested messages / enums; in an
// imported file and in the file that uses it. The text encodings (json, yaml) look every one of these up
// by (extendee, number) in a resolver made from the image (or, on the source route, from the compiler's
// results), so every declaration position is a separate path through those resolvers.
const scopedDecl = `syntax = "proto2";
package s;
import "google/protobuf/descriptor.proto";

// Cfg is an option payload that is extensible itself.
message Cfg {
  optional string id = 1;
  extensions 100 to 199;
}
extend google.protobuf.FileOptions {
  optional string top_file = 54001;
}
message First {
  // depth 1
  extend google.protobuf.FileOptions {
    optional string d1_file = 54011;
  }
  extend google.protobuf.MessageOptions {
    optional Cfg d1_msg = 54012;
  }
  message Inner {
    // depth 2
    extend google.protobuf.FieldOptions {
      optional string d2_field = 54021;
      repeated int32 d2_nums = 54022;
    }
    extend google.protobuf.MessageOptions {
      optional Cfg d2_msg = 54023;
    }
    extend Cfg {
      optional Leaf d2_cfg_ext = 100;
    }
    enum Mode {
      MODE_OFF = 0;
      MODE_ON = 1;
    }
    message Leaf {
      optional int32 n = 1;
      optional Mode mode = 2;
    }
    message Deep {
      // depth 3
      extend google.protobuf.EnumValueOptions {
        optional Mode d3_enum_value = 54031;
      }
      extend google.protobuf.FileOptions {
        optional Leaf d3_file = 54032;
      }
      extend google.protobuf.OneofOptions {
        optional bool d3_oneof = 54033;
      }
      extend Cfg {
        repeated string d3_cfg_labels = 101;
      }
      message Deeper {
        // depth 4
        extend google.protobuf.EnumOptions {
          optional string d4_enum = 54041;
        }
      }
    }
  }
}
// Second: declarations that are not below the first top-level message of the file.
message Second {
  optional int32 filler = 1;
  message Mid {
    message Low {
      extend google.protobuf.ServiceOptions {
        optional string d3_service = 54051;
      }
      extend google.protobuf.MethodOptions {
        optional Cfg d3_method = 54052;
      }
      extend google.protobuf.ExtensionRangeOptions {
        optional int32 d3_range = 54053;
      }
    }
    extend google.protobuf.FieldOptions {
      optional bool d2_second_field = 54054;
    }
  }
}
`

const scopedUse = `syntax = "proto2";
package s;
import "s/decl.proto";
option (s.top_file) = "t";
option (s.First.d1_file) = "one";
option (s.First.Inner.Deep.d3_file) = { n: 3 mode: MODE_ON };

message M {
  option (s.First.d1_msg) = { id: "m1" [s.First.Inner.d2_cfg_ext] { n: 1 } };
  option (s.First.Inner.d2_msg) = { id: "m2" [s.First.Inner.Deep.d3_cfg_labels]: "x" [s.First.Inner.Deep.d3_cfg_labels]: "y" };
  extensions 10 to 20 [(s.Second.Mid.Low.d3_range) = 4];
  optional string f = 1 [(s.First.Inner.d2_field) = "two", (s.First.Inner.d2_nums) = 1, (s.First.Inner.d2_nums) = 2];
  optional int32 g = 2 [(s.Second.Mid.d2_second_field) = true];
  oneof pick {
    option (s.First.Inner.Deep.d3_oneof) = true;
    string a = 3;
    int32 b = 4;
  }
}
enum E {
  option (s.First.Inner.Deep.Deeper.d4_enum) = "four";
  E_ZERO = 0 [(s.First.Inner.Deep.d3_enum_value) = MODE_ON];
  E_ONE = 1;
}
service Svc {
  option (s.Second.Mid.Low.d3_service) = "svc";
  rpc Do(M) returns (M) {
    option (s.Second.Mid.Low.d3_method) = { id: "rpc" };
  }
}
`

// declared (three levels deep) and used in the same file
const scopedSelf = `syntax = "proto2";
package t;
import "google/protobuf/descriptor.proto";
import "s/use.proto";
message Outer {
  message Mid {
    message In {
      extend google.protobuf.FieldOptions {
        optional string self_tag = 54061;
      }
    }
  }
  optional s.M m = 1 [(t.Outer.Mid.In.self_tag) = "self"];
}
`

func wsScoped() *wsDef {
	return &wsDef{
		Name: "scoped", Quick: true,
		Files: map[string]string{
			"buf.yaml":     "version: v1\n",
			"s/decl.proto": scopedDecl,
			"s/use.proto":  scopedUse,
			"t/self.proto": scopedSelf,
		},
		Modules: []module{{".", ""}},
	}
}

// ---------------------------------------------------------------------------------------------

// comments stresses the text encodings of source info: YAML-special scalars, long lines, tabs,
// trailing blanks, unicode.
const commentsText = "syntax = \"proto3\";\n" +
	"\n" +
	"// null\n" +
	"\n" +
	"// ~\n" +
	"\n" +
	"// yes: no\n" +
	"package c;\n" +
	"\n" +
	"// - dash item\n" +
	"// # hash\n" +
	"//   indented   \n" +
	"//\ttab\tseparated\t\n" +
	"message A { // trailing: {curly} [square] 'single' \"double\"\n" +
	"  // This is a very long comment line that goes well beyond eighty characters so that any line folding done by a YAML or text encoder would have to kick in here and possibly alter the content of this comment, which must not happen.\n" +
	"  string s = 1; /* block\n" +
	"   * multi éè 世界 \U0001F600\n" +
	"   */\n" +
	"  //\n" +
	"  // blank first and last\n" +
	"  //\n" +
	"  int32 n = 2;\n" +
	"  //no leading space\n" +
	"  bool b = 3; //\n" +
	"  // |\n" +
	"  // >\n" +
	"  // !!binary\n" +
	"  bytes y = 4;\n" +
	"  // 012\n" +
	"  // 1e3\n" +
	"  // 0x1F\n" +
	"  string t = 5;\n" +
	"  // ends with backslash \\\n" +
	"  // %percent &amp; *star @at `tick`\n" +
	"  string u = 6;\n" +
	"}\n" +
	"\n" +
	"// trailing detached at end of file\n"

func wsComments() *wsDef {
	return &wsDef{
		Name: "comments", Quick: true,
		Files: map[string]string{
			"c/a.proto": commentsText,
			"d/e.proto": `syntax = "proto3";
package d;
import "c/a.proto";
// E wraps A.
message E {
  c.A a = 1;
}
`,
		},
		Modules: []module{{".", ""}},
		V0: map[string]string{"d/e.proto": `syntax = "proto3";
package d;
import "c/a.proto";
message E {
  c.A a = 1;
  c.A b = 2;
}
`},
	}
}

// ---------------------------------------------------------------------------------------------

// lintcfg has path-based lint/breaking ignores and comment ignores in its buf.yaml.
func wsLintCfg() *wsDef {
	return &wsDef{
		Name: "lintcfg", Quick: true,
		Files: map[string]string{
			"buf.yaml": `version: v1
lint:
  use:
    - STANDARD
  except:
    - PACKAGE_VERSION_SUFFIX
  ignore:
    - l/ign.proto
  ignore_only:
    ENUM_ZERO_VALUE_SUFFIX:
      - l/part.proto
    FIELD_LOWER_SNAKE_CASE:
      - m
  allow_comment_ignores: true
breaking:
  use:
    - FILE
  ignore:
    - m
  ignore_only:
    FIELD_NO_DELETE:
      - l/ign.proto
`,
			"l/ign.proto": `syntax = "proto3";
package l;
message bad_message {
  string BadField = 1;
}
`,
			"l/part.proto": `syntax = "proto3";
package l;
enum Part {
  PART_ZERO = 0;
  other = 1;
}
message Part2 {
  // buf:lint:ignore FIELD_LOWER_SNAKE_CASE
  string IgnoredBad = 1;
  string NotIgnoredBad = 2;
}
`,
			"m/n.proto": `syntax = "proto3";
package m;
import "l/part.proto";
message N {
  string CamelField = 1;
  l.Part part = 2;
  enum lower_enum {
    LOWER_ENUM_UNSPECIFIED = 0;
  }
}
`,
		},
		Modules: []module{{".", ""}},
		V0: map[string]string{
			"l/ign.proto": `syntax = "proto3";
package l;
message bad_message {
  string BadField = 1;
  string deleted_field = 2;
  enum DeletedEnum { DELETED_ENUM_UNSPECIFIED = 0; }
}
`,
			"l/part.proto": `syntax = "proto3";
package l;
enum Part {
  PART_ZERO = 0;
  other = 1;
  removed = 2;
}
message Part2 {
  string IgnoredBad = 1;
  int32 NotIgnoredBad = 2;
}
`,
			"m/n.proto": `syntax = "proto3";
package m;
import "l/part.proto";
message N {
  string CamelField = 1;
  l.Part part = 2;
  string in_ignored_dir = 3;
  enum lower_enum {
    LOWER_ENUM_UNSPECIFIED = 0;
  }
}
`,
		},
	}
}

// ---------------------------------------------------------------------------------------------

func wsEditions() *wsDef {
	return &wsDef{
		Name: "editions", Quick: false,
		Files: map[string]string{
			"buf.yaml": "version: v2\n",
			"e/m.proto": `edition = "2023";
package e;
option features.field_presence = IMPLICIT;
// M uses features.
message M {
  string s = 1 [features.field_presence = EXPLICIT];
  repeated int32 r = 2 [features.repeated_field_encoding = EXPANDED];
  Sub sub = 3 [features.message_encoding = DELIMITED];
  message Sub {
    int32 i = 1;
  }
  E e = 4 [features.field_presence = EXPLICIT];
}
enum E {
  option features.enum_type = CLOSED;
  E_A = 1;
}
`,
			"e/n.proto": `edition = "2023";
package e;
import "e/m.proto";
option features.utf8_validation = NONE;
message N {
  M m = 1;
  string raw = 2;
}
`,
			"f/legacy.proto": `syntax = "proto2";
package f;
import "e/n.proto";
message Legacy {
  required e.N n = 1;
}
`,
		},
		Modules: []module{{".", ""}},
		V0: map[string]string{"e/n.proto": `edition = "2023";
package e;
import "e/m.proto";
message N {
  M m = 1;
  string raw = 2;
  int32 was_here = 3;
}
`},
	}
}

// ---------------------------------------------------------------------------------------------

func wsWorkV1() *wsDef {
	return &wsDef{
		Name: "work-v1", Quick: false,
		Files: map[string]string{
			"buf.work.yaml": "version: v1\ndirectories:\n  - m1\n  - m2\n",
			"m1/buf.yaml":   "version: v1\nname: buf.test/acme/m1\n",
			"m2/buf.yaml":   "version: v1\nname: buf.test/acme/m2\n",
			"m1/one/a.proto": `syntax = "proto3";
package one;
import "two/b.proto";
message A { two.B b = 1; }
`,
			"m1/one/sub/s.proto": `syntax = "proto3";
package one.sub;
message S {}
`,
			"m2/two/b.proto": `syntax = "proto3";
package two;
import "google/protobuf/struct.proto";
message B { google.protobuf.Struct s = 1; }
`,
		},
		Modules: []module{{"m1", "buf.test/acme/m1"}, {"m2", "buf.test/acme/m2"}},
	}
}

// ---------------------------------------------------------------------------------------------

func wsGroups() *wsDef {
	return &wsDef{
		Name: "groups", Quick: false,
		Files: map[string]string{
			"buf.yaml": "version: v1\nlint:\n  use:\n    - BASIC\n",
			"g/g.proto": `syntax = "proto2";
package g;
// G has groups and defaults.
message G {
  optional group Inner = 1 {
    optional string s = 1 [default = "a\"b\\c\n"];
    repeated group Deep = 2 {
      optional float f = 1 [default = 1.5];
    }
  }
  required uint64 u = 2;
  optional bool flag = 3 [default = true, deprecated = true];
  optional E e = 4 [default = E_B];
  reserved 100 to max;
  reserved "old_name", "older_name";
  oneof choice {
    int32 one = 10;
    group Two = 11 {
      optional int32 x = 1;
    }
  }
  extensions 50 to 59;
}
enum E {
  option allow_alias = true;
  E_A = 0;
  E_B = 1;
  E_B_ALIAS = 1;
  reserved 5 to 7, -3;
  reserved "E_OLD";
}
`,
			"h/h.proto": `syntax = "proto2";
package h;
import "g/g.proto";
extend g.G {
  optional string tail = 50 [deprecated = true];
  repeated g.E es = 51 [packed = true];
}
message H {
  optional g.G g = 1;
}
`,
		},
		Modules: []module{{".", ""}},
		V0: map[string]string{"h/h.proto": `syntax = "proto2";
package h;
import "g/g.proto";
extend g.G {
  optional string tail = 50;
  repeated g.E es = 51;
  optional int32 lost = 52;
}
message H {
  optional g.G g = 1;
}
`},
	}
}

// ---------------------------------------------------------------------------------------------

// weird has unusual but legal names: a directory ending in .proto, a package named like a YAML/JSON
// keyword, dots and dashes in directory names.
func wsWeird() *wsDef {
	return &wsDef{
		Name: "weird", Quick: false,
		Files: map[string]string{
			"dir.proto/in.proto": `syntax = "proto3";
package null;
message True {
  string false = 1;
  string nan = 2 [json_name = "NaN"];
}
`,
			"dash-dir/v1.2/f.proto": `syntax = "proto3";
package dash.v1;
import "dir.proto/in.proto";
message F {
  null.True t = 1;
}
`,
			"top.proto": `syntax = "proto3";
message NoPackage {
  string s = 1;
}
`,
		},
		Modules: []module{{".", ""}},
	}
}

// ---------------------------------------------------------------------------------------------

// big is a slightly larger import graph (diamond + chain) for the targeting closure.
func wsBig() *wsDef {
	f := func(pkg string, imports ...string) string {
		var b strings.Builder
		b.WriteString("syntax = \"proto3\";\npackage " + pkg + ";\n")
		for _, i := range imports {
			b.WriteString("import \"" + i + "\";\n")
		}
		b.WriteString("// M of " + pkg + "\nmessage M {\n")
		for n, i := range imports {
			ipkg := strings.ReplaceAll(strings.TrimSuffix(i[:strings.LastIndex(i, "/")], "/"), "/", ".")
			b.WriteString("  " + ipkg + ".M f" + string(rune('a'+n)) + " = " + string(rune('1'+n)) + ";\n")
		}
		b.WriteString("}\n")
		return b.String()
	}
	return &wsDef{
		Name: "big", Quick: false,
		Files: map[string]string{
			"buf.yaml":         "version: v1\nname: buf.test/acme/big\n",
			"top/m.proto":      f("top", "left/m.proto", "right/m.proto"),
			"left/m.proto":     f("left", "base/m.proto"),
			"right/m.proto":    f("right", "base/m.proto", "right/in/m.proto"),
			"right/in/m.proto": f("right.in"),
			"base/m.proto":     f("base"),
		},
		Modules: []module{{".", "buf.test/acme/big"}},
	}
}

// ---------------------------------------------------------------------------------------------
// Strengthening round 2: which DEFAULT configuration applies, files at well-known-type paths, legacy
// proto2 features at every nesting position.

// v2default is a workspace whose buf.yaml is version v2 and has NO lint and NO breaking section, so that
// both routes have to fall back to a default rule set: the per-module default on the source route, the
// "image default" chosen in bufctl on the image route. The protos are written so that the v1 and the v2
// defaults give different results: a proto2 required field (FIELD_NOT_REQUIRED is v2-only), a package
// import cycle a -> b -> a that is not a file cycle (PACKAGE_NO_IMPORT_CYCLE is v2-only), comment
// ignores that suppress findings (honoured by default in v2 only); the previous version differs by a
// cardinality change (FIELD_SAME_LABEL in v1, FIELD_SAME_CARDINALITY in v2) and a default value change
// (FIELD_SAME_DEFAULT is v2-only). The --config menu entries without a lint/breaking section (c11.go) put
// every other lint/breaking workspace into the same situation.
const v2dA = `syntax = "proto2";
package a;
import "b/b.proto";
// A has a required field.
message A {
  required string id = 1;
  optional b.B b = 2;
  // buf:lint:ignore FIELD_LOWER_SNAKE_CASE
  optional string IgnoredBad = 3;
  optional string NotIgnoredBad = 4;
  optional int32 level = 5 [default = 7];
  repeated string names = 6;
}
// buf:lint:ignore ENUM_PASCAL_CASE
enum ignored_enum {
  IGNORED_ENUM_UNSPECIFIED = 0;
}
`

const v2dAV0 = `syntax = "proto2";
package a;
import "b/b.proto";
message A {
  required string id = 1;
  optional b.B b = 2;
  optional string IgnoredBad = 3;
  optional string NotIgnoredBad = 4;
  optional int32 level = 5 [default = 3];
  optional string names = 6;
  optional string gone = 7;
}
enum ignored_enum {
  IGNORED_ENUM_UNSPECIFIED = 0;
  IGNORED_ENUM_GONE = 1;
}
`

const v2dLeaf = `syntax = "proto3";
package a;
// Leaf is imported by package b: together with a/a.proto importing b/b.proto the packages form a cycle.
message Leaf {
  string v = 1;
}
`

const v2dB = `syntax = "proto3";
package b;
message B {
  string v = 1;
}
`

const v2dBack = `syntax = "proto3";
package b;
import "a/leaf.proto";
message Back {
  a.Leaf leaf = 1;
  // buf:lint:ignore FIELD_LOWER_SNAKE_CASE
  string AlsoIgnored = 2;
}
`

const v2dBackV0 = `syntax = "proto3";
package b;
import "a/leaf.proto";
message Back {
  a.Leaf leaf = 1;
  string AlsoIgnored = 2;
  repeated int32 was_repeated = 3;
}
`

func wsV2Default() *wsDef {
	return &wsDef{
		Name: "v2default", Quick: true,
		Files: map[string]string{
			"buf.yaml":     "version: v2\n",
			"a/a.proto":    v2dA,
			"a/leaf.proto": v2dLeaf,
			"b/b.proto":    v2dB,
			"b/back.proto": v2dBack,
		},
		Modules: []module{{".", ""}},
		V0:      map[string]string{"a/a.proto": v2dAV0, "b/back.proto": v2dBackV0},
		Note:    "default-config",
	}
}

// the same trees under a v2 buf.yaml that names its one module explicitly (still no lint/breaking section)
func wsV2DefaultModules() *wsDef {
	w := wsV2Default()
	w.Name, w.Quick = "v2default-modules", false
	w.Files["buf.yaml"] = `version: v2
modules:
  - path: .
    name: buf.test/acme/v2d
`
	w.Modules = []module{{".", "buf.test/acme/v2d"}}
	return w
}

// wktText returns buf's embedded copy of a well-known type file.
func wktText(path string) string {
	data, err := storage.ReadPath(context.Background(), datawkt.ReadBucket, path)
	if err != nil {
		panic("embedded well-known type " + path + ": " + err.Error())
	}
	return string(data)
}

// vendored copy of timestamp.proto whose text differs from the embedded one: comments, an option and a field
const vendoredTimestamp = `// A vendored copy that is NOT the copy embedded in buf.
syntax = "proto3";

package google.protobuf;

option go_package = "google.golang.org/protobuf/types/known/timestamppb";
option java_package = "com.example.vendored";

// Timestamp, vendored.
message Timestamp {
  int64 seconds = 1;
  int32 nanos = 2;
  // zone_offset exists in the vendored copy only.
  int32 zone_offset = 3;
}
`

const vendorUser = `syntax = "proto3";
package v;
import "google/protobuf/duration.proto";
import "google/protobuf/timestamp.proto";
import "google/protobuf/wrappers.proto";
// User uses a vendored well-known type with changed text (timestamp), a vendored one with the embedded
// text (duration) and one that is not vendored (wrappers).
message User {
  google.protobuf.Timestamp at = 1;
  google.protobuf.Duration ttl = 2;
  google.protobuf.StringValue note = 3;
}
`

// a file below google/protobuf/ that is not a well-known type, importing a vendored and an implicit one
const vendorExtra = `syntax = "proto3";
package google.protobuf;
import "google/protobuf/timestamp.proto";
import "google/protobuf/empty.proto";
message NotWellKnown {
  Timestamp t = 1;
  Empty e = 2;
}
`

// vendorwkt carries its own files at well-known-type paths, in a module other than the one that uses
// them: every route (directory, archives, `buf export` output, image) has to take the workspace's copy,
// as a target file, and not the copy embedded in buf.
func wsVendorWKT() *wsDef {
	return &wsDef{
		Name: "vendorwkt", Quick: true,
		Files: map[string]string{
			"buf.yaml": `version: v2
modules:
  - path: proto
  - path: third_party
    name: buf.test/acme/wkt
`,
			"proto/v/user.proto":                          vendorUser,
			"third_party/google/protobuf/timestamp.proto": vendoredTimestamp,
			"third_party/google/protobuf/duration.proto":  wktText("google/protobuf/duration.proto"),
			"third_party/google/protobuf/extra.proto":     vendorExtra,
		},
		Modules: []module{{"proto", ""}, {"third_party", "buf.test/acme/wkt"}},
		Note:    "vendored-wkt",
	}
}

// the same files in one module at the workspace root, no buf.yaml
func wsVendorWKTOne() *wsDef {
	return &wsDef{
		Name: "vendorwkt-one", Quick: false,
		Files: map[string]string{
			"v/user.proto":                    vendorUser,
			"google/protobuf/timestamp.proto": vendoredTimestamp,
			"google/protobuf/duration.proto":  wktText("google/protobuf/duration.proto"),
			"google/protobuf/extra.proto":     vendorExtra,
		},
		Modules: []module{{".", ""}},
		Note:    "vendored-wkt",
	}
}

// legacy has the proto2 features that protobuf-go cannot link (and that buf therefore strips from the copy
// of the descriptors its resolver is made from) at every structural position: message_set_wire_format on a
// top-level message, one and two levels below a message that has nothing legacy of its own, below a
// message that is a message set itself, after a legacy sibling; "extensions N to max" of a message set
// (end 2^31-1, above the 2^29-1 of ordinary messages) at the same positions; extensions of a message set
// with a number above 2^29-1 declared at file level and inside a nested message; the weak field option one
// and two levels down. The files use custom options, so every text encoding and every read of the image
// has to consult the resolver.
const legacyOpt = `syntax = "proto2";
package l;
import "google/protobuf/descriptor.proto";
extend google.protobuf.MessageOptions {
  optional string tag = 55001;
}
extend google.protobuf.FieldOptions {
  optional int32 rank = 55002;
}
`

const legacySets = `syntax = "proto2";
package l;
import "l/opt.proto";

// Plain has no legacy feature of its own, only below it.
message Plain {
  option (l.tag) = "plain";
  optional string name = 1 [(l.rank) = 1];
  // depth 1
  message Set {
    option message_set_wire_format = true;
    extensions 4 to max;
  }
  message Holder {
    optional string value = 1;
    // depth 2
    message Deep {
      option message_set_wire_format = true;
      option (l.tag) = "deep";
      extensions 100 to max;
    }
    message WeakDeep {
      optional Item item = 1 [weak = true];
    }
  }
  message Item {
    optional int32 n = 1;
    optional Holder holder = 2 [weak = true, (l.rank) = 2];
    // the message-set idiom: the extension lives in the message it carries, with a number above 2^29-1
    extend Set {
      optional Item in_set = 1000000000;
    }
    extend TopSet {
      optional Item in_top = 4;
    }
  }
}

// TopSet is a message set itself and has another one below it.
message TopSet {
  option message_set_wire_format = true;
  extensions 4 to max;
  message Inner {
    option message_set_wire_format = true;
    extensions 1 to 10, 536870000 to max;
  }
}

// Later comes after a legacy sibling and is plain again.
message Later {
  option (l.tag) = "later";
  optional Plain p = 1;
  message Tail {
    option message_set_wire_format = true;
    extensions 1000 to 2147483646;
  }
}

extend TopSet {
  optional Later later = 2000000000;
}
extend Plain.Set {
  optional Later later_in_set = 5;
}
`

// only below the SECOND top-level message, and no custom option in this file
const legacyUse = `syntax = "proto2";
package m;
import "l/sets.proto";
message First {
  optional l.Plain plain = 1;
  optional l.TopSet top = 2;
}
message Second {
  optional l.Plain.Set set = 1;
  message Low {
    optional First first = 1 [weak = true];
    message Lower {
      option message_set_wire_format = true;
      extensions 7 to max;
    }
  }
}
`

func wsLegacy() *wsDef {
	return &wsDef{
		Name: "legacy", Quick: true,
		Files: map[string]string{
			"l/opt.proto":  legacyOpt,
			"l/sets.proto": legacySets,
			"m/use.proto":  legacyUse,
		},
		Modules: []module{{".", ""}},
		Note:    "legacy-features",
	}
}
