package c11

import (
	"fmt"
	"regexp"
	"sort"
	"strings"

	imagev1 "github.com/bufbuild/buf/private/gen/proto/go/buf/alpha/image/v1"
	"google.golang.org/protobuf/proto"
	"google.golang.org/protobuf/reflect/protodesc"
	"google.golang.org/protobuf/reflect/protoreflect"
	"google.golang.org/protobuf/reflect/protoregistry"
	"google.golang.org/protobuf/types/descriptorpb"
	"google.golang.org/protobuf/types/dynamicpb"
)

// ---- decoding ---------------------------------------------------------------------------------
//
// Everything the CLI hands back is binpb on stdout. It is decoded here with protobuf-go only (no buf
// code): first without a resolver to learn the descriptors, then again with a dynamicpb resolver built
// from those descriptors so that custom options are compared as typed extension fields and not as
// byte strings whose field order would be an encoding accident.

type resolver interface {
	protoregistry.ExtensionTypeResolver
	protoregistry.MessageTypeResolver
}

func decodeRaw(data []byte) (*imagev1.Image, error) {
	img := &imagev1.Image{}
	if err := (proto.UnmarshalOptions{Resolver: emptyResolver{}}).Unmarshal(data, img); err != nil {
		return nil, err
	}
	return img, nil
}

// emptyResolver resolves nothing: custom options stay unknown fields.
type emptyResolver struct{}

func (emptyResolver) FindExtensionByName(protoreflect.FullName) (protoreflect.ExtensionType, error) {
	return nil, protoregistry.NotFound
}
func (emptyResolver) FindExtensionByNumber(protoreflect.FullName, protoreflect.FieldNumber) (protoreflect.ExtensionType, error) {
	return nil, protoregistry.NotFound
}
func (emptyResolver) FindMessageByName(protoreflect.FullName) (protoreflect.MessageType, error) {
	return nil, protoregistry.NotFound
}
func (emptyResolver) FindMessageByURL(string) (protoreflect.MessageType, error) {
	return nil, protoregistry.NotFound
}

func fileToFDP(f *imagev1.ImageFile) (*descriptorpb.FileDescriptorProto, error) {
	c := proto.Clone(f).(*imagev1.ImageFile)
	c.ClearBufExtension()
	b, err := proto.MarshalOptions{Deterministic: true}.Marshal(c)
	if err != nil {
		return nil, err
	}
	fdp := &descriptorpb.FileDescriptorProto{}
	if err := (proto.UnmarshalOptions{Resolver: emptyResolver{}}).Unmarshal(b, fdp); err != nil {
		return nil, err
	}
	return fdp, nil
}

// newResolver links the files of a (complete) image and returns a dynamic type resolver for them.
func newResolver(img *imagev1.Image) (resolver, *protoregistry.Files, error) {
	fds := &descriptorpb.FileDescriptorSet{}
	for _, f := range img.GetFile() {
		fdp, err := fileToFDP(f)
		if err != nil {
			return nil, nil, err
		}
		makeLinkable(fdp)
		fds.File = append(fds.File, fdp)
	}
	files, err := protodesc.NewFiles(fds)
	if err != nil {
		return nil, nil, err
	}
	return dynamicpb.NewTypes(files), files, nil
}

// maxOrdinaryNumber is the largest field number of a message that is not a message set.
const maxOrdinaryNumber = 1<<29 - 1

// makeLinkable edits fdp (a private copy, used for nothing but the resolver that decodes custom options)
// so that protodesc accepts it: protobuf-go refuses proto1 message sets. This is this check's own, blunt
// version of what buf does for its resolver; the images that are compared are never touched by it.
func makeLinkable(fdp *descriptorpb.FileDescriptorProto) {
	keep := func(exts []*descriptorpb.FieldDescriptorProto) []*descriptorpb.FieldDescriptorProto {
		var out []*descriptorpb.FieldDescriptorProto
		for _, e := range exts {
			if e.GetNumber() <= maxOrdinaryNumber {
				out = append(out, e)
			}
		}
		return out
	}
	var msg func(m *descriptorpb.DescriptorProto)
	msg = func(m *descriptorpb.DescriptorProto) {
		if m.GetOptions().GetMessageSetWireFormat() {
			m.Options.MessageSetWireFormat = nil
		}
		var ranges []*descriptorpb.DescriptorProto_ExtensionRange
		for _, r := range m.GetExtensionRange() {
			if r.GetStart() > maxOrdinaryNumber {
				continue
			}
			if r.GetEnd() > maxOrdinaryNumber+1 {
				r.End = proto.Int32(maxOrdinaryNumber + 1)
			}
			ranges = append(ranges, r)
		}
		m.ExtensionRange = ranges
		m.Extension = keep(m.Extension)
		for _, n := range m.GetNestedType() {
			msg(n)
		}
	}
	for _, m := range fdp.GetMessageType() {
		msg(m)
	}
	fdp.Extension = keep(fdp.Extension)
}

func decodeWith(data []byte, res resolver) (*imagev1.Image, error) {
	img := &imagev1.Image{}
	if err := (proto.UnmarshalOptions{Resolver: res}).Unmarshal(data, img); err != nil {
		return nil, err
	}
	normaliseAny(img.ProtoReflect(), res)
	return img, nil
}

// normaliseAny re-encodes the payload of every google.protobuf.Any below m (custom options can be
// Any-typed) deterministically, so that two images are not told apart by the field order inside an Any
// payload, which no encoding promises to keep. Payloads of unknown type are left alone.
func normaliseAny(m protoreflect.Message, res resolver) {
	if m.Descriptor().FullName() == "google.protobuf.Any" {
		fields := m.Descriptor().Fields()
		urlFD, valFD := fields.ByNumber(1), fields.ByNumber(2)
		if urlFD == nil || valFD == nil {
			return
		}
		mt, err := res.FindMessageByURL(m.Get(urlFD).String())
		if err != nil {
			return
		}
		payload := mt.New()
		if err := (proto.UnmarshalOptions{Resolver: res, AllowPartial: true}).Unmarshal(m.Get(valFD).Bytes(), payload.Interface()); err != nil {
			return
		}
		normaliseAny(payload, res)
		b, err := proto.MarshalOptions{Deterministic: true, AllowPartial: true}.Marshal(payload.Interface())
		if err != nil {
			return
		}
		m.Set(valFD, protoreflect.ValueOfBytes(b))
		return
	}
	m.Range(func(fd protoreflect.FieldDescriptor, v protoreflect.Value) bool {
		if fd.Message() == nil {
			return true
		}
		switch {
		case fd.IsMap():
			if fd.MapValue().Message() != nil {
				v.Map().Range(func(_ protoreflect.MapKey, mv protoreflect.Value) bool {
					normaliseAny(mv.Message(), res)
					return true
				})
			}
		case fd.IsList():
			l := v.List()
			for i := 0; i < l.Len(); i++ {
				normaliseAny(l.Get(i).Message(), res)
			}
		default:
			normaliseAny(v.Message(), res)
		}
		return true
	})
}

func names(img *imagev1.Image) []string {
	out := make([]string, 0, len(img.GetFile()))
	for _, f := range img.GetFile() {
		out = append(out, f.GetName())
	}
	return out
}

func byName(img *imagev1.Image) map[string]*imagev1.ImageFile {
	m := map[string]*imagev1.ImageFile{}
	for _, f := range img.GetFile() {
		m[f.GetName()] = f
	}
	return m
}

// ---- expected images under flags (the documented effect of each flag, written down here) -----------

type flagSet struct {
	ExcludeImports    bool
	ExcludeSourceInfo bool
	AsFDS             bool
}

func (f flagSet) args() []string {
	var a []string
	if f.ExcludeImports {
		a = append(a, "--exclude-imports")
	}
	if f.ExcludeSourceInfo {
		a = append(a, "--exclude-source-info")
	}
	if f.AsFDS {
		a = append(a, "--as-file-descriptor-set")
	}
	return a
}

func (f flagSet) String() string {
	a := f.args()
	if len(a) == 0 {
		return "noflags"
	}
	return strings.Join(a, "")
}

func allFlagSets() []flagSet {
	var out []flagSet
	for i := 0; i < 8; i++ {
		out = append(out, flagSet{i&1 != 0, i&2 != 0, i&4 != 0})
	}
	return out
}

func plainExt() *imagev1.ImageFileExtension {
	return imagev1.ImageFileExtension_builder{IsImport: proto.Bool(false), IsSyntaxUnspecified: proto.Bool(false)}.Build()
}

// applyFlags is the reference model of the three flags:
//
//	--exclude-imports           drops exactly the files marked is_import
//	--exclude-source-info       drops source_code_info of every file and nothing else
//	--as-file-descriptor-set    writes a FileDescriptorSet, i.e. the same files without the buf extension;
//	                            read back as an image that is "not an import, syntax specified, no module,
//	                            no unused dependencies" for every file
func applyFlags(o *imagev1.Image, f flagSet) *imagev1.Image {
	out := &imagev1.Image{}
	var files []*imagev1.ImageFile
	for _, file := range o.GetFile() {
		if f.ExcludeImports && file.GetBufExtension().GetIsImport() {
			continue
		}
		c := proto.Clone(file).(*imagev1.ImageFile)
		if f.ExcludeSourceInfo {
			c.ClearSourceCodeInfo()
		}
		if f.AsFDS {
			c.SetBufExtension(plainExt())
		}
		files = append(files, c)
	}
	out.SetFile(files)
	return out
}

// ---- image comparison with a classified difference ------------------------------------------------------

// stripOptions clears every field named "options" below m.
func stripOptions(m protoreflect.Message) {
	m.Range(func(fd protoreflect.FieldDescriptor, v protoreflect.Value) bool {
		if fd.Message() == nil || fd.IsMap() {
			return true
		}
		if fd.Name() == "options" {
			m.Clear(fd)
			return true
		}
		if fd.IsList() {
			l := v.List()
			for i := 0; i < l.Len(); i++ {
				stripOptions(l.Get(i).Message())
			}
			return true
		}
		stripOptions(v.Message())
		return true
	})
}

// optionsHaveUnknown reports whether some "options" message below m has unknown fields (= custom options
// when decoded without a resolver).
func optionsHaveUnknown(m protoreflect.Message) bool {
	found := false
	m.Range(func(fd protoreflect.FieldDescriptor, v protoreflect.Value) bool {
		if fd.Message() == nil || fd.IsMap() {
			return true
		}
		if fd.IsList() {
			l := v.List()
			for i := 0; i < l.Len(); i++ {
				if optionsHaveUnknown(l.Get(i).Message()) {
					found = true
				}
			}
			return !found
		}
		if fd.Name() == "options" && len(v.Message().GetUnknown()) > 0 {
			found = true
			return false
		}
		if optionsHaveUnknown(v.Message()) {
			found = true
		}
		return !found
	})
	return found
}

func sameStrings(a, b []string) bool {
	if len(a) != len(b) {
		return false
	}
	for i := range a {
		if a[i] != b[i] {
			return false
		}
	}
	return true
}

func sortedCopy(a []string) []string {
	c := append([]string(nil), a...)
	sort.Strings(c)
	return c
}

// diffImages returns the kinds of difference between two images ("" kinds list = equal) and a short text.
// ordered=false ignores the order of files.
func diffImages(want, got *imagev1.Image, ordered bool) (kinds []string, detail string) {
	add := func(kind, d string) {
		for _, k := range kinds {
			if k == kind {
				return
			}
		}
		kinds = append(kinds, kind)
		if detail == "" {
			detail = d
		}
	}
	wn, gn := names(want), names(got)
	if !sameStrings(sortedCopy(wn), sortedCopy(gn)) {
		add("file-set", fmt.Sprintf("files want %v got %v", wn, gn))
	} else if ordered && !sameStrings(wn, gn) {
		add("file-order", fmt.Sprintf("file order want %v got %v", wn, gn))
	}
	gm := byName(got)
	for _, wf := range want.GetFile() {
		gf, ok := gm[wf.GetName()]
		if !ok {
			continue
		}
		if proto.Equal(wf, gf) {
			continue
		}
		name := wf.GetName()
		classified := false
		add := func(kind, d string) { classified = true; add(kind, d) }
		we, ge := wf.GetBufExtension(), gf.GetBufExtension()
		if we.GetIsImport() != ge.GetIsImport() || we.HasIsImport() != ge.HasIsImport() {
			add("is_import", fmt.Sprintf("%s: is_import want %v got %v", name, we.GetIsImport(), ge.GetIsImport()))
		}
		if we.GetIsSyntaxUnspecified() != ge.GetIsSyntaxUnspecified() || we.HasIsSyntaxUnspecified() != ge.HasIsSyntaxUnspecified() {
			add("is_syntax_unspecified", fmt.Sprintf("%s: is_syntax_unspecified want %v got %v", name, we.GetIsSyntaxUnspecified(), ge.GetIsSyntaxUnspecified()))
		}
		if fmt.Sprint(we.GetUnusedDependency()) != fmt.Sprint(ge.GetUnusedDependency()) {
			add("unused_dependency", fmt.Sprintf("%s: unused_dependency want %v got %v", name, we.GetUnusedDependency(), ge.GetUnusedDependency()))
		}
		if !proto.Equal(we.GetModuleInfo(), ge.GetModuleInfo()) {
			add("module_info", fmt.Sprintf("%s: module_info want {%v} got {%v}", name, we.GetModuleInfo(), ge.GetModuleInfo()))
		}
		if (we == nil) != (ge == nil) {
			add("buf_extension", fmt.Sprintf("%s: buf_extension presence want %v got %v", name, we != nil, ge != nil))
		}
		if !proto.Equal(wf.GetSourceCodeInfo(), gf.GetSourceCodeInfo()) || wf.HasSourceCodeInfo() != gf.HasSourceCodeInfo() {
			add("source_info", fmt.Sprintf("%s: source_code_info differs (%s)", name, diffSourceInfo(wf.GetSourceCodeInfo(), gf.GetSourceCodeInfo())))
		}
		wc, gc := proto.Clone(wf).(*imagev1.ImageFile), proto.Clone(gf).(*imagev1.ImageFile)
		wc.ClearSourceCodeInfo()
		gc.ClearSourceCodeInfo()
		wc.ClearBufExtension()
		gc.ClearBufExtension()
		if !proto.Equal(wc, gc) {
			ws, gs := fmt.Sprint(wc), fmt.Sprint(gc)
			stripOptions(wc.ProtoReflect())
			stripOptions(gc.ProtoReflect())
			if proto.Equal(wc, gc) {
				add("options", fmt.Sprintf("%s: options differ: want %s got %s", name, clip(ws, 1500), clip(gs, 1500)))
			} else {
				add("descriptor", fmt.Sprintf("%s: descriptor differs: want %s got %s", name, clip(ws, 1500), clip(gs, 1500)))
			}
		}
		if !classified {
			add("other", name+": files differ in an unclassified way")
		}
	}
	return kinds, detail
}

func diffSourceInfo(w, g *descriptorpb.SourceCodeInfo) string {
	if len(w.GetLocation()) != len(g.GetLocation()) {
		return fmt.Sprintf("%d locations vs %d", len(w.GetLocation()), len(g.GetLocation()))
	}
	for i, wl := range w.GetLocation() {
		gl := g.GetLocation()[i]
		if !proto.Equal(wl, gl) {
			return fmt.Sprintf("location %d path %v: want %q got %q", i, wl.GetPath(), clip(fmt.Sprint(wl), 400), clip(fmt.Sprint(gl), 400))
		}
	}
	return "unknown fields"
}

func clip(s string, n int) string {
	if len(s) > n {
		return s[:n] + "…"
	}
	return s
}

// dagOrdered reports whether every file comes after all of its dependencies that are in the image.
func dagOrdered(img *imagev1.Image) (bool, string) {
	pos := map[string]int{}
	for i, f := range img.GetFile() {
		pos[f.GetName()] = i
	}
	for i, f := range img.GetFile() {
		for _, d := range f.GetDependency() {
			if j, ok := pos[d]; ok && j > i {
				return false, fmt.Sprintf("%s (position %d) comes before its dependency %s (position %d)", f.GetName(), i, d, j)
			}
		}
	}
	return true, ""
}

// ---- reference model of path targeting ------------------------------------------------------------------------

var importRE = regexp.MustCompile(`(?m)^\s*import\s+(?:public\s+|weak\s+)?"([^"]+)"\s*;`)

// refModel knows the local files (root-relative) and the import graph, both taken from the source text
// (and from protobuf-go's registry for the well-known types), not from buf.
type refModel struct {
	locals []string
	deps   map[string][]string
}

func newRefModel(sources map[string]string) (*refModel, error) {
	m := &refModel{deps: map[string][]string{}}
	for p := range sources {
		m.locals = append(m.locals, p)
	}
	sort.Strings(m.locals)
	var addWKT func(p string) error
	addWKT = func(p string) error {
		if _, ok := m.deps[p]; ok {
			return nil
		}
		fd, err := protoregistry.GlobalFiles.FindFileByPath(p)
		if err != nil {
			return fmt.Errorf("import %q is neither local nor a well-known type", p)
		}
		m.deps[p] = []string{}
		for i := 0; i < fd.Imports().Len(); i++ {
			ip := fd.Imports().Get(i).Path()
			m.deps[p] = append(m.deps[p], ip)
			if err := addWKT(ip); err != nil {
				return err
			}
		}
		return nil
	}
	for _, p := range m.locals {
		m.deps[p] = []string{}
		for _, sm := range importRE.FindAllStringSubmatch(sources[p], -1) {
			m.deps[p] = append(m.deps[p], sm[1])
		}
	}
	for _, p := range m.locals {
		for _, d := range m.deps[p] {
			if _, ok := sources[d]; !ok {
				if err := addWKT(d); err != nil {
					return nil, err
				}
			}
		}
	}
	return m, nil
}

func containsPath(dirOrFile, file string) bool {
	return dirOrFile == file || strings.HasPrefix(file, dirOrFile+"/")
}

// expect returns, for a selection, the expected targets and the expected files (path -> is_import).
// A file is a target iff it is local, lies in some --path (or there is none) and in no --exclude-path;
// the image has the targets plus the transitive closure of their imports, marked as imports.
func (m *refModel) expect(paths, excludes []string) (targets []string, files map[string]bool) {
	files = map[string]bool{}
	for _, f := range m.locals {
		in := len(paths) == 0
		for _, p := range paths {
			if containsPath(p, f) {
				in = true
			}
		}
		for _, x := range excludes {
			if containsPath(x, f) {
				in = false
			}
		}
		if in {
			targets = append(targets, f)
		}
	}
	var visit func(p string)
	visit = func(p string) {
		if _, ok := files[p]; ok {
			return
		}
		files[p] = true
		for _, d := range m.deps[p] {
			visit(d)
		}
	}
	for _, t := range targets {
		visit(t)
	}
	for _, t := range targets {
		files[t] = false
	}
	return targets, files
}

// candidates are the selectable paths in the image namespace: every directory (except the root) and
// every local file.
func (m *refModel) candidates() []string {
	set := map[string]bool{}
	for _, f := range m.locals {
		set[f] = true
		parts := strings.Split(f, "/")
		for i := 1; i < len(parts); i++ {
			set[strings.Join(parts[:i], "/")] = true
		}
	}
	out := make([]string, 0, len(set))
	for p := range set {
		out = append(out, p)
	}
	sort.Strings(out)
	return out
}

// expectedImage builds the expected image of a selection from the full image o.
func expectedImage(o *imagev1.Image, files map[string]bool) *imagev1.Image {
	out := &imagev1.Image{}
	var fs []*imagev1.ImageFile
	for _, f := range o.GetFile() {
		imp, ok := files[f.GetName()]
		if !ok {
			continue
		}
		c := proto.Clone(f).(*imagev1.ImageFile)
		c.GetBufExtension().SetIsImport(imp)
		fs = append(fs, c)
	}
	out.SetFile(fs)
	return out
}
