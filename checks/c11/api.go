package c11

import (
	"bytes"
	"fmt"

	"github.com/bufbuild/buf/private/bufpkg/bufimage"
	"github.com/google/uuid"
	"google.golang.org/protobuf/encoding/protowire"
	"google.golang.org/protobuf/proto"
	"google.golang.org/protobuf/types/descriptorpb"
)

// API-level part for the one mechanism of the property that the CLI cannot reach: a FileDescriptorProto that
// was decoded from *image* bytes carries the buf extension (field 8042) in its unknown fields; turning it
// into an image file again must take import/syntax/unused/module metadata from the arguments only, strip
// exactly that field from the unknown fields and keep every other unknown field.
func (rn *runner) apiItems(s *wsState) []func() {
	return []func(){func() { rn.apiStrip(s, false) }, func() { rn.apiStrip(s, true) }}
}

func count8042(b []byte) (n int, rest []byte, ok bool) {
	for len(b) > 0 {
		num, typ, l := protowire.ConsumeTag(b)
		if l < 0 {
			return 0, nil, false
		}
		vl := protowire.ConsumeFieldValue(num, typ, b[l:])
		if vl < 0 {
			return 0, nil, false
		}
		if num == 8042 {
			n++
		} else if num >= 9000 {
			rest = append(rest, b[:l+vl]...)
		}
		b = b[l+vl:]
	}
	return n, rest, true
}

func (rn *runner) apiStrip(s *wsState, surround bool) {
	rn.r.Eval(1)
	fds := &descriptorpb.FileDescriptorSet{}
	if err := (proto.UnmarshalOptions{Resolver: emptyResolver{}}).Unmarshal(s.oRaw, fds); err != nil {
		rn.r.Incomplete("api: " + err.Error())
		return
	}
	ci := caseInfo{Part: "api-strip-buf-extension", Workspace: s.def.Name, Files: s.def.Files,
		Detail: fmt.Sprintf("image bytes decoded as FileDescriptorSet (field 8042 unknown, surrounded by other unknown fields: %v) -> bufimage.NewImageFile with flipped flags -> ImageToProtoImage -> bytes", surround)}
	pre := protowire.AppendVarint(protowire.AppendTag(nil, 9998, protowire.VarintType), 1)
	post := protowire.AppendBytes(protowire.AppendTag(nil, 9999, protowire.BytesType), []byte("zz"))
	orig := byName(s.o)
	var files []bufimage.ImageFile
	for _, fdp := range fds.GetFile() {
		u := fdp.ProtoReflect().GetUnknown()
		if n, _, ok := count8042(u); !ok || n != 1 {
			rn.r.Incomplete(fmt.Sprintf("api: expected the buf extension among the unknown fields of %s (found %d)", fdp.GetName(), n))
			return
		}
		if surround {
			nu := append(append(append([]byte(nil), pre...), u...), post...)
			fdp.ProtoReflect().SetUnknown(nu)
		}
		oe := orig[fdp.GetName()].GetBufExtension()
		f, err := bufimage.NewImageFile(fdp, nil, uuid.Nil, "", "", !oe.GetIsImport(), !oe.GetIsSyntaxUnspecified(), nil)
		if err != nil {
			rn.fail("api-strip/new-image-file-error", 0, "", nil, err.Error(), ci)
			return
		}
		files = append(files, f)
	}
	img, err := bufimage.NewImage(files)
	if err != nil {
		rn.fail("api-strip/new-image-error", 0, "", nil, err.Error(), ci)
		return
	}
	pimg, err := bufimage.ImageToProtoImage(img)
	if err != nil {
		rn.fail("api-strip/to-proto-error", 0, "", nil, err.Error(), ci)
		return
	}
	data, err := proto.Marshal(pimg)
	if err != nil {
		rn.fail("api-strip/marshal-error", 0, "", nil, err.Error(), ci)
		return
	}
	back, err := decodeRaw(data)
	if err != nil {
		rn.fail("api-strip/undecodable", 0, "", nil, err.Error(), ci)
		return
	}
	okAll := true
	for _, f := range back.GetFile() {
		oe := orig[f.GetName()].GetBufExtension()
		e := f.GetBufExtension()
		if e.GetIsImport() != !oe.GetIsImport() || e.GetIsSyntaxUnspecified() != !oe.GetIsSyntaxUnspecified() || e.HasModuleInfo() || len(e.GetUnusedDependency()) != 0 {
			okAll = false
			rn.fail("api-strip/metadata-from-unknown-fields", 0, "", nil,
				fmt.Sprintf("%s: image file created with is_import=%v is_syntax_unspecified=%v, no module, no unused deps reads back as {%v}: the stale buf extension in the unknown fields won",
					f.GetName(), !oe.GetIsImport(), !oe.GetIsSyntaxUnspecified(), e), ci)
		}
		fb, _ := proto.Marshal(f)
		n, rest, ok := count8042(fb)
		want := []byte(nil)
		if surround {
			want = append(append([]byte(nil), pre...), post...)
		}
		if !ok || n != 1 {
			okAll = false
			rn.fail("api-strip/extension-field-occurrences", 0, "", nil, fmt.Sprintf("%s: serialized image file has %d occurrences of field 8042, expected 1", f.GetName(), n), ci)
		}
		if !bytes.Equal(rest, want) {
			okAll = false
			rn.fail("api-strip/other-unknown-fields", 0, "", nil, fmt.Sprintf("%s: other unknown fields % x, expected % x", f.GetName(), rest, want), ci)
		}
	}
	if okAll {
		rn.count("api_strip_cases", 1)
		rn.r.Distinct(fmt.Sprintf("api|%s|%v", s.def.Name, surround))
	}
}
