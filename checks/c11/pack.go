package c11

import (
	"archive/tar"
	"archive/zip"
	"bytes"
	"compress/gzip"
	"fmt"
	"os"
	"path/filepath"
	"sort"
	"strings"

	imagev1 "github.com/bufbuild/buf/private/gen/proto/go/buf/alpha/image/v1"
	"github.com/klauspost/compress/zstd"
	"google.golang.org/protobuf/proto"
)

// Packagings of one tree, all produced here with the standard library (zstd: klauspost) from the same
// file map that was written to the directory.

func sortedPaths(files map[string]string) []string {
	var out []string
	for p := range files {
		out = append(out, p)
	}
	sort.Strings(out)
	return out
}

// Entry-name styles: an archive names its entries as the archiver wrote them, not in buf's normal form.
// Every style names the same tree.
//
//	clean       top/a/x.proto      (what storagearchive.Tar / zip -r write)
//	dotslash    ./top/a/x.proto    (`tar -cf x.tar ./top`, `tar -C dir -cf x.tar .`; with a "./" directory entry)
//	doubleslash top//a/x.proto     (`tar -cf x.tar top//a`, path joins with a trailing slash)
//	dotsegment  top/./a/x.proto    (`tar -cf x.tar top/./a`)
var entryStyles = []string{"dotslash", "doubleslash", "dotsegment"}

func styledName(style, name string) string {
	switch style {
	case "dotslash":
		return "./" + name
	case "doubleslash":
		return strings.Replace(name, "/", "//", 1)
	case "dotsegment":
		return strings.Replace(name, "/", "/./", 1)
	}
	return name
}

// styledTarBytes writes the tree below prefix with the given entry-name style, with directory entries
// first (as tar does), the root directory entry "./" included for the dotslash style.
func styledTarBytes(files map[string]string, prefix, style string) ([]byte, error) {
	var buf bytes.Buffer
	tw := tar.NewWriter(&buf)
	paths := sortedPaths(files)
	dirs := map[string]bool{}
	for _, p := range paths {
		parts := strings.Split(prefix+p, "/")
		for i := 1; i < len(parts); i++ {
			dirs[strings.Join(parts[:i], "/")+"/"] = true
		}
	}
	var ds []string
	for d := range dirs {
		ds = append(ds, d)
	}
	sort.Strings(ds)
	if style == "dotslash" {
		if err := tw.WriteHeader(&tar.Header{Typeflag: tar.TypeDir, Name: "./", Mode: 0o755}); err != nil {
			return nil, err
		}
	}
	for _, d := range ds {
		if err := tw.WriteHeader(&tar.Header{Typeflag: tar.TypeDir, Name: styledName(style, d), Mode: 0o755}); err != nil {
			return nil, err
		}
	}
	for _, p := range paths {
		if err := tw.WriteHeader(&tar.Header{Typeflag: tar.TypeReg, Name: styledName(style, prefix+p), Mode: 0o644, Size: int64(len(files[p]))}); err != nil {
			return nil, err
		}
		if _, err := tw.Write([]byte(files[p])); err != nil {
			return nil, err
		}
	}
	if err := tw.Close(); err != nil {
		return nil, err
	}
	return buf.Bytes(), nil
}

func styledZipBytes(files map[string]string, prefix, style string) ([]byte, error) {
	var buf bytes.Buffer
	zw := zip.NewWriter(&buf)
	for _, p := range sortedPaths(files) {
		w, err := zw.CreateHeader(&zip.FileHeader{Name: styledName(style, prefix+p), Method: zip.Deflate})
		if err != nil {
			return nil, err
		}
		if _, err := w.Write([]byte(files[p])); err != nil {
			return nil, err
		}
	}
	if err := zw.Close(); err != nil {
		return nil, err
	}
	return buf.Bytes(), nil
}

// stripPrefixes[n] is the wrapping directory that #strip_components=n has to remove.
var stripPrefixes = []string{"", "top/", "top/second/"}

func tarBytes(files map[string]string, prefix string, reverseWithDirs bool) ([]byte, error) {
	var buf bytes.Buffer
	tw := tar.NewWriter(&buf)
	paths := sortedPaths(files)
	if reverseWithDirs {
		dirs := map[string]bool{}
		for _, p := range paths {
			parts := strings.Split(prefix+p, "/")
			for i := 1; i < len(parts); i++ {
				dirs[strings.Join(parts[:i], "/")+"/"] = true
			}
		}
		var ds []string
		for d := range dirs {
			ds = append(ds, d)
		}
		sort.Strings(ds)
		for _, d := range ds {
			if err := tw.WriteHeader(&tar.Header{Typeflag: tar.TypeDir, Name: d, Mode: 0o755}); err != nil {
				return nil, err
			}
		}
		sort.Sort(sort.Reverse(sort.StringSlice(paths)))
	}
	for _, p := range paths {
		if err := tw.WriteHeader(&tar.Header{Typeflag: tar.TypeReg, Name: prefix + p, Mode: 0o644, Size: int64(len(files[p]))}); err != nil {
			return nil, err
		}
		if _, err := tw.Write([]byte(files[p])); err != nil {
			return nil, err
		}
	}
	if err := tw.Close(); err != nil {
		return nil, err
	}
	return buf.Bytes(), nil
}

func zipBytes(files map[string]string, prefix string, stored bool) ([]byte, error) {
	var buf bytes.Buffer
	zw := zip.NewWriter(&buf)
	for _, p := range sortedPaths(files) {
		method := zip.Deflate
		if stored {
			method = zip.Store
		}
		w, err := zw.CreateHeader(&zip.FileHeader{Name: prefix + p, Method: method})
		if err != nil {
			return nil, err
		}
		if _, err := w.Write([]byte(files[p])); err != nil {
			return nil, err
		}
	}
	if err := zw.Close(); err != nil {
		return nil, err
	}
	return buf.Bytes(), nil
}

func gzipBytes(b []byte) ([]byte, error) {
	var buf bytes.Buffer
	w := gzip.NewWriter(&buf)
	if _, err := w.Write(b); err != nil {
		return nil, err
	}
	if err := w.Close(); err != nil {
		return nil, err
	}
	return buf.Bytes(), nil
}

func zstdBytes(b []byte) ([]byte, error) {
	w, err := zstd.NewWriter(nil)
	if err != nil {
		return nil, err
	}
	defer w.Close()
	return w.EncodeAll(b, nil), nil
}

func (rn *runner) makePackagings(s *wsState) error {
	pk := filepath.Join(s.dir, "pk")
	files := s.def.Files
	t, err := tarBytes(files, "", false)
	if err != nil {
		return err
	}
	tgz, err := gzipBytes(t)
	if err != nil {
		return err
	}
	tzst, err := zstdBytes(t)
	if err != nil {
		return err
	}
	rev, err := tarBytes(files, "", true)
	if err != nil {
		return err
	}
	z, err := zipBytes(files, "", false)
	if err != nil {
		return err
	}
	zs, err := zipBytes(files, "", true)
	if err != nil {
		return err
	}
	wrapped, err := tarBytes(files, "top/", true)
	if err != nil {
		return err
	}
	wrappedGz, err := gzipBytes(wrapped)
	if err != nil {
		return err
	}
	wz, err := zipBytes(files, "top/", false)
	if err != nil {
		return err
	}
	// an archive with the tree below top/ and an unrelated, uncompilable tree next to it: only #subdir=top must be read
	withJunk := map[string]string{"zzz/junk.proto": "this is not a proto file\n"}
	for p, text := range files {
		withJunk["top/"+p] = text
	}
	sub, err := tarBytes(withJunk, "", false)
	if err != nil {
		return err
	}
	subZip, err := zipBytes(withJunk, "", false)
	if err != nil {
		return err
	}
	all := map[string][]byte{}
	// entry-name styles x wrapping depth (see entryStyles); clean names two levels deep; strip + subdir together
	for n, prefix := range stripPrefixes {
		for _, style := range entryStyles {
			st, err := styledTarBytes(files, prefix, style)
			if err != nil {
				return err
			}
			all[fmt.Sprintf("%s%d.tar", style, n)] = st
			if style == "dotslash" {
				if all[fmt.Sprintf("%s%d.tar.gz", style, n)], err = gzipBytes(st); err != nil {
					return err
				}
			}
			if all[fmt.Sprintf("%s%d.zip", style, n)], err = styledZipBytes(files, prefix, style); err != nil {
				return err
			}
		}
	}
	if all["clean2.tar"], err = tarBytes(files, "top/second/", false); err != nil {
		return err
	}
	if all["clean2.zip"], err = zipBytes(files, "top/second/", false); err != nil {
		return err
	}
	wrappedJunk := map[string]string{}
	for p, text := range withJunk {
		wrappedJunk["wrap/"+p] = text
	}
	if all["wrapsub.tar"], err = tarBytes(wrappedJunk, "", false); err != nil {
		return err
	}
	if all["wrapsub.zip"], err = zipBytes(wrappedJunk, "", false); err != nil {
		return err
	}
	wrapsubGz, err := gzipBytes(all["wrapsub.tar"])
	if err != nil {
		return err
	}
	all["wrapsub.tar.gz"] = wrapsubGz
	if all["dotslash-sub.tar"], err = styledTarBytes(withJunk, "", "dotslash"); err != nil {
		return err
	}
	if all["dotslash-wrapsub.tar"], err = styledTarBytes(wrappedJunk, "", "dotslash"); err != nil {
		return err
	}
	for name, data := range map[string][]byte{
		"ws.tar": t, "tar.dat": t, "ws.tar.gz": tgz, "ws.tgz": tgz, "targz.dat": tgz, "ws.tar.zst": tzst, "tarzst.dat": tzst,
		"rev.tar": rev, "ws.zip": z, "zip.dat": z, "stored.zip": zs, "wrapped.tar": wrapped, "wrapped.tar.gz": wrappedGz,
		"wrapped.zip": wz, "sub.tar": sub, "sub.zip": subZip,
	} {
		all[name] = data
	}
	for name, data := range all {
		if err := os.WriteFile(filepath.Join(pk, name), data, 0o644); err != nil {
			return err
		}
	}
	// a git repository with the contents of sub.tar (round 3)
	if err := makeGitRepo(filepath.Join(pk, "repo.git"), withJunk); err != nil {
		rn.r.Incomplete("workspace " + s.def.Name + ": no git input: " + err.Error())
	} else {
		s.gitOK = true
	}
	// another encoding of the image for the selection routes
	if res := rn.cli(s, "build", ".", "-o", "../out/o.yaml.gz"); res.ExitCode != 0 {
		return fmt.Errorf("build -o o.yaml.gz: %s", res.Stderr)
	}
	rn.r.Eval(1)
	return nil
}

type packaging struct {
	name string
	cwd  string // "" = src
	pre  [][]string
	ref  string
	mode string // exact | export
	// group/label/rank: packagings that vary one dimension (entry-name style x archive kind x strip count)
	// share one signature group, labelled with the simplest failing member (see runner.flush)
	group string
	label string
	rank  int
}

func (rn *runner) packagingItems(s *wsState) []func() {
	packs := []packaging{
		{name: "dir-absolute", ref: s.src},
		{name: "dir-from-parent", cwd: s.dir, ref: "src"},
		{name: "dir-explicit-format", ref: ".#format=dir"},
		{name: "tar", ref: "../pk/ws.tar"},
		{name: "tar-explicit-format", ref: "../pk/tar.dat#format=tar"},
		{name: "tar-compression-none", ref: "../pk/tar.dat#format=tar,compression=none"},
		{name: "tar-reversed-with-dir-entries", ref: "../pk/rev.tar"},
		{name: "tar.gz", ref: "../pk/ws.tar.gz"},
		{name: "tgz", ref: "../pk/ws.tgz"},
		{name: "tar-gzip-explicit", ref: "../pk/targz.dat#format=tar,compression=gzip"},
		{name: "targz-deprecated-format", ref: "../pk/targz.dat#format=targz"},
		{name: "tar.zst", ref: "../pk/ws.tar.zst"},
		{name: "tar-zstd-explicit", ref: "../pk/tarzst.dat#format=tar,compression=zstd"},
		{name: "zip", ref: "../pk/ws.zip"},
		{name: "zip-explicit-format", ref: "../pk/zip.dat#format=zip"},
		{name: "zip-stored", ref: "../pk/stored.zip"},
		{name: "tar-strip-components", ref: "../pk/wrapped.tar#strip_components=1"},
		{name: "tar.gz-strip-components", ref: "../pk/wrapped.tar.gz#strip_components=1"},
		{name: "zip-strip-components", ref: "../pk/wrapped.zip#strip_components=1"},
		{name: "tar-subdir", ref: "../pk/sub.tar#subdir=top"},
		{name: "zip-subdir", ref: "../pk/sub.zip#subdir=top"},
		{name: "export", pre: [][]string{{"export", ".", "-o", "../pk/exp"}}, ref: "../pk/exp", mode: "export"},
		{name: "export-exclude-imports", pre: [][]string{{"export", ".", "--exclude-imports", "-o", "../pk/expni"}}, ref: "../pk/expni", mode: "export"},
		{name: "export-of-tar", pre: [][]string{{"export", "../pk/ws.tar", "-o", "../pk/exptar"}}, ref: "../pk/exptar", mode: "export"},
		{name: "export-of-image", pre: [][]string{{"export", "../out/o.binpb", "-o", "../pk/expimg"}}, ref: "../pk/expimg", mode: "export-of-image"},
	}
	packs = append(packs,
		packaging{name: "tar-strip-components-2", ref: "../pk/clean2.tar#strip_components=2"},
		packaging{name: "zip-strip-components-2", ref: "../pk/clean2.zip#strip_components=2"},
		packaging{name: "tar-strip-components-and-subdir", ref: "../pk/wrapsub.tar#strip_components=1,subdir=top"},
		packaging{name: "zip-strip-components-and-subdir", ref: "../pk/wrapsub.zip#subdir=top,strip_components=1"},
	)
	if s.gitOK {
		packs = append(packs,
			packaging{name: "git-subdir", ref: "../pk/repo.git#subdir=top"},
			packaging{name: "git-branch-subdir", ref: "../pk/repo.git#branch=main,subdir=top"},
		)
	}
	packs = append(packs,
		packaging{name: "tar-subdir-two-levels", ref: "../pk/clean2.tar#subdir=top/second"},
		packaging{name: "zip-subdir-spelled-dotslash", ref: "../pk/sub.zip#subdir=./top"},
		packaging{name: "tar.gz-subdir-dot", ref: "../pk/ws.tar.gz#subdir=."},
	)
	// archives whose entry names are not in normal form: style x {tar, tar.gz (dotslash), zip} x strip_components 0..2,
	// and the dotslash style with subdir / strip+subdir
	rank := 1
	addStyled := func(kind, style, opts, ref string) {
		label := kind + "/" + style
		if opts != "" {
			label += "/" + opts
		}
		packs = append(packs, packaging{name: "entry-names:" + label, ref: ref, group: "packaging/unnormalized-entry-names", label: label, rank: rank})
		rank++
	}
	for n := range stripPrefixes {
		opts, frag := "", ""
		if n > 0 {
			opts = fmt.Sprintf("strip%d", n)
			frag = fmt.Sprintf("#strip_components=%d", n)
		}
		for _, style := range entryStyles {
			addStyled("tar", style, opts, fmt.Sprintf("../pk/%s%d.tar%s", style, n, frag))
			if style == "dotslash" {
				addStyled("tar.gz", style, opts, fmt.Sprintf("../pk/%s%d.tar.gz%s", style, n, frag))
			}
			addStyled("zip", style, opts, fmt.Sprintf("../pk/%s%d.zip%s", style, n, frag))
		}
	}
	addStyled("tar", "dotslash", "subdir", "../pk/dotslash-sub.tar#subdir=top")
	addStyled("tar", "dotslash", "strip1+subdir", "../pk/dotslash-wrapsub.tar#strip_components=1,subdir=top")
	var items []func()
	for _, p := range packs {
		items = append(items, func() { rn.packagingCase(s, p) })
	}
	return items
}

func (rn *runner) packagingCase(s *wsState, p packaging) {
	rn.r.Eval(1)
	cwd := s.src
	if p.cwd != "" {
		cwd = p.cwd
	}
	ci := caseInfo{Part: "packaging", Workspace: s.def.Name, Files: s.def.Files, Detail: p.name}
	group := "packaging/" + p.name
	if p.group != "" {
		group = p.group
	}
	for _, pre := range p.pre {
		ci.Commands = append(ci.Commands, pre)
		res := rn.pool.run(cwd, pre...)
		if res.ExitCode != 0 {
			if p.mode == "export-of-image" {
				// `buf export` documents source/module inputs only; an image input being rejected is not a difference
				rn.count("pack_export_of_image_rejected", 1)
				return
			}
			ci.Stderr = res.Stderr
			rn.fail(group+"/prepare-exit", p.rank, p.label, nil, fmt.Sprintf("`buf %s` exits %d: %s", strings.Join(pre, " "), res.ExitCode, clip(res.Stderr, 400)), ci)
			return
		}
	}
	args := []string{"build", p.ref, "-o", "-#format=binpb"}
	ci.Commands = append(ci.Commands, args)
	res := rn.pool.run(cwd, args...)
	if res.ExitCode != 0 {
		ci.Stderr = res.Stderr
		rn.fail(group+"/exit", p.rank, p.label, nil, fmt.Sprintf("`buf %s` exits %d: %s", strings.Join(args, " "), res.ExitCode, clip(res.Stderr, 400)), ci)
		return
	}
	got, err := decodeWith([]byte(res.Stdout), s.res)
	if err != nil {
		rn.fail(group+"/undecodable", p.rank, p.label, nil, err.Error(), ci)
		return
	}
	want := s.o
	if strings.HasPrefix(p.mode, "export") {
		// the exported tree has no buf.yaml: no module names
		want = proto.Clone(s.o).(*imagev1.Image)
		for _, f := range want.GetFile() {
			if e := f.GetBufExtension(); e != nil {
				e.ClearModuleInfo()
			}
		}
	}
	kinds, detail := diffImages(want, got, !strings.HasPrefix(p.mode, "export") || len(s.def.Modules) == 1)
	for _, k := range kinds {
		ci.Detail = p.name + ": " + detail
		rn.fail(group+"/"+k, p.rank, p.label, nil, fmt.Sprintf("packaging %s builds a different image than the directory: %s", p.name, detail), ci)
	}
	if len(kinds) == 0 {
		rn.count("pack_equal", 1)
		if p.group != "" {
			rn.count("pack_equal_unnormalized_entry_names", 1)
		} else {
			rn.count("pack_equal_"+p.name, 1)
		}
		if p.mode == "export" && s.def.Note == "vendored-wkt" {
			rn.count("pack_export_equal_with_vendored_wkt", 1)
		}
		rn.r.Distinct("pk|" + s.def.Name + "|" + p.name)
	}
}
