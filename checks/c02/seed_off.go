//go:build !mapseed

package c02

func setMapSeed(seed uint64, on bool) {}

func mapSeedAvailable() bool { return false }
