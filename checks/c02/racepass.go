package c02

import (
	"context"
	"fmt"
	"os"
	"os/exec"
	"path/filepath"
	"regexp"
	"sort"
	"strings"
	"sync"

	"github.com/bufbuild/buf/private/pkg/thread"
	"github.com/bufbuild/bufverif/internal/bufx"
	"github.com/bufbuild/bufverif/internal/evid"
)

// manyFilesSelfBreaking: breaking of a module of 40 small files against itself. With parallelism 2..4 the
// conversion of the image files to the checker's view takes its chunked, parallel path.
func manyFilesSelfBreaking(ctx context.Context, e *Env) ([]byte, error) {
	files := map[string]string{}
	for i := 0; i < 40; i++ {
		files[fmt.Sprintf("p%02d/f%02d.proto", i%5, i)] = fmt.Sprintf("syntax = \"proto3\";\npackage p%02d;\nmessage M%02d { int32 a = 1; string b = 2; }\nenum E%02d { E%02d_UNSPECIFIED = 0; E%02d_ONE = 1; }\n", i%5, i, i, i, i)
	}
	img, err := bufx.BuildImage(ctx, files)
	if err != nil {
		return nil, err
	}
	img2, err := bufx.BuildImage(ctx, files)
	if err != nil {
		return nil, err
	}
	y, err := bufx.ReadBufYAML("version: v2\nbreaking:\n  use:\n    - FILE\n    - WIRE_JSON\n")
	if err != nil {
		return nil, err
	}
	anns, err := bufx.Breaking(ctx, y.ModuleConfigs()[0].BreakingConfig(), img, img2)
	if err != nil {
		return nil, err
	}
	return annotationText(anns), nil
}

// RunFreeRunning executes every API scenario (and the many-files self-comparison) without any handler on the
// parallel sections, two at a time, at parallelism 2, 3 and 4. Used by cmd/racepass2 under the race detector.
func RunFreeRunning() (int, []string) {
	ctx := context.Background()
	scs := append(apiScenarios(), lintWithPluginsScenario(), Scenario{Name: "breaking of 40 files against themselves", Variants: 1, Run: manyFilesSelfBreaking})
	n := 0
	var errs []string
	var mu sync.Mutex
	prev := thread.Parallelism()
	defer thread.SetParallelism(prev)
	for _, p := range []int{2, 3, 4} {
		thread.SetParallelism(p)
		for _, sc := range scs {
			var wg sync.WaitGroup
			for k := 0; k < 2; k++ {
				wg.Add(1)
				go func() {
					defer wg.Done()
					_, err := sc.Run(ctx, &Env{})
					mu.Lock()
					n++
					if err != nil {
						errs = append(errs, sc.Name+": "+err.Error())
					}
					mu.Unlock()
				}()
			}
			wg.Wait()
		}
	}
	return n, errs
}

var raceFrame = regexp.MustCompile(`(?m)^\s+(github\.com/bufbuild/buf/private/[^\s(]+)\(`)

// racePass (thorough tier) builds cmd/racepass2 with -race and runs it. A data race between goroutines of buf's
// own code is an interleaving-dependence of the kind the property rules out; a report whose racing accesses are
// both outside buf's packages (a dependency, the harness) is recorded only.
func racePass(r *evid.Run) {
	if r.Quick() {
		return
	}
	src := evid.SourceRoot()
	bin := filepath.Join(src, "bin", "racepass2")
	build := exec.Command("go", "build", "-race", "-tags", "verif", "-o", bin, "./cmd/racepass2")
	build.Dir = src
	build.Env = append(os.Environ(), "CGO_ENABLED=1")
	if out, err := build.CombinedOutput(); err != nil {
		r.Set("race_pass", "not run: build with -race failed: "+strings.SplitN(strings.TrimSpace(string(out)), "\n", 2)[0])
		return
	}
	logDir, err := os.MkdirTemp("", "verif-c02-race-")
	if err != nil {
		r.Set("race_pass", "not run: "+err.Error())
		return
	}
	defer os.RemoveAll(logDir)
	run := exec.Command(bin)
	run.Env = append(os.Environ(), "GORACE=halt_on_error=0 log_path="+filepath.Join(logDir, "race"))
	out, err := run.CombinedOutput()
	reports := ""
	files, _ := filepath.Glob(filepath.Join(logDir, "race*"))
	for _, f := range files {
		data, _ := os.ReadFile(f)
		reports += string(data)
	}
	blocks := strings.Split(reports, "WARNING: DATA RACE")
	inBuf := map[string]string{}
	other := 0
	for _, b := range blocks[1:] {
		frames := raceFrame.FindAllStringSubmatch(b, -1)
		if len(frames) == 0 {
			other++
			continue
		}
		// the innermost buf frame of the first access
		key := frames[0][1]
		if i := strings.LastIndex(key, "/"); i >= 0 {
			key = key[i+1:]
		}
		if _, ok := inBuf[key]; !ok {
			lines := strings.Split(strings.TrimSpace(b), "\n")
			if len(lines) > 14 {
				lines = lines[:14]
			}
			inBuf[key] = strings.Join(lines, "\n")
		}
	}
	var keys []string
	for k := range inBuf {
		keys = append(keys, k)
	}
	sort.Strings(keys)
	for _, k := range keys {
		r.Violate("data-race/"+k, "the race detector reports unsynchronised accesses between goroutines of buf's own code (free-running run of the C02 scenarios at parallelism 2-4):\nWARNING: DATA RACE\n"+inBuf[k], map[string]string{"function": k})
	}
	r.Set("race_pass_reports_in_buf_code", len(keys))
	r.Set("race_pass_reports_elsewhere", other)
	if err != nil && len(keys) == 0 {
		r.Set("race_pass", fmt.Sprintf("not conclusive: %v %s", err, strings.SplitN(strings.TrimSpace(string(out)), "\n", 2)[0]))
		return
	}
	r.Set("race_pass", strings.TrimSpace(string(out)))
}
