//go:build mapseed

package c02

import "runtime"

// setMapSeed uses the runtime overlay (overlay/mapseed.json) that adds runtime.VerifSetMapSeed.
func setMapSeed(seed uint64, on bool) { runtime.VerifSetMapSeed(seed, on) }

func mapSeedAvailable() bool { return true }
