package c02

import (
	"context"
	"fmt"

	"buf.build/go/bufplugin/check"
	"buf.build/go/bufplugin/check/checkutil"
	"github.com/bufbuild/buf/private/bufpkg/bufcheck"
	"github.com/bufbuild/buf/private/bufpkg/bufconfig"
	"github.com/bufbuild/bufverif/internal/bufx"
	"google.golang.org/protobuf/reflect/protoreflect"
	"pluginrpc.com/pluginrpc"
)

// Two in-process check plugins (served through a custom RunnerProvider) so that
// multiClient.Check really has three jobs: the built-in rules and two plugins.

func pluginSpec(name string) *check.Spec {
	switch name {
	case "verif-plugin-messages":
		return &check.Spec{Rules: []*check.RuleSpec{{
			ID: "VERIF_MESSAGE_SEEN", Default: true, Purpose: "Reports every message (harness plugin).", Type: check.RuleTypeLint,
			Handler: checkutil.NewMessageRuleHandler(func(_ context.Context, w check.ResponseWriter, _ check.Request, m protoreflect.MessageDescriptor) error {
				w.AddAnnotation(check.WithDescriptor(m), check.WithMessagef("message %s seen", m.FullName()))
				return nil
			}),
		}}}
	default:
		return &check.Spec{Rules: []*check.RuleSpec{{
			ID: "VERIF_FIELD_SEEN", Default: true, Purpose: "Reports every field (harness plugin).", Type: check.RuleTypeLint,
			Handler: checkutil.NewFieldRuleHandler(func(_ context.Context, w check.ResponseWriter, _ check.Request, f protoreflect.FieldDescriptor) error {
				w.AddAnnotation(check.WithDescriptor(f), check.WithMessagef("field %s seen", f.FullName()))
				return nil
			}),
		}}}
	}
}

func pluginClient() (bufcheck.Client, error) {
	return bufcheck.NewClient(bufx.Logger, bufcheck.RunnerProviderFunc(func(pc bufconfig.PluginConfig) (pluginrpc.Runner, error) {
		server, err := check.NewServer(pluginSpec(pc.Name()))
		if err != nil {
			return nil, err
		}
		return pluginrpc.NewServerRunner(server), nil
	}))
}

func lintWithPluginsScenario() Scenario {
	return Scenario{Name: "lint+2 plugins", Variants: 2, Walks: false, Run: func(ctx context.Context, e *Env) ([]byte, error) {
		files := workspace(0, false)
		img, err := buildImage(ctx, &Env{}, false)
		if err != nil {
			return nil, err
		}
		_ = files
		y, err := bufx.ReadBufYAML("version: v2\nlint:\n  use:\n    - STANDARD\n    - VERIF_FIELD_SEEN\n    - COMMENTS\n    - VERIF_MESSAGE_SEEN\n")
		if err != nil {
			return nil, err
		}
		client, err := pluginClient()
		if err != nil {
			return nil, err
		}
		names := []string{"verif-plugin-messages", "verif-plugin-fields"}
		if e.Variant == 1 {
			names[0], names[1] = names[1], names[0]
		}
		var pcs []bufconfig.PluginConfig
		for _, n := range names {
			pc, err := bufconfig.NewLocalPluginConfig(n, nil, []string{n})
			if err != nil {
				return nil, err
			}
			pcs = append(pcs, pc)
		}
		lerr := client.Lint(ctx, y.ModuleConfigs()[0].LintConfig(), img, bufcheck.WithPluginConfigs(pcs...))
		anns, ok := bufx.Annotations(lerr)
		if !ok {
			return nil, lerr
		}
		seen := map[string]int{}
		for _, a := range anns {
			seen[a.Type]++
		}
		if seen["VERIF_MESSAGE_SEEN"] == 0 || seen["VERIF_FIELD_SEEN"] == 0 || len(seen) < 4 {
			return nil, fmt.Errorf("vacuous plugin scenario: %v", seen)
		}
		return annotationText(anns), nil
	}}
}
