package c02

import (
	"context"
	"fmt"
	"strings"

	"buf.build/go/bufplugin/check"
	"buf.build/go/bufplugin/check/checkutil"
	"buf.build/go/bufplugin/descriptor"
	"github.com/bufbuild/buf/private/bufpkg/bufcheck"
	"github.com/bufbuild/buf/private/bufpkg/bufconfig"
	"github.com/bufbuild/bufverif/internal/bufx"
	"google.golang.org/protobuf/reflect/protoreflect"
	"pluginrpc.com/pluginrpc"
)

// Two in-process check plugins (served through a custom RunnerProvider) so that
// multiClient.Check really has three jobs: the built-in rules and two plugins.

func pluginSpec(name string) *check.Spec {
	switch name {
	case "verif-plugin-messages":
		return &check.Spec{Rules: []*check.RuleSpec{{
			ID: "VERIF_MESSAGE_SEEN", Default: true, Purpose: "Reports every message (harness plugin).", Type: check.RuleTypeLint,
			Handler: checkutil.NewMessageRuleHandler(func(_ context.Context, w check.ResponseWriter, _ check.Request, m protoreflect.MessageDescriptor) error {
				w.AddAnnotation(check.WithDescriptor(m), check.WithMessagef("message %s seen", m.FullName()))
				return nil
			}),
		}}}
	default:
		return &check.Spec{Rules: []*check.RuleSpec{{
			ID: "VERIF_FIELD_SEEN", Default: true, Purpose: "Reports every field (harness plugin).", Type: check.RuleTypeLint,
			Handler: checkutil.NewFieldRuleHandler(func(_ context.Context, w check.ResponseWriter, _ check.Request, f protoreflect.FieldDescriptor) error {
				w.AddAnnotation(check.WithDescriptor(f), check.WithMessagef("field %s seen", f.FullName()))
				return nil
			}),
		}}}
	}
}

func pluginClient() (bufcheck.Client, error) {
	return bufcheck.NewClient(bufx.Logger, bufcheck.RunnerProviderFunc(func(pc bufconfig.PluginConfig) (pluginrpc.Runner, error) {
		server, err := check.NewServer(pluginSpec(pc.Name()))
		if err != nil {
			return nil, err
		}
		return pluginrpc.NewServerRunner(server), nil
	}))
}

func lintWithPluginsScenario() Scenario {
	return Scenario{Name: "lint+2 plugins", Variants: 2, Walks: false, Run: func(ctx context.Context, e *Env) ([]byte, error) {
		files := workspace(0, false)
		img, err := buildImage(ctx, &Env{}, false)
		if err != nil {
			return nil, err
		}
		_ = files
		y, err := bufx.ReadBufYAML("version: v2\nlint:\n  use:\n    - STANDARD\n    - VERIF_FIELD_SEEN\n    - COMMENTS\n    - VERIF_MESSAGE_SEEN\n")
		if err != nil {
			return nil, err
		}
		client, err := pluginClient()
		if err != nil {
			return nil, err
		}
		names := []string{"verif-plugin-messages", "verif-plugin-fields"}
		if e.Variant == 1 {
			names[0], names[1] = names[1], names[0]
		}
		var pcs []bufconfig.PluginConfig
		for _, n := range names {
			pc, err := bufconfig.NewLocalPluginConfig(n, nil, []string{n})
			if err != nil {
				return nil, err
			}
			pcs = append(pcs, pc)
		}
		lerr := client.Lint(ctx, y.ModuleConfigs()[0].LintConfig(), img, bufcheck.WithPluginConfigs(pcs...))
		anns, ok := bufx.Annotations(lerr)
		if !ok {
			return nil, lerr
		}
		seen := map[string]int{}
		for _, a := range anns {
			seen[a.Type]++
		}
		if seen["VERIF_MESSAGE_SEEN"] == 0 || seen["VERIF_FIELD_SEEN"] == 0 || len(seen) < 4 {
			return nil, fmt.Errorf("vacuous plugin scenario: %v", seen)
		}
		return annotationText(anns), nil
	}}
}

// failingPluginSpec: a plugin whose only rule fails (an operational plugin failure, not an annotation).
func failingPluginSpec() *check.Spec {
	return &check.Spec{Rules: []*check.RuleSpec{{
		ID: "VERIF_ALWAYS_FAILS", Default: true, Purpose: "Fails on every file (harness plugin).", Type: check.RuleTypeLint,
		Handler: checkutil.NewFileRuleHandler(func(_ context.Context, _ check.ResponseWriter, _ check.Request, f descriptor.FileDescriptor) error {
			// the same text for every file: which file the plugin library visits first is not buf's business
			_ = f
			return fmt.Errorf("verif plugin refuses to work")
		}),
	}}}
}

// lintWithFailingPluginScenario: built-in rules, one healthy plugin and one plugin that fails. The error text that
// `buf lint` prints must not depend on which of the three check jobs ran or finished first, nor on the order in
// which the plugins are listed... the listing order of plugins is an input that the error text may mention, so
// only the job order (and the other perturbations) are varied here.
func lintWithFailingPluginScenario() Scenario {
	return Scenario{Name: "lint+healthy plugin+failing plugin (error text)", Variants: 1, Walks: false, Run: func(ctx context.Context, e *Env) ([]byte, error) {
		img, err := buildImage(ctx, &Env{}, false)
		if err != nil {
			return nil, err
		}
		y, err := bufx.ReadBufYAML("version: v2\nlint:\n  use:\n    - STANDARD\n    - VERIF_FIELD_SEEN\n    - VERIF_ALWAYS_FAILS\n")
		if err != nil {
			return nil, err
		}
		client, err := bufcheck.NewClient(bufx.Logger, bufcheck.RunnerProviderFunc(func(pc bufconfig.PluginConfig) (pluginrpc.Runner, error) {
			spec := pluginSpec(pc.Name())
			if pc.Name() == "verif-plugin-fails" {
				spec = failingPluginSpec()
			}
			server, err := check.NewServer(spec)
			if err != nil {
				return nil, err
			}
			return pluginrpc.NewServerRunner(server), nil
		}))
		if err != nil {
			return nil, err
		}
		var pcs []bufconfig.PluginConfig
		for _, n := range []string{"verif-plugin-fields", "verif-plugin-fails"} {
			pc, err := bufconfig.NewLocalPluginConfig(n, nil, []string{n})
			if err != nil {
				return nil, err
			}
			pcs = append(pcs, pc)
		}
		lerr := client.Lint(ctx, y.ModuleConfigs()[0].LintConfig(), img, bufcheck.WithPluginConfigs(pcs...))
		if lerr == nil {
			return nil, fmt.Errorf("vacuous: lint with a failing plugin succeeded")
		}
		if _, ok := bufx.Annotations(lerr); ok {
			return nil, fmt.Errorf("vacuous: the failing plugin produced annotations instead of an error")
		}
		if !strings.Contains(lerr.Error(), "verif-plugin-fails") {
			return nil, fmt.Errorf("vacuous: error does not name the failing plugin: %v", lerr)
		}
		return []byte(lerr.Error()), nil
	}}
}
