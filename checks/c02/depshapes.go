package c02

import (
	"context"
	"fmt"
	"sort"
	"strings"

	"github.com/bufbuild/buf/private/bufpkg/bufmodule"
	"github.com/bufbuild/bufverif/internal/bufx"
	"github.com/bufbuild/bufverif/internal/enum"
)

// depShapesScenario: dependency graph, direct flags and b5 digests of a workspace in which one module reaches the
// same dependency both directly and through another module (from different files), and has three dependencies.
// Inputs that must not matter: the order in which the modules are listed in buf.yaml, the DIRECTORY each module
// lives in (the harness identifies modules by their content; for unnamed modules the directory decides the order in which buf enumerates them),
// and the order in which storage enumerates the files. Output: per module name, the digest and the dependency
// names with their direct flags, plus the edges of the module graph by name.
func depShapesScenario(ctx context.Context, e *Env) ([]byte, error) {
	type mod struct {
		name  string
		files map[string]string
	}
	mods := []mod{
		{"app", map[string]string{
			"app/first.proto":  "syntax = \"proto3\";\npackage app;\nimport \"b/b.proto\";\nmessage First { b.B b = 1; }\n",
			"app/second.proto": "syntax = \"proto3\";\npackage app;\nimport \"c/c.proto\";\nmessage Second { c.C c = 1; }\n",
			"app/third.proto":  "syntax = \"proto3\";\npackage app;\nimport \"d/d.proto\";\nmessage Third { d.D d = 1; }\n",
			"app/zeroth.proto": "syntax = \"proto3\";\npackage app;\nmessage Zeroth {}\n",
		}},
		{"b", map[string]string{"b/b.proto": "syntax = \"proto3\";\npackage b;\nimport \"c/c.proto\";\nmessage B { c.C c = 1; }\n"}},
		{"c", map[string]string{"c/c.proto": "syntax = \"proto3\";\npackage c;\nmessage C {}\n"}},
		{"d", map[string]string{"d/d.proto": "syntax = \"proto3\";\npackage d;\nimport \"c/c.proto\";\nmessage D { c.C c = 1; }\n"}},
	}
	// variant = (listing order reversed?, permutation of the directories of b, c, d)
	perms := enum.Permutations(3)
	perm := perms[(e.Variant/2)%len(perms)]
	dirs := []string{"m1", "m2", "m3"}
	dirOf := map[string]string{"app": "m0", "b": dirs[perm[0]], "c": dirs[perm[1]], "d": dirs[perm[2]]}
	files := map[string]string{}
	var entries []string
	for _, m := range mods {
		if m.name == "app" {
			entries = append(entries, fmt.Sprintf("  - path: %s\n    name: buf.build/acme/%s\n", dirOf[m.name], m.name))
		} else {
			// unnamed: buf identifies (and orders) the module by its directory
			entries = append(entries, fmt.Sprintf("  - path: %s\n", dirOf[m.name]))
		}
		for p, c := range m.files {
			files[dirOf[m.name]+"/"+p] = c
		}
	}
	if e.Variant%2 == 1 {
		for i, j := 0, len(entries)-1; i < j; i, j = i+1, j-1 {
			entries[i], entries[j] = entries[j], entries[i]
		}
	}
	files["buf.yaml"] = "version: v2\nmodules:\n" + strings.Join(entries, "")
	ws, err := bufx.Workspace(ctx, e.bucket(files), ".", nil, nil, bufx.NopProviders)
	if err != nil {
		return nil, err
	}
	byDir := map[string]string{}
	for n, d := range dirOf {
		byDir[d] = n
	}
	nameOf := func(m bufmodule.Module) string {
		if fn := m.FullName(); fn != nil {
			return fn.Name()
		}
		if n, ok := byDir[m.OpaqueID()]; ok {
			return n
		}
		return "?" + m.OpaqueID()
	}
	var lines []string
	for _, m := range ws.Modules() {
		d, err := m.Digest(bufmodule.DigestTypeB5)
		if err != nil {
			return nil, err
		}
		deps, err := m.ModuleDeps()
		if err != nil {
			return nil, err
		}
		var ds []string
		for _, dep := range deps {
			ds = append(ds, fmt.Sprintf("%s(direct=%v)", nameOf(dep), dep.IsDirect()))
		}
		sort.Strings(ds)
		lines = append(lines, fmt.Sprintf("%s %s deps=%v", nameOf(m), d, ds))
	}
	sort.Strings(lines)
	graph, err := bufmodule.ModuleSetToDAG(ws)
	if err != nil {
		return nil, err
	}
	var edges []string
	if err := graph.WalkEdges(func(from, to bufmodule.Module) error {
		edges = append(edges, nameOf(from)+" -> "+nameOf(to))
		return nil
	}); err != nil {
		return nil, err
	}
	sort.Strings(edges)
	return []byte(strings.Join(lines, "\n") + "\n" + strings.Join(edges, "\n") + "\n"), nil
}
