// Package c02 is the check for property C02 (see DESIGN.md section 3).
package c02
