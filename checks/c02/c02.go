// Package c02: outputs are deterministic and independent of scheduling and enumeration order.
//
// Eight scenario functions (build bytes, lint text, breaking text, format + diff, file listing,
// dependency graph, digests, type filter) are executed under every point of a set of owned
// nondeterminism dimensions, and the output bytes must equal the baseline execution's:
//   - every execution order of the jobs of every thread.Parallelize call (joborder handler),
//   - every permutation of storage Walk enumeration (wrapper bucket),
//   - every Go map iteration start (runtime overlay: seeds 0..63 rotate every map),
//   - the parallelism grid GOMAXPROCS x thread.SetParallelism,
//   - permutations of listed modules / rule ids / dependency pins / paths.
package c02

import (
	"bytes"
	"context"
	"encoding/json"
	"fmt"
	"os"
	"os/exec"
	"path/filepath"
	"regexp"
	"runtime"
	"sort"
	"strings"
	"sync"
	"time"

	"github.com/bufbuild/buf/private/buf/bufformat"
	"github.com/bufbuild/buf/private/bufpkg/bufcheck"
	"github.com/bufbuild/buf/private/bufpkg/bufimage"
	"github.com/bufbuild/buf/private/bufpkg/bufimage/bufimageutil"
	"github.com/bufbuild/buf/private/bufpkg/bufmodule"
	"github.com/bufbuild/buf/private/bufpkg/bufmodule/bufmodulecache"
	"github.com/bufbuild/buf/private/bufpkg/bufmodule/bufmodulestore"
	"github.com/bufbuild/buf/private/bufpkg/bufmodule/bufmoduletesting"
	"github.com/bufbuild/buf/private/bufpkg/bufparse"
	"github.com/bufbuild/buf/private/pkg/protoencoding"
	"github.com/bufbuild/buf/private/pkg/storage"
	"github.com/bufbuild/buf/private/pkg/storage/storagemem"
	"github.com/bufbuild/buf/private/pkg/thread"
	"github.com/bufbuild/buf/private/pkg/uuidutil"
	"github.com/bufbuild/bufverif/internal/bufx"
	"github.com/bufbuild/bufverif/internal/enum"
	"github.com/bufbuild/bufverif/internal/evid"
	"github.com/bufbuild/bufverif/internal/hook"
	"github.com/bufbuild/bufverif/internal/joborder"
	"github.com/google/uuid"
)

func init() {
	evid.Register(&evid.Check{ID: "C02", Level: "exploration", Run: run, QuickBudget: 300 * time.Second, ThoroughBudget: 20 * time.Minute})
	evid.RegisterWorker("c02", worker)
}

// ---- fixtures ----

func filler(n int) map[string]string {
	out := map[string]string{}
	for i := 1; i <= n; i++ {
		out[fmt.Sprintf("proto/fill/v1/f%02d.proto", i)] = fmt.Sprintf("syntax = \"proto3\";\npackage fill.v1;\nmessage fill_%02d { string BadField = 1; }\n", i)
	}
	return out
}

// workspace returns the main v2 workspace. variant permutes the listing order of modules and rule ids.
func workspace(variant int, edited bool) map[string]string {
	mods := []string{"  - path: proto\n    name: buf.build/acme/main\n", "  - path: vendor\n    name: buf.build/acme/ext\n"}
	lintUse := []string{"STANDARD", "COMMENTS", "RPC_NO_CLIENT_STREAMING"}
	breakingUse := []string{"FILE", "WIRE_JSON"}
	if variant&1 != 0 {
		mods[0], mods[1] = mods[1], mods[0]
	}
	if variant&2 != 0 {
		lintUse = []string{"RPC_NO_CLIENT_STREAMING", "COMMENTS", "STANDARD"}
		breakingUse = []string{"WIRE_JSON", "FILE"}
	}
	yaml := "version: v2\nmodules:\n" + strings.Join(mods, "") + "lint:\n  use:\n"
	for _, u := range lintUse {
		yaml += "    - " + u + "\n"
	}
	yaml += "breaking:\n  use:\n"
	for _, u := range breakingUse {
		yaml += "    - " + u + "\n"
	}
	files := map[string]string{
		"buf.yaml": yaml,
		"proto/acme/v1/a.proto": `syntax = "proto3";
package acme.v1;
import "acme/v1/c.proto";
import "acme/v1/b.proto";
import "ext/opt.proto";
// a_msg has a lower-case name.
message a_msg {
  option (ext.mopt) = "x";
  B b = 1;
  C c = 2;
  string BadName = 3 [(ext.fopt) = 7];
  map<string, B> m = 4;
}
enum bad_enum { zero = 0; one = 1; }
service svc { rpc Do(B) returns (C); rpc Stream(stream B) returns (C); }
`,
		"proto/acme/v1/b.proto":    "syntax = \"proto3\";\npackage acme.v1;\nmessage B { int32 x = 1; string y = 2; }\n",
		"proto/acme/v1/c.proto":    "syntax = \"proto3\";\npackage acme.v1;\nmessage C { oneof o { int32 a = 1; string s = 2; } }\n",
		"proto/acme/v2/pub.proto":  "syntax = \"proto3\";\npackage acme.v2;\nimport public \"acme/v1/c.proto\";\nimport public \"acme/v1/b.proto\";\n",
		"proto/acme/v2/main.proto": "syntax = \"proto3\";\npackage acme.v2;\nimport \"acme/v2/pub.proto\";\nmessage Main { acme.v1.B b = 1; acme.v1.C c = 2; Other o = 3; }\nmessage Other { int64 v = 1; }\n",
		"vendor/ext/opt.proto": `syntax = "proto2";
package ext;
import "google/protobuf/descriptor.proto";
extend google.protobuf.MessageOptions { optional string mopt = 50001; }
extend google.protobuf.FieldOptions { optional int32 fopt = 50002; }
message Ext { extensions 100 to 200; }
extend Ext { optional int32 e1 = 100; optional string e2 = 101; }
`,
	}
	for p, c := range filler(12) {
		files[p] = c
	}
	if edited {
		// the older version for breaking: things that the current version "removed" or "changed"
		files["proto/acme/v1/b.proto"] = "syntax = \"proto3\";\npackage acme.v1;\nmessage B { int64 x = 1; string y = 2; bool gone = 3; }\nmessage Removed {}\n"
		files["proto/acme/v1/c.proto"] = "syntax = \"proto3\";\npackage acme.v1;\nmessage C { oneof o { int32 a = 1; string s = 2; } int32 z = 9; }\nenum GoneEnum { GONE_ENUM_UNSPECIFIED = 0; }\n"
		files["proto/acme/v2/main.proto"] = "syntax = \"proto3\";\npackage acme.v2;\nimport \"acme/v2/pub.proto\";\nmessage Main { acme.v1.B b = 1; acme.v1.C c = 2; Other o = 3; string dropped = 4; }\nmessage Other { int32 v = 1; }\n"
		files["proto/fill/v1/f03.proto"] = "syntax = \"proto3\";\npackage fill.v1;\nmessage fill_03 { string BadField = 1; int32 was_here = 2; }\n"
		files["proto/fill/v1/f09.proto"] = "syntax = \"proto3\";\npackage fill.v1;\nmessage fill_09 { bytes BadField = 1; }\n"
	}
	return files
}

// Env carries the per-execution input perturbations.
type Env struct {
	Wrap    func(storage.ReadBucket) storage.ReadBucket
	Variant int
}

func (e *Env) bucket(files map[string]string) storage.ReadBucket {
	b := bufx.MemBucket(files)
	if e.Wrap != nil {
		return e.Wrap(b)
	}
	return b
}

// Scenario is one output function.
type Scenario struct {
	Name     string
	Variants int // number of listing-order variants (>=1)
	Walks    bool
	Heavy    bool // an execution costs ~100 ms (in-process CLI): the quick tier uses reduced seed and grid sets
	Run      func(ctx context.Context, e *Env) ([]byte, error)
}

func buildImage(ctx context.Context, e *Env, edited bool) (bufimage.Image, error) {
	ws, err := bufx.Workspace(ctx, e.bucket(workspace(e.Variant, edited)), ".", nil, nil, bufx.NopProviders)
	if err != nil {
		return nil, err
	}
	return bufx.BuildWorkspaceImage(ctx, ws)
}

func marshalImage(image bufimage.Image) ([]byte, error) {
	p, err := bufimage.ImageToProtoImage(image)
	if err != nil {
		return nil, err
	}
	return protoencoding.NewWireMarshaler().Marshal(p)
}

func annotationText(anns []bufx.Annotation) []byte {
	var b bytes.Buffer
	for _, a := range anns {
		fmt.Fprintf(&b, "%s:%d:%d:%d:%d:%s:%s\n", a.Path, a.StartLine, a.StartCol, a.EndLine, a.EndCol, a.Type, a.Message)
	}
	return b.Bytes()
}

func scenarios() []Scenario {
	return append(append(apiScenarios(), lintWithPluginsScenario(), lintWithFailingPluginScenario(), overlappingPathsScenario()), cliScenarios()...)
}

func apiScenarios() []Scenario {
	return []Scenario{
		{Name: "build", Variants: 4, Walks: true, Run: func(ctx context.Context, e *Env) ([]byte, error) {
			img, err := buildImage(ctx, e, false)
			if err != nil {
				return nil, err
			}
			return marshalImage(img)
		}},
		{Name: "lint", Variants: 4, Walks: true, Run: func(ctx context.Context, e *Env) ([]byte, error) {
			files := workspace(e.Variant, false)
			img, err := buildImage(ctx, e, false)
			if err != nil {
				return nil, err
			}
			y, err := bufx.ReadBufYAML(files["buf.yaml"])
			if err != nil {
				return nil, err
			}
			anns, err := bufx.Lint(ctx, y.ModuleConfigs()[0].LintConfig(), img)
			if err != nil {
				return nil, err
			}
			if len(anns) < 10 {
				return nil, fmt.Errorf("vacuous lint scenario: %d annotations", len(anns))
			}
			return annotationText(anns), nil
		}},
		{Name: "breaking", Variants: 4, Walks: true, Run: func(ctx context.Context, e *Env) ([]byte, error) {
			files := workspace(e.Variant, false)
			img, err := buildImage(ctx, e, false)
			if err != nil {
				return nil, err
			}
			old, err := buildImage(ctx, e, true)
			if err != nil {
				return nil, err
			}
			y, err := bufx.ReadBufYAML(files["buf.yaml"])
			if err != nil {
				return nil, err
			}
			anns, err := bufx.Breaking(ctx, y.ModuleConfigs()[0].BreakingConfig(), img, old, bufcheck.BreakingWithExcludeImports())
			if err != nil {
				return nil, err
			}
			if len(anns) < 5 {
				return nil, fmt.Errorf("vacuous breaking scenario: %d annotations", len(anns))
			}
			return annotationText(anns), nil
		}},
		{Name: "format+diff", Variants: 1, Walks: true, Run: func(ctx context.Context, e *Env) ([]byte, error) {
			files := map[string]string{}
			for p, c := range workspace(0, false) {
				if strings.HasSuffix(p, ".proto") && !strings.Contains(p, "fill/v1/f0") {
					files[strings.TrimPrefix(strings.TrimPrefix(p, "proto/"), "vendor/")] = c
				}
			}
			files["a.proto"] = "syntax = \"proto3\";\nmessage   TopLevel {  int32 a=1; }\n" // a file and a directory sharing a prefix: a.proto vs acme/
			src := e.bucket(files)
			formatted, err := bufformat.FormatBucket(ctx, src)
			if err != nil {
				return nil, err
			}
			snap := map[string]string{}
			if err := formatted.Walk(ctx, "", func(info storage.ObjectInfo) error {
				data, err := storage.ReadPath(ctx, formatted, info.Path())
				snap[info.Path()] = string(data)
				return err
			}); err != nil {
				return nil, err
			}
			var out bytes.Buffer
			for _, p := range bufx.SortedKeys(snap) {
				fmt.Fprintf(&out, "== %s\n%s", p, snap[p])
			}
			diff, err := storage.DiffBytes(ctx, src, formatted, storage.DiffWithSuppressTimestamps())
			if err != nil {
				return nil, err
			}
			out.WriteString("== diff\n")
			out.Write(diff)
			return out.Bytes(), nil
		}},
		{Name: "format error text", Variants: 1, Walks: true, Run: func(ctx context.Context, e *Env) ([]byte, error) {
			// several files of which two do not parse: the reported error must not depend on which job ran first
			files := map[string]string{
				"a/ok1.proto":  "syntax = \"proto3\";\nmessage A {}\n",
				"a/bad1.proto": "syntax = \"proto3\";\nmessage {\n",
				"b/ok2.proto":  "syntax = \"proto3\";\nmessage B { int32 x = 1; }\n",
				"b/bad2.proto": "syntax = \"proto3\";\nmessage C { int32 = ; }\n",
				"c/ok3.proto":  "syntax = \"proto3\";\nenum E { E_UNSPECIFIED = 0; }\n",
			}
			_, err := bufformat.FormatBucket(ctx, e.bucket(files))
			if err == nil {
				return nil, fmt.Errorf("vacuous: formatting invalid files succeeded")
			}
			// the error of a parallel run joins the errors of the failing jobs: the text, including the order of
			// its lines, is output and must not depend on which job failed first
			return []byte(err.Error()), nil
		}},
		{Name: "breaking v1 overlapping ignore_only", Variants: 2, Walks: false, Run: func(ctx context.Context, e *Env) ([]byte, error) {
			// ignore_only names a deprecated rule id and its replacement with different paths (both listing orders)
			entries := []string{"    FIELD_SAME_LABEL:\n      - a\n", "    FIELD_SAME_CARDINALITY:\n      - b\n", "    FILE:\n      - c\n", "    FIELD_SAME_TYPE:\n      - a/one.proto\n"}
			if e.Variant == 1 {
				entries[0], entries[1], entries[2], entries[3] = entries[3], entries[2], entries[1], entries[0]
			}
			yaml := "version: v1\nbreaking:\n  use:\n    - FILE\n  ignore_only:\n" + strings.Join(entries, "")
			mk := func(label string, typ string) map[string]string {
				return map[string]string{
					"buf.yaml":    yaml,
					"a/one.proto": "syntax = \"proto3\";\npackage a;\nmessage One { " + label + " " + typ + " f = 1; }\n",
					"b/two.proto": "syntax = \"proto3\";\npackage b;\nmessage Two { " + label + " " + typ + " f = 1; }\n",
					"c/thr.proto": "syntax = \"proto3\";\npackage c;\nmessage Thr { " + label + " " + typ + " f = 1; }\n",
					"d/fou.proto": "syntax = \"proto3\";\npackage d;\nmessage Fou { " + label + " " + typ + " f = 1; }\n",
				}
			}
			cur, err := bufx.BuildImage(ctx, mk("repeated", "int64"))
			if err != nil {
				return nil, err
			}
			old, err := bufx.BuildImage(ctx, mk("", "int32"))
			if err != nil {
				return nil, err
			}
			y, err := bufx.ReadBufYAML(yaml)
			if err != nil {
				return nil, err
			}
			anns, err := bufx.Breaking(ctx, y.ModuleConfigs()[0].BreakingConfig(), cur, old)
			if err != nil {
				return nil, err
			}
			if len(anns) < 2 {
				return nil, fmt.Errorf("vacuous overlapping ignore_only scenario: %d annotations", len(anns))
			}
			return annotationText(anns), nil
		}},
		{Name: "ls-files", Variants: 4, Walks: true, Run: func(ctx context.Context, e *Env) ([]byte, error) {
			ws, err := bufx.Workspace(ctx, e.bucket(workspace(e.Variant, false)), ".", nil, nil, bufx.NopProviders)
			if err != nil {
				return nil, err
			}
			infos, err := bufmodule.GetTargetFileInfos(ctx, bufmodule.ModuleSetToModuleReadBucketWithOnlyProtoFiles(ws))
			if err != nil {
				return nil, err
			}
			var out bytes.Buffer
			for _, info := range infos {
				fmt.Fprintf(&out, "%s %s\n", info.Path(), info.ExternalPath())
			}
			return out.Bytes(), nil
		}},
		{Name: "dep-graph+digests", Variants: 6, Walks: false, Run: depGraphScenario},
		{Name: "dep-shapes: listing order x module directories", Variants: 12, Walks: true, Run: depShapesScenario},
		{Name: "dep-graph through a partially warm commit cache", Variants: 16, Walks: false, Run: depGraphCacheScenario},
		{Name: "module-digests", Variants: 4, Walks: true, Run: func(ctx context.Context, e *Env) ([]byte, error) {
			ws, err := bufx.Workspace(ctx, e.bucket(workspace(e.Variant, false)), ".", nil, nil, bufx.NopProviders)
			if err != nil {
				return nil, err
			}
			var lines []string
			for _, m := range ws.Modules() {
				for _, dt := range []bufmodule.DigestType{bufmodule.DigestTypeB5} {
					d, err := m.Digest(dt)
					if err != nil {
						return nil, err
					}
					lines = append(lines, m.OpaqueID()+" "+d.String())
				}
			}
			sort.Strings(lines) // the listing order of modules is an input; digests per module are the output
			return []byte(strings.Join(lines, "\n")), nil
		}},
		{Name: "type-filter", Variants: 4, Walks: true, Run: func(ctx context.Context, e *Env) ([]byte, error) {
			img, err := buildImage(ctx, e, false)
			if err != nil {
				return nil, err
			}
			var out bytes.Buffer
			for _, types := range [][]string{{"acme.v2.Main"}, {"acme.v1.svc"}, {"acme.v1.a_msg", "ext.Ext"}} {
				filtered, err := bufimageutil.FilterImage(img, bufimageutil.WithIncludeTypes(types...))
				if err != nil {
					return nil, err
				}
				data, err := marshalImage(filtered)
				if err != nil {
					return nil, err
				}
				out.Write(data)
				out.WriteString("\n==\n")
			}
			return out.Bytes(), nil
		}},
	}
}

// ---- CLI-level scenarios (in-process buf on a scratch directory) ----

var (
	cliOnce sync.Once
	cliDir  string
	cliErr  error
)

// cliWorkspace materialises the workspace (current and older version) once per process.
func cliWorkspace() (string, error) {
	cliOnce.Do(func() {
		cliDir, cliErr = os.MkdirTemp("", "verif-c02-")
		if cliErr != nil {
			return
		}
		for name, files := range map[string]map[string]string{"cur": workspace(0, false), "old": workspace(0, true)} {
			for p, c := range files {
				full := filepath.Join(cliDir, name, filepath.FromSlash(p))
				if cliErr = os.MkdirAll(filepath.Dir(full), 0o755); cliErr != nil {
					return
				}
				if cliErr = os.WriteFile(full, []byte(c), 0o644); cliErr != nil {
					return
				}
			}
		}
	})
	return cliDir, cliErr
}

var diffHeaderTime = regexp.MustCompile(`(?m)^(---|\+\+\+) (\S+)\t.*$`)

func cliScenario(name string, wantExit int, args func(dir string) []string) Scenario {
	return Scenario{Name: name, Variants: 1, Heavy: true, Run: func(ctx context.Context, e *Env) ([]byte, error) {
		dir, err := cliWorkspace()
		if err != nil {
			return nil, err
		}
		res := bufx.RunCLI(ctx, nil, "", args(dir)...)
		if res.ExitCode != wantExit {
			return nil, fmt.Errorf("exit code %d (want %d): %s", res.ExitCode, wantExit, res.Stderr)
		}
		out := strings.ReplaceAll(res.Stdout+"\n--stderr--\n"+res.Stderr, dir, "<dir>")
		// the ---/+++ headers of `format -d` carry mtimes of temp files handed to the external diff program
		out = diffHeaderTime.ReplaceAllString(out, "$1 $2")
		if len(out) < 40 {
			return nil, fmt.Errorf("vacuous CLI scenario %s: %q", name, out)
		}
		return []byte(out), nil
	}}
}

func cliScenarios() []Scenario {
	return []Scenario{
		cliScenario("cli build -o -", 0, func(d string) []string { return []string{"build", filepath.Join(d, "cur"), "-o", "-#format=binpb"} }),
		cliScenario("cli lint json", 100, func(d string) []string { return []string{"lint", filepath.Join(d, "cur"), "--error-format=json"} }),
		cliScenario("cli breaking json", 100, func(d string) []string {
			return []string{"breaking", filepath.Join(d, "cur"), "--against", filepath.Join(d, "old"), "--error-format=json"}
		}),
		cliScenario("cli format -d", 0, func(d string) []string { return []string{"format", "-d", filepath.Join(d, "cur")} }),
		cliScenario("cli ls-files --include-imports", 0, func(d string) []string {
			return []string{"ls-files", filepath.Join(d, "cur"), "--include-imports"}
		}),
		cliScenario("cli dep graph", 0, func(d string) []string { return []string{"dep", "graph", filepath.Join(d, "cur")} }),
	}
}

// ---- dependency graph with several pinned commits of one remote module ----

type multiProvider struct {
	byCommit map[uuid.UUID]bufmoduletesting.OmniProvider
}

func (m *multiProvider) GetModuleDatasForModuleKeys(ctx context.Context, keys []bufmodule.ModuleKey) ([]bufmodule.ModuleData, error) {
	var out []bufmodule.ModuleData
	for _, k := range keys {
		p, ok := m.byCommit[k.CommitID()]
		if !ok {
			return nil, fmt.Errorf("unknown commit %s", k.CommitID())
		}
		d, err := p.GetModuleDatasForModuleKeys(ctx, []bufmodule.ModuleKey{k})
		if err != nil {
			return nil, err
		}
		out = append(out, d...)
	}
	return out, nil
}
func (m *multiProvider) GetCommitsForModuleKeys(ctx context.Context, keys []bufmodule.ModuleKey) ([]bufmodule.Commit, error) {
	var out []bufmodule.Commit
	for _, k := range keys {
		p, ok := m.byCommit[k.CommitID()]
		if !ok {
			return nil, fmt.Errorf("unknown commit %s", k.CommitID())
		}
		c, err := p.GetCommitsForModuleKeys(ctx, []bufmodule.ModuleKey{k})
		if err != nil {
			return nil, err
		}
		out = append(out, c...)
	}
	return out, nil
}
func (m *multiProvider) GetCommitsForCommitKeys(ctx context.Context, keys []bufmodule.CommitKey) ([]bufmodule.Commit, error) {
	var out []bufmodule.Commit
	for _, k := range keys {
		p, ok := m.byCommit[k.CommitID()]
		if !ok {
			return nil, fmt.Errorf("unknown commit %s", k.CommitID())
		}
		c, err := p.GetCommitsForCommitKeys(ctx, []bufmodule.CommitKey{k})
		if err != nil {
			return nil, err
		}
		out = append(out, c...)
	}
	return out, nil
}

var pinOrders = [][]int{{0, 1, 2, 3}, {3, 2, 1, 0}, {1, 3, 0, 2}, {2, 0, 3, 1}, {0, 3, 1, 2}, {3, 0, 2, 1}}

func depGraphScenario(ctx context.Context, e *Env) ([]byte, error) {
	return depGraphRun(ctx, e.Variant, -1)
}

// depGraphCacheScenario: the same resolution through the caching commit provider over a commit store whose
// content is what earlier runs left behind: variant = which of the four pinned commits of the dependency are
// already cached (16 histories). The cache content must not influence which commit is chosen.
func depGraphCacheScenario(ctx context.Context, e *Env) ([]byte, error) {
	return depGraphRun(ctx, 0, e.Variant%16)
}

func depGraphRun(ctx context.Context, variant int, cacheMask int) ([]byte, error) {
	base := time.Date(2024, 1, 1, 0, 0, 0, 0, time.UTC)
	mp := &multiProvider{byCommit: map[uuid.UUID]bufmoduletesting.OmniProvider{}}
	ref, err := bufparse.NewRef("buf.build", "acme", "dep", "")
	if err != nil {
		return nil, err
	}
	ref2, err := bufparse.NewRef("buf.build", "acme", "other", "")
	if err != nil {
		return nil, err
	}
	var keys []bufmodule.ModuleKey
	for i := 0; i < 4; i++ {
		id := uuid.MustParse(fmt.Sprintf("00000000-0000-4000-8000-0000000000d%d", i))
		p, err := bufmoduletesting.NewOmniProvider(bufmoduletesting.ModuleData{
			Name: "buf.build/acme/dep", CommitID: id, CreateTime: base.Add(time.Duration(i) * time.Hour),
			PathToData: map[string][]byte{"dep.proto": []byte(fmt.Sprintf("syntax = \"proto3\"; package dep; message Dep { string f%d = 1; }", i))},
		})
		if err != nil {
			return nil, err
		}
		k, err := p.GetModuleKeysForModuleRefs(ctx, []bufparse.Ref{ref}, bufmodule.DigestTypeB5)
		if err != nil {
			return nil, err
		}
		keys = append(keys, k[0])
		mp.byCommit[id] = p
	}
	id2 := uuid.MustParse("00000000-0000-4000-8000-0000000000e0")
	p2, err := bufmoduletesting.NewOmniProvider(bufmoduletesting.ModuleData{
		Name: "buf.build/acme/other", CommitID: id2, CreateTime: base,
		PathToData: map[string][]byte{"other.proto": []byte("syntax = \"proto3\"; package other; message Other {}")},
	})
	if err != nil {
		return nil, err
	}
	k2, err := p2.GetModuleKeysForModuleRefs(ctx, []bufparse.Ref{ref2}, bufmodule.DigestTypeB5)
	if err != nil {
		return nil, err
	}
	mp.byCommit[id2] = p2
	var commitProvider bufmodule.CommitProvider = mp
	if cacheMask >= 0 {
		store := bufmodulestore.NewCommitStore(bufx.Logger, storagemem.NewReadWriteBucket())
		var warm []bufmodule.ModuleKey
		for i := range keys {
			if cacheMask&(1<<i) != 0 {
				warm = append(warm, keys[i])
			}
		}
		if len(warm) > 0 {
			commits, err := mp.GetCommitsForModuleKeys(ctx, warm)
			if err != nil {
				return nil, err
			}
			if err := store.PutCommits(ctx, commits); err != nil {
				return nil, err
			}
		}
		commitProvider = bufmodulecache.NewCommitProvider(bufx.Logger, mp, store)
	}
	builder := bufmodule.NewModuleSetBuilder(ctx, bufx.Logger, mp, commitProvider)
	locals := []struct {
		id    string
		files map[string]string
	}{
		{"local/a", map[string]string{"a.proto": "syntax = \"proto3\"; package a; import \"dep.proto\"; import \"b.proto\"; message A { dep.Dep d = 1; b.B b = 2; }"}},
		{"local/b", map[string]string{"b.proto": "syntax = \"proto3\"; package b; import \"other.proto\"; message B { other.Other o = 1; }"}},
	}
	order := pinOrders[variant%len(pinOrders)]
	if variant%2 == 1 {
		locals[0], locals[1] = locals[1], locals[0]
	}
	for _, l := range locals {
		builder.AddLocalModule(bufx.MemBucket(l.files), l.id, true)
	}
	for _, i := range order {
		builder.AddRemoteModule(keys[i], false)
	}
	builder.AddRemoteModule(k2[0], false)
	ms, err := builder.Build()
	if err != nil {
		return nil, err
	}
	graph, err := bufmodule.ModuleSetToDAG(ms)
	if err != nil {
		return nil, err
	}
	dot, err := graph.DOTString(func(m bufmodule.Module) string {
		if m.CommitID() != uuid.Nil {
			return m.OpaqueID() + ":" + uuidutil.ToDashless(m.CommitID())
		}
		return m.OpaqueID()
	})
	if err != nil {
		return nil, err
	}
	var lines []string
	for _, m := range ms.Modules() {
		d, err := m.Digest(bufmodule.DigestTypeB5)
		if err != nil {
			return nil, err
		}
		deps, err := m.ModuleDeps()
		if err != nil {
			return nil, err
		}
		var ds []string
		for _, dep := range deps {
			ds = append(ds, fmt.Sprintf("%s(direct=%v)", dep.OpaqueID(), dep.IsDirect()))
		}
		lines = append(lines, fmt.Sprintf("%s %s deps=%v", m.OpaqueID(), d, ds))
	}
	sort.Strings(lines)
	img, err := bufimage.BuildImage(ctx, bufx.Logger, bufmodule.ModuleSetToModuleReadBucketWithOnlyProtoFiles(ms))
	if err != nil {
		return nil, err
	}
	data, err := marshalImage(img)
	if err != nil {
		return nil, err
	}
	return []byte(dot + "\n" + strings.Join(lines, "\n") + "\n" + fmt.Sprintf("%x", data)), nil
}

// ---- walk-permuting bucket ----

type permBucket struct {
	storage.ReadBucket
	perm func(n int, call int) []int // returns the emission order for a walk of n objects (nil = as is)
	mu   sync.Mutex
	call int
}

func (b *permBucket) Walk(ctx context.Context, prefix string, f func(storage.ObjectInfo) error) error {
	var infos []storage.ObjectInfo
	if err := b.ReadBucket.Walk(ctx, prefix, func(info storage.ObjectInfo) error {
		infos = append(infos, info)
		return nil
	}); err != nil {
		return err
	}
	b.mu.Lock()
	call := b.call
	b.call++
	b.mu.Unlock()
	order := b.perm(len(infos), call)
	if order == nil {
		for _, info := range infos {
			if err := f(info); err != nil {
				return err
			}
		}
		return nil
	}
	for _, i := range order {
		if err := f(infos[i]); err != nil {
			return err
		}
	}
	return nil
}

// WalkPlan names one walk-order perturbation.
type WalkPlan struct {
	Kind string `json:"kind"` // reverse | rotate | swap | perm | single-call-reverse
	K    int    `json:"k"`
}

func (p WalkPlan) apply(n, call int) []int {
	id := make([]int, n)
	for i := range id {
		id[i] = i
	}
	if n < 2 {
		return id
	}
	switch p.Kind {
	case "reverse":
		for i, j := 0, n-1; i < j; i, j = i+1, j-1 {
			id[i], id[j] = id[j], id[i]
		}
	case "rotate":
		k := p.K % n
		return append(id[k:], id[:k]...)
	case "swap":
		k := p.K % (n - 1)
		id[k], id[k+1] = id[k+1], id[k]
	case "perm":
		if n <= 4 {
			perms := enum.Permutations(n)
			return perms[p.K%len(perms)]
		}
		// for larger walks: the K-th permutation of the first four objects, rest in place
		perms := enum.Permutations(4)
		pp := perms[p.K%len(perms)]
		for i := 0; i < 4; i++ {
			id[i] = pp[i]
		}
	case "single-call-reverse":
		if call != p.K {
			return id
		}
		for i, j := 0, n-1; i < j; i, j = i+1, j-1 {
			id[i], id[j] = id[j], id[i]
		}
	}
	return id
}

func walkPlans(quick bool) []WalkPlan {
	plans := []WalkPlan{{"reverse", 0}}
	for k := 1; k <= 5; k++ {
		plans = append(plans, WalkPlan{"rotate", k})
	}
	for k := 0; k < 6; k++ {
		plans = append(plans, WalkPlan{"swap", k})
	}
	for k := 1; k < 24; k++ {
		plans = append(plans, WalkPlan{"perm", k})
	}
	n := 6
	if !quick {
		n = 16
	}
	for k := 0; k < n; k++ {
		plans = append(plans, WalkPlan{"single-call-reverse", k})
	}
	return plans
}

// ---- one execution ----

// Exec describes one point of the nondeterminism space.
type Exec struct {
	Scenario    string           `json:"scenario"`
	Dimension   string           `json:"dimension"`
	Variant     int              `json:"variant,omitempty"`
	Walk        *WalkPlan        `json:"walk,omitempty"`
	MapSeed     int              `json:"map_seed,omitempty"`
	JobPlan     map[string][]int `json:"job_plan,omitempty"`
	Parallelism int              `json:"parallelism,omitempty"`
	GOMAXPROCS  int              `json:"gomaxprocs,omitempty"`
}

type execResult struct {
	Output []byte
	Err    string
	Calls  []joborder.Call
}

func runExec(sc Scenario, x Exec) execResult {
	ctx := context.Background()
	env := &Env{Variant: x.Variant}
	if x.Walk != nil {
		plan := *x.Walk
		env.Wrap = func(b storage.ReadBucket) storage.ReadBucket {
			return &permBucket{ReadBucket: b, perm: plan.apply}
		}
	}
	if x.Dimension == "map-seed" {
		setMapSeed(uint64(x.MapSeed), true)
		defer setMapSeed(0, true)
	}
	if x.Parallelism > 0 {
		prev := thread.Parallelism()
		thread.SetParallelism(x.Parallelism)
		defer thread.SetParallelism(prev)
	}
	if x.GOMAXPROCS > 0 {
		prev := runtime.GOMAXPROCS(x.GOMAXPROCS)
		defer runtime.GOMAXPROCS(prev)
	}
	var jh *joborder.Handler
	if x.Dimension == "job-order" || x.Dimension == "baseline" {
		jh = joborder.New(x.JobPlan)
		hook.SetGroupHandler(jh)
		defer hook.SetGroupHandler(nil)
	}
	var res execResult
	func() {
		defer func() {
			if rec := recover(); rec != nil {
				res.Err = fmt.Sprintf("PANIC: %v", rec)
			}
		}()
		out, err := sc.Run(ctx, env)
		res.Output = out
		if err != nil {
			res.Err = err.Error()
		}
	}()
	if jh != nil {
		hook.SetGroupHandler(nil)
		res.Calls = jh.Finish()
	}
	return res
}

type workerViolation struct {
	Sig  string `json:"sig"`
	What string `json:"what"`
	Exec Exec   `json:"exec"`
}

type workerResult struct {
	Scenario    string            `json:"scenario"`
	Executions  int               `json:"executions"`
	PerDim      map[string]int    `json:"per_dimension"`
	Distinct    []string          `json:"distinct"`
	Violations  []workerViolation `json:"violations"`
	Calls       []string          `json:"parallelize_calls"`
	Incomplete  []string          `json:"incomplete"`
	Sample      []Exec            `json:"sample"`
	OutputBytes int               `json:"output_bytes"`
	MapSeedLive bool              `json:"map_seed_live"`
}

func firstDiff(a, b []byte) string {
	n := min(len(a), len(b))
	i := 0
	for i < n && a[i] == b[i] {
		i++
	}
	ctx := func(x []byte) string {
		lo, hi := max(0, i-30), min(len(x), i+30)
		return fmt.Sprintf("%q", x[lo:hi])
	}
	return fmt.Sprintf("outputs differ at byte %d (lengths %d vs %d): baseline …%s… vs …%s…", i, len(a), len(b), ctx(a), ctx(b))
}

// exploreScenario enumerates every dimension for one scenario (in this process).
func exploreScenario(sc Scenario, quick bool, deadline time.Time) workerResult {
	hook.Install()
	res := workerResult{Scenario: sc.Name, PerDim: map[string]int{}, MapSeedLive: mapSeedAvailable()}
	thread.SetParallelism(4)
	// every execution outside the map-seed dimension runs under seed 0, so that a dependence on map
	// iteration order shows up in that dimension only, and reproducibly
	setMapSeed(0, true)
	base := runExec(sc, Exec{Scenario: sc.Name, Dimension: "baseline"})
	if base.Err != "" {
		res.Incomplete = append(res.Incomplete, "baseline execution failed: "+base.Err)
		return res
	}
	again := runExec(sc, Exec{Scenario: sc.Name, Dimension: "baseline"})
	if !bytes.Equal(base.Output, again.Output) {
		res.Violations = append(res.Violations, workerViolation{"rerun/" + sc.Name, "two plain runs of the same inputs differ: " + firstDiff(base.Output, again.Output), Exec{Scenario: sc.Name, Dimension: "rerun"}})
	}
	res.OutputBytes = len(base.Output)
	for _, c := range base.Calls {
		res.Calls = append(res.Calls, fmt.Sprintf("%s jobs=%d", c.Key(), c.Jobs))
	}
	try := func(x Exec) {
		if time.Now().After(deadline) {
			if len(res.Incomplete) == 0 {
				res.Incomplete = append(res.Incomplete, "deadline reached in "+sc.Name)
			}
			return
		}
		r := runExec(sc, x)
		res.Executions++
		res.PerDim[x.Dimension]++
		key, _ := json.Marshal(x)
		res.Distinct = append(res.Distinct, string(key))
		if len(res.Sample) < 2 && (x.Dimension == "job-order" || x.Dimension == "walk-order") {
			res.Sample = append(res.Sample, x)
		}
		if r.Err != "" {
			res.Violations = append(res.Violations, workerViolation{fmt.Sprintf("%s/%s/error", x.Dimension, sc.Name), fmt.Sprintf("scenario %s fails under %s: %s", sc.Name, x.Dimension, r.Err), x})
			return
		}
		if !bytes.Equal(r.Output, base.Output) {
			res.Violations = append(res.Violations, workerViolation{fmt.Sprintf("%s/%s", x.Dimension, sc.Name), fmt.Sprintf("output of %s depends on %s: %s", sc.Name, x.Dimension, firstDiff(base.Output, r.Output)), x})
		}
	}
	// listing-order variants
	for v := 1; v < sc.Variants; v++ {
		try(Exec{Scenario: sc.Name, Dimension: "listing-order", Variant: v})
	}
	// walk orders
	if sc.Walks {
		for _, wp := range walkPlans(quick) {
			wp := wp
			try(Exec{Scenario: sc.Name, Dimension: "walk-order", Walk: &wp})
		}
	}
	// job orders: every call with >= 2 jobs, every permutation (<= 4 jobs) or reverse/rotations/adjacent swaps
	for _, c := range base.Calls {
		if c.Jobs < 2 {
			continue
		}
		var perms [][]int
		if c.Jobs <= 4 {
			perms = enum.Permutations(c.Jobs)[1:]
		} else {
			id := make([]int, c.Jobs)
			for i := range id {
				id[i] = i
			}
			rev := make([]int, c.Jobs)
			for i := range rev {
				rev[i] = c.Jobs - 1 - i
			}
			perms = append(perms, rev)
			for k := 1; k < c.Jobs; k++ {
				perms = append(perms, append(append([]int(nil), id[k:]...), id[:k]...))
			}
			for k := 0; k+1 < c.Jobs; k++ {
				p := append([]int(nil), id...)
				p[k], p[k+1] = p[k+1], p[k]
				perms = append(perms, p)
			}
		}
		for _, p := range perms {
			try(Exec{Scenario: sc.Name, Dimension: "job-order", JobPlan: map[string][]int{c.Key(): p}})
		}
	}
	// map seeds
	if mapSeedAvailable() {
		seeds := 64
		if quick && sc.Heavy {
			seeds = 16 // every in-bucket offset at two start buckets
		}
		for seed := 0; seed < seeds; seed++ {
			try(Exec{Scenario: sc.Name, Dimension: "map-seed", MapSeed: seed})
		}
	}
	// parallelism grid
	for _, gmp := range []int{1, 2, 4, 16} {
		for _, par := range []int{1, 2, 3, 4, 8, 16} {
			if quick && !(gmp == 1 || gmp == 16 || par == 2) {
				continue
			}
			if quick && sc.Heavy && !((gmp == 1 && par == 1) || (gmp == 16 && par == 16) || (gmp == 4 && par == 2) || (gmp == 1 && par == 16)) {
				continue
			}
			try(Exec{Scenario: sc.Name, Dimension: "parallelism-grid", Parallelism: par, GOMAXPROCS: gmp})
		}
	}
	// chunked job orders: parallelism 2 makes bufprotosource split the files into chunks
	thread.SetParallelism(2)
	base2 := runExec(sc, Exec{Scenario: sc.Name, Dimension: "baseline"})
	if base2.Err == "" {
		if !bytes.Equal(base2.Output, base.Output) {
			res.Violations = append(res.Violations, workerViolation{"parallelism-grid/" + sc.Name, "output differs at parallelism 2: " + firstDiff(base.Output, base2.Output), Exec{Scenario: sc.Name, Dimension: "parallelism-grid", Parallelism: 2}})
		}
		for _, c := range base2.Calls {
			if c.Jobs < 2 || c.Jobs > 4 {
				continue
			}
			res.Calls = append(res.Calls, fmt.Sprintf("(parallelism 2) %s jobs=%d", c.Key(), c.Jobs))
			for _, p := range enum.Permutations(c.Jobs)[1:] {
				try(Exec{Scenario: sc.Name, Dimension: "job-order", Parallelism: 2, JobPlan: map[string][]int{c.Key(): p}})
			}
		}
	}
	return res
}

func worker(args []string) int {
	// args: scenarioIndex quick deadlineUnix
	var si int
	var dl int64
	fmt.Sscan(args[0], &si)
	quick := args[1] == "true"
	fmt.Sscan(args[2], &dl)
	res := exploreScenario(scenarios()[si], quick, time.Unix(dl, 0))
	if cliDir != "" {
		os.RemoveAll(cliDir)
	}
	b, _ := json.Marshal(res)
	fmt.Println("RESULT " + string(b))
	return 0
}

func run(r *evid.Run) {
	r.Rule("case = (scenario, dimension, point): scenario in {build bytes, lint text, breaking text, format+diff, file listing, dependency graph+digests+image with 4 pinned commits, module digests, type filter}; dimensions: every order of the jobs of each thread.Parallelize call (all n! for <=4 jobs, else reverse/rotations/adjacent swaps; also at parallelism 2 where bufprotosource chunks files), walk-order perturbations of every storage Walk (reverse, rotations, adjacent swaps, all 24 permutations of the first four objects, single-call reversals), Go map iteration start seeds 0..63 (runtime overlay), GOMAXPROCS x thread parallelism grid, listing-order variants of modules / rule ids / dependency pins; oracle: output bytes equal the baseline execution. Distinct key = the JSON of the case")
	r.Assume("scheduling inside protocompile's executor and inside bufplugin-go's in-process check server is not controlled (dependencies outside /repo); they are perturbed only through the parallelism grid")
	r.Assume("map-seed sweep rotates all maps alike (one seed per execution)")
	self, _ := os.Executable()
	scs := scenarios()
	deadline := time.Now().Add(250 * time.Second)
	if !r.Quick() {
		deadline = time.Now().Add(15 * time.Minute)
	}
	perDim := map[string]int{}
	calls := map[string][]string{}
	var mu sync.Mutex
	seedLive := true
	r.ParallelFor(len(scs), len(scs), func(i int) {
		cmd := exec.Command(self, "worker", "c02", fmt.Sprint(i), fmt.Sprint(r.Quick()), fmt.Sprint(deadline.Unix()))
		cmd.Env = append(os.Environ(), "VERIF_SEED="+fmt.Sprint(r.Seed))
		out, err := cmd.Output()
		var res workerResult
		found := false
		for _, line := range strings.Split(string(out), "\n") {
			if strings.HasPrefix(line, "RESULT ") && json.Unmarshal([]byte(line[7:]), &res) == nil {
				found = true
			}
		}
		if !found {
			r.Incomplete(fmt.Sprintf("worker for scenario %s failed: %v", scs[i].Name, err))
			return
		}
		mu.Lock()
		defer mu.Unlock()
		r.Eval(res.Executions)
		for _, d := range res.Distinct {
			r.Distinct(d)
		}
		for k, v := range res.PerDim {
			perDim[k] += v
		}
		calls[res.Scenario] = res.Calls
		for _, s := range res.Sample {
			r.Sample(s)
		}
		for _, inc := range res.Incomplete {
			r.Incomplete(inc)
		}
		if !res.MapSeedLive {
			seedLive = false
		}
		for _, v := range res.Violations {
			r.Violate(v.Sig, v.What, v.Exec)
		}
	})
	r.Set("executions_per_dimension", perDim)
	r.Set("parallelize_calls_seen", calls)
	r.Set("map_seed_overlay_active", seedLive)
	if !seedLive {
		r.Incomplete("binary was built without the runtime map-seed overlay: the map-seed dimension was not explored")
	}
	if perDim["job-order"] == 0 {
		r.Incomplete("vacuity: no thread.Parallelize call with >= 2 jobs was seen")
	}
	racePass(r)
}

// overlappingPathsScenario: target paths that contain each other, listed in every order (the argument order of
// --path is an input order): target file list and image must be the same for all of them.
func overlappingPathsScenario() Scenario {
	paths := []string{"proto/acme", "proto/acme/v1", "proto/acme/v1/a.proto", "proto/fill"}
	perms := enum.Permutations(len(paths))
	return Scenario{Name: "overlapping --path values in every order", Variants: len(perms), Walks: true, Run: func(ctx context.Context, e *Env) ([]byte, error) {
		perm := perms[e.Variant%len(perms)]
		ordered := make([]string, len(paths))
		for i, p := range perm {
			ordered[i] = paths[p]
		}
		ws, err := bufx.Workspace(ctx, e.bucket(workspace(0, false)), ".", ordered, nil, bufx.NopProviders)
		if err != nil {
			return nil, err
		}
		var lines []string
		for _, m := range ws.Modules() {
			infos, err := bufmodule.GetTargetFileInfos(ctx, m)
			if err != nil {
				return nil, err
			}
			for _, fi := range infos {
				lines = append(lines, m.OpaqueID()+" "+fi.Path())
			}
		}
		sort.Strings(lines) // a file listed twice stays listed twice
		if len(lines) < 5 {
			return nil, fmt.Errorf("vacuous: %d target files", len(lines))
		}
		img, err := bufx.BuildWorkspaceImage(ctx, ws)
		if err != nil {
			return nil, err
		}
		data, err := marshalImage(img)
		if err != nil {
			return nil, err
		}
		return []byte(strings.Join(lines, "\n") + fmt.Sprintf("\n%x", data)), nil
	}}
}
