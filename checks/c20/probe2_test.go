package c20

import (
	"context"
	"fmt"
	"os"
	"path/filepath"
	"strings"
	"testing"

)

func TestProbeShapes(t *testing.T) {
	ctx := context.Background()
	type ws struct {
		name  string
		files map[string]string
	}
	good := func() map[string]string { f, _ := render(nil); return f }
	mk := func(name string, edit func(f map[string]string)) ws {
		f := good()
		edit(f)
		return ws{name, f}
	}
	wss := []ws{
		mk("clean", func(f map[string]string) {}),
		mk("S1b-pkg-double-period-in-b", func(f map[string]string) {
			f["b/v1/b.proto"] = strings.Replace(f["b/v1/b.proto"], "package b.v1;", "package b..v1;", 1)
		}),
		mk("S1a2-sibling", func(f map[string]string) {
			f["a/v1/a2.proto"] = "syntax = \"proto3\";\n\npackage a..v1;\n\nmessage Sib {}\n"
		}),
		mk("S2b-import-unquoted", func(f map[string]string) {
			f["b/v1/b.proto"] = strings.Replace(f["b/v1/b.proto"], "import \"a/v1/a.proto\";", "import \"a/v1/a.proto\";\nimport nope;", 1)
		}),
		mk("S3b-unterminated-string", func(f map[string]string) {
			f["b/v1/b.proto"] = strings.Replace(f["b/v1/b.proto"], "import \"a/v1/a.proto\";", "import \"a/v1/a.proto\";\nimport \"nope;\n", 1)
		}),
		mk("C2b-unclosed", func(f map[string]string) {
			f["b/v1/b.proto"] += "\nmessage Open {\n"
		}),
		mk("M1b", func(f map[string]string) {
			f["b/v1/b.proto"] = strings.Replace(f["b/v1/b.proto"], "import \"a/v1/a.proto\";", "import \"a/v1/a.proto\";\nimport \"nope/nope.proto\";", 1)
		}),
	}
	root, _ := os.MkdirTemp("", "verif-c20-probe-")
	defer os.RemoveAll(root)
	for _, layout := range []string{"single", "multi"} {
		for _, w := range wss {
			dir := filepath.Join(root, layout, w.name)
			files := map[string]string{}
			for p, c := range w.files {
				if layout == "multi" && p != "buf.yaml" {
					p = "mod" + p[:1] + "/" + p
				}
				if layout == "multi" && p == "buf.yaml" {
					c = strings.Replace(c, "version: v2\n", "version: v2\nmodules:\n  - path: moda\n  - path: modb\n", 1)
				}
				files[p] = c
			}
			if err := writeFiles(dir, files); err != nil {
				t.Fatal(err)
			}
			pa, pb := "a/v1/a.proto", "b/v1/b.proto"
			if layout == "multi" {
				pa, pb = "moda/"+pa, "modb/"+pb
			}
			inputs := map[string][]string{
				"dir":     {dir},
				"file-a":  {filepath.Join(dir, pa)},
				"file-a+": {filepath.Join(dir, pa) + "#include_package_files=true"},
				"file-b":  {filepath.Join(dir, pb)},
				"file-b+": {filepath.Join(dir, pb) + "#include_package_files=true"},
				"path-a":  {dir, "--path", filepath.Join(dir, filepath.Dir(pa))},
				"path-b":  {dir, "--path", filepath.Join(dir, filepath.Dir(pb))},
			}
			for _, in := range []string{"dir", "file-a", "file-a+", "file-b", "file-b+", "path-a", "path-b"} {
				for _, cmd := range []string{"build", "lint", "breaking", "format"} {
					args := append([]string{cmd}, inputs[in]...)
					if cmd == "breaking" {
						args = append(args, "--against", inputs[in][0])
					}
					if cmd == "format" {
						if strings.HasSuffix(in, "+") {
							continue
						}
						args = append(args, "--exit-code", "-d")
					}
					res, _ := runBuf(ctx, append(args, "--error-format", "json"))
					out := res.Stdout + res.Stderr
					out = strings.ReplaceAll(out, root, "")
					if len(out) > 200 {
						out = out[:200]
					}
					fmt.Printf("%-6s %-28s %-8s %-8s exit=%-3d %q\n", layout, w.name, in, cmd, res.ExitCode, out)
				}
			}
		}
	}
}
