package c20

import (
	"bytes"
	"testing"

	"github.com/bufbuild/buf/private/bufpkg/bufanalysis"
)

// TestProbeDedupeCollision documents an observation that is outside C20's statement (all formats and the
// exit status still agree): the de-duplication key of a FileAnnotationSet concatenates the fields without
// a delimiter, so two different annotations can be merged into one.
func TestProbeDedupeCollision(t *testing.T) {
	a := ann{Path: "a.proto", SL: 1, SC: 1, EL: 1, EC: 1, Type: "RULE", Msg: "_X is bad"}
	b := ann{Path: "a.proto", SL: 1, SC: 1, EL: 1, EC: 1, Type: "RULE_X", Msg: " is bad"}
	set := bufanalysis.NewFileAnnotationSet(a.real(), b.real())
	var buf bytes.Buffer
	if err := bufanalysis.PrintFileAnnotationSet(&buf, set, "json"); err != nil {
		t.Fatal(err)
	}
	t.Logf("annotations kept: %d\n%s", len(set.FileAnnotations()), buf.String())
}
