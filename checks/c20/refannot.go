package c20

// refannot: independent parsers for the five --error-format renderings (plus lint's
// config-ignore-yaml), written from the published grammar of each format and not from buf's
// printers:
//
//   text            gcc style   <file>:<line>:<col>:<message>                       one per line
//   msvs            Visual Studio  <file>(<line>[,<col>]) : error <ID> : <message>  one per line
//   json            one JSON object per line
//   junit           <testsuites><testsuite name=..><testcase name=..><failure message=.. type=..>
//   github-actions  workflow command  ::error k=v,k=v::data  parsed exactly the way the GitHub
//                   runner does it (ActionCommand.TryParseV2: first "::" after the command word ends
//                   the properties, properties are split at ',' and at the first '=', property values
//                   are unescaped with %25 %0D %0A %3A %2C, the data with %25 %0D %0A)
//
// Every parser returns a list of `parsed` records carrying only the fields that the format carries.

import (
	"bytes"
	"encoding/json"
	"encoding/xml"
	"fmt"
	"io"
	"regexp"
	"strconv"
	"strings"
)

// parsed is one annotation as read back from a rendering. A nil int pointer = the format did not
// carry that position field for this annotation.
type parsed struct {
	Path    string `json:"path"` // "" = no file ("<input>" is mapped to "")
	SL      *int   `json:"sl,omitempty"`
	SC      *int   `json:"sc,omitempty"`
	EL      *int   `json:"el,omitempty"`
	EC      *int   `json:"ec,omitempty"`
	Type    string `json:"type,omitempty"`
	HasType bool   `json:"has_type,omitempty"`
	Msg     string `json:"msg"`
	// Plugin is carried separately only by json; the line formats append " (<plugin>)" to the message.
	Plugin    string `json:"plugin,omitempty"`
	HasPlugin bool   `json:"has_plugin,omitempty"`
	// junit extras (consistency of the redundant places the format repeats a field in)
	SuiteName string `json:"suite,omitempty"`
	CaseName  string `json:"case,omitempty"`
}

const noFilePlaceholder = "<input>"

func intp(i int) *int { return &i }

func canonPath(p string) string {
	if p == noFilePlaceholder {
		return ""
	}
	return p
}

// splitLines splits a line-oriented rendering: every record is terminated by exactly one "\n".
func splitLines(out string) (lines []string, terminated bool) {
	if out == "" {
		return nil, true
	}
	if !strings.HasSuffix(out, "\n") {
		return strings.Split(out, "\n"), false
	}
	return strings.Split(strings.TrimSuffix(out, "\n"), "\n"), true
}

var textTail = regexp.MustCompile(`^:([0-9]+):([0-9]+):`)

// parseTextLine: the file is the shortest prefix that is followed by ":<digits>:<digits>:".
func parseTextLine(line string) (parsed, error) {
	for i := 0; i < len(line); i++ {
		if line[i] != ':' {
			continue
		}
		m := textTail.FindStringSubmatch(line[i:])
		if m == nil {
			continue
		}
		l, err1 := strconv.Atoi(m[1])
		c, err2 := strconv.Atoi(m[2])
		if err1 != nil || err2 != nil {
			continue
		}
		return parsed{Path: canonPath(line[:i]), SL: intp(l), SC: intp(c), Msg: line[i+len(m[0]):]}, nil
	}
	return parsed{}, fmt.Errorf("not <file>:<line>:<col>:<message>: %q", line)
}

func parseText(out string) ([]parsed, error) {
	lines, term := splitLines(out)
	if !term {
		return nil, fmt.Errorf("last line is not newline-terminated")
	}
	var res []parsed
	for _, line := range lines {
		p, err := parseTextLine(line)
		if err != nil {
			return nil, err
		}
		res = append(res, p)
	}
	return res, nil
}

var msvsLine = regexp.MustCompile(`^(.*?)\(([0-9]+)(?:,([0-9]+))?\) : error ([^ ]+) : (.*)$`)

func parseMSVS(out string) ([]parsed, error) {
	lines, term := splitLines(out)
	if !term {
		return nil, fmt.Errorf("last line is not newline-terminated")
	}
	var res []parsed
	for _, line := range lines {
		m := msvsLine.FindStringSubmatch(line)
		if m == nil {
			return nil, fmt.Errorf("not <file>(<line>[,<col>]) : error <ID> : <message>: %q", line)
		}
		p := parsed{Path: canonPath(m[1]), Type: m[4], HasType: true, Msg: m[5]}
		l, err := strconv.Atoi(m[2])
		if err != nil {
			return nil, err
		}
		p.SL = intp(l)
		if m[3] != "" {
			c, err := strconv.Atoi(m[3])
			if err != nil {
				return nil, err
			}
			p.SC = intp(c)
		}
		res = append(res, p)
	}
	return res, nil
}

type jsonAnnotation struct {
	Path        *string `json:"path"`
	StartLine   *int    `json:"start_line"`
	StartColumn *int    `json:"start_column"`
	EndLine     *int    `json:"end_line"`
	EndColumn   *int    `json:"end_column"`
	Type        *string `json:"type"`
	Message     *string `json:"message"`
	Plugin      *string `json:"plugin"`
}

func parseJSON(out string) ([]parsed, error) {
	lines, term := splitLines(out)
	if !term {
		return nil, fmt.Errorf("last line is not newline-terminated")
	}
	var res []parsed
	for _, line := range lines {
		if !json.Valid([]byte(line)) {
			return nil, fmt.Errorf("line is not a JSON value: %q", line)
		}
		dec := json.NewDecoder(strings.NewReader(line))
		var ja jsonAnnotation
		if err := dec.Decode(&ja); err != nil {
			return nil, fmt.Errorf("line is not a JSON object: %v: %q", err, line)
		}
		if dec.More() {
			return nil, fmt.Errorf("more than one JSON value on a line: %q", line)
		}
		p := parsed{SL: ja.StartLine, SC: ja.StartColumn, EL: ja.EndLine, EC: ja.EndColumn, HasType: true, HasPlugin: true}
		if ja.Path != nil {
			p.Path = *ja.Path
		}
		if ja.Type != nil {
			p.Type = *ja.Type
		}
		if ja.Message != nil {
			p.Msg = *ja.Message
		}
		if ja.Plugin != nil {
			p.Plugin = *ja.Plugin
		}
		res = append(res, p)
	}
	return res, nil
}

type xSuites struct {
	XMLName xml.Name `xml:"testsuites"`
	Suites  []xSuite `xml:"testsuite"`
}
type xSuite struct {
	Name     string  `xml:"name,attr"`
	Tests    string  `xml:"tests,attr"`
	Failures string  `xml:"failures,attr"`
	Errors   string  `xml:"errors,attr"`
	Cases    []xCase `xml:"testcase"`
}
type xCase struct {
	Name     string     `xml:"name,attr"`
	Failures []xFailure `xml:"failure"`
}
type xFailure struct {
	Message string `xml:"message,attr"`
	Type    string `xml:"type,attr"`
}

// parseJUnit: the document must be one well-formed <testsuites> element followed by white space only;
// the flattened testcases (document order) are the annotations. The failure's message attribute is the
// gcc-style line of the annotation (JUnit has no dedicated position attributes).
func parseJUnit(out string) ([]parsed, error) {
	dec := xml.NewDecoder(strings.NewReader(out))
	dec.Strict = true
	var doc xSuites
	if err := dec.Decode(&doc); err != nil {
		return nil, fmt.Errorf("not well-formed XML: %v", err)
	}
	for {
		tok, err := dec.Token()
		if err == io.EOF {
			break
		}
		if err != nil {
			return nil, fmt.Errorf("not well-formed XML after the root element: %v", err)
		}
		if cd, ok := tok.(xml.CharData); ok && len(bytes.TrimSpace(cd)) == 0 {
			continue
		}
		return nil, fmt.Errorf("content after the root element: %v", tok)
	}
	var res []parsed
	for _, s := range doc.Suites {
		if s.Tests != strconv.Itoa(len(s.Cases)) || s.Failures != strconv.Itoa(len(s.Cases)) {
			return nil, fmt.Errorf("testsuite %q says tests=%s failures=%s but has %d testcases", s.Name, s.Tests, s.Failures, len(s.Cases))
		}
		for _, c := range s.Cases {
			if len(c.Failures) != 1 {
				return nil, fmt.Errorf("testcase %q has %d failure elements", c.Name, len(c.Failures))
			}
			f := c.Failures[0]
			p, err := parseJUnitMessage(f.Message)
			if err != nil {
				return nil, fmt.Errorf("failure message: %v", err)
			}
			p.Type, p.HasType = f.Type, true
			p.SuiteName, p.CaseName = s.Name, c.Name
			res = append(res, p)
		}
	}
	return res, nil
}

// parseJUnitMessage is the text grammar, except that the message may span lines (an XML attribute can
// carry a newline, a line of a line-oriented format cannot).
func parseJUnitMessage(s string) (parsed, error) {
	return parseTextLine(s)
}

// unescapeWorkflow undoes the GitHub workflow-command escaping, single pass, left to right.
func unescapeWorkflow(s string, property bool) string {
	if !strings.Contains(s, "%") {
		return s
	}
	var b strings.Builder
	for i := 0; i < len(s); {
		if s[i] == '%' && i+3 <= len(s) {
			switch s[i : i+3] {
			case "%25":
				b.WriteByte('%')
				i += 3
				continue
			case "%0D":
				b.WriteByte('\r')
				i += 3
				continue
			case "%0A":
				b.WriteByte('\n')
				i += 3
				continue
			case "%3A":
				if property {
					b.WriteByte(':')
					i += 3
					continue
				}
			case "%2C":
				if property {
					b.WriteByte(',')
					i += 3
					continue
				}
			}
		}
		b.WriteByte(s[i])
		i++
	}
	return b.String()
}

// parseWorkflowCommand is the runner's algorithm for one log line.
func parseWorkflowCommand(line string) (command string, props map[string]string, data string, err error) {
	if !strings.HasPrefix(line, "::") {
		return "", nil, "", fmt.Errorf("log line is not a workflow command (does not start with \"::\"): %q", line)
	}
	end := strings.Index(line[2:], "::")
	if end < 0 {
		return "", nil, "", fmt.Errorf("workflow command without closing \"::\": %q", line)
	}
	end += 2
	info := line[2:end]
	props = map[string]string{}
	if sp := strings.IndexByte(info, ' '); sp < 0 {
		command = info
	} else {
		command = info[:sp]
		for _, kv := range strings.Split(strings.TrimSpace(info[sp+1:]), ",") {
			if kv == "" {
				continue
			}
			eq := strings.IndexByte(kv, '=')
			if eq <= 0 || eq == len(kv)-1 {
				// the runner silently drops a property that is not key=value
				return "", nil, "", fmt.Errorf("property fragment %q is not key=value (the runner drops it): %q", kv, line)
			}
			props[kv[:eq]] = unescapeWorkflow(kv[eq+1:], true)
		}
	}
	return command, props, unescapeWorkflow(line[end+2:], false), nil
}

func parseGithubActions(out string) ([]parsed, error) {
	lines, term := splitLines(out)
	if !term {
		return nil, fmt.Errorf("last line is not newline-terminated")
	}
	var res []parsed
	for _, line := range lines {
		cmd, props, data, err := parseWorkflowCommand(line)
		if err != nil {
			return nil, err
		}
		if cmd != "error" {
			return nil, fmt.Errorf("workflow command %q, want error: %q", cmd, line)
		}
		p := parsed{Msg: data}
		for k, v := range props {
			switch k {
			case "file":
				p.Path = canonPath(v)
			case "line", "col", "endLine", "endColumn":
				n, err := strconv.Atoi(v)
				if err != nil {
					return nil, fmt.Errorf("property %s=%q is not a number: %q", k, v, line)
				}
				switch k {
				case "line":
					p.SL = intp(n)
				case "col":
					p.SC = intp(n)
				case "endLine":
					p.EL = intp(n)
				case "endColumn":
					p.EC = intp(n)
				}
			case "title":
			default:
				return nil, fmt.Errorf("unknown property %q in %q", k, line)
			}
		}
		if _, ok := props["file"]; !ok {
			return nil, fmt.Errorf("error command without file property: %q", line)
		}
		res = append(res, p)
	}
	return res, nil
}

// parseConfigIgnoreYAML reads lint's config-ignore-yaml rendering:
//
//	version: v1
//	lint:
//	  ignore_only:
//	    RULE_ID:
//	      - path
//
// and returns the sorted "RULE_ID path" pairs.
func parseConfigIgnoreYAML(out string) ([]string, error) {
	lines, term := splitLines(out)
	if !term {
		return nil, fmt.Errorf("last line is not newline-terminated")
	}
	if len(lines) < 3 || lines[0] != "version: v1" || lines[1] != "lint:" || lines[2] != "  ignore_only:" {
		return nil, fmt.Errorf("unexpected header %q", lines)
	}
	var pairs []string
	rule := ""
	for _, line := range lines[3:] {
		switch {
		case strings.HasPrefix(line, "      - "):
			if rule == "" {
				return nil, fmt.Errorf("path before rule: %q", line)
			}
			p := strings.TrimPrefix(line, "      - ")
			if len(p) >= 2 && (p[0] == '"' || p[0] == '\'') && p[len(p)-1] == p[0] {
				p = p[1 : len(p)-1]
			}
			pairs = append(pairs, rule+" "+p)
		case strings.HasPrefix(line, "    ") && strings.HasSuffix(line, ":") && !strings.HasPrefix(line, "     "):
			rule = strings.TrimSuffix(strings.TrimPrefix(line, "    "), ":")
		default:
			return nil, fmt.Errorf("unexpected line %q", line)
		}
	}
	sortStrings(pairs)
	return pairs, nil
}

var formats = []string{"text", "json", "msvs", "junit", "github-actions"}

func parseFormat(format, out string) ([]parsed, error) {
	switch format {
	case "text":
		return parseText(out)
	case "json":
		return parseJSON(out)
	case "msvs":
		return parseMSVS(out)
	case "junit":
		return parseJUnit(out)
	case "github-actions":
		return parseGithubActions(out)
	}
	return nil, fmt.Errorf("unknown format %q", format)
}
