package c20

// Part B3: unusable resources. Every command of the property touches more than the user's sources: the
// input reference itself, the --against input, the location -o writes to, the --config / --against-config
// file, the --path / --exclude-path filters. The property separates two verdict classes: status 100 is for
// problems IN the user's sources (annotations printed, an import not found, a format difference), any other
// failure is operational and must use a different non-zero status. This phase enumerates
//
//	role of the resource (input, against, output, config, against-config, path, exclude-path)
//	x reference form (directory, .proto file, image as binpb/json/txtpb/yaml/binpb.gz/#format=binpb,
//	  archive as tar/tar.gz/zip/#format=tar)
//	x state of the resource on disk (ok = control, missing, missing parent directory, parent is a regular file,
//	  dangling symlink, symlink loop, wrong type (directory where a file is expected and vice versa), garbage content)
//	x command x workspace (clean, planted) x --error-format
//
// and judges each run with a model that does not look at buf's message: a resource in a non-ok state is not a
// problem in the user's sources, so the status is never 100 unless the plant model says the command has a
// source problem to report on that workspace independently of the resource.

import (
	"archive/tar"
	"archive/zip"
	"bytes"
	"compress/gzip"
	"context"
	"fmt"
	"os"
	"path/filepath"
	"sort"
	"strings"
	"sync"
	"sync/atomic"

	"github.com/bufbuild/bufverif/internal/bufx"
	"github.com/bufbuild/bufverif/internal/evid"
)

// resForm is a way to spell a reference to a resource.
type resForm struct {
	ID     string
	Kind   string // dir | proto | image | archive
	Ext    string // file name suffix that selects the format ("" when Option does)
	Option string // "#format=..." suffix
}

var resForms = []resForm{
	{ID: "dir", Kind: "dir"},
	{ID: "proto", Kind: "proto", Ext: ".proto"},
	{ID: "binpb", Kind: "image", Ext: ".binpb"},
	{ID: "json", Kind: "image", Ext: ".json"},
	{ID: "txtpb", Kind: "image", Ext: ".txtpb"},
	{ID: "yaml", Kind: "image", Ext: ".yaml"},
	{ID: "binpb.gz", Kind: "image", Ext: ".binpb.gz"},
	{ID: "format=binpb", Kind: "image", Ext: ".img", Option: "#format=binpb"},
	{ID: "tar", Kind: "archive", Ext: ".tar"},
	{ID: "tar.gz", Kind: "archive", Ext: ".tar.gz"},
	{ID: "zip", Kind: "archive", Ext: ".zip"},
	{ID: "format=tar", Kind: "archive", Ext: ".arc", Option: "#format=tar"},
}

// resState is the state of the resource on disk. Class is the kind of failure the operating system (or the
// decoder) reports for it; it is part of the violation signature (one defect per role x class x command).
type resState struct {
	ID    string
	Class string
}

var resStates = []resState{
	{ID: "ok", Class: "ok"},
	{ID: "missing", Class: "not-exist"},
	{ID: "missing-parent", Class: "not-exist"},
	{ID: "dangling-symlink", Class: "not-exist"},
	{ID: "parent-is-file", Class: "not-a-directory"},
	{ID: "symlink-loop", Class: "symlink-loop"},
	{ID: "wrong-type", Class: "wrong-type"},
	{ID: "garbage", Class: "garbage"},
}

var garbage = bytes.Repeat([]byte{0xff}, 1024)

// place puts a resource of the given form in the given state below root and returns its path. fixture is the
// good resource of that form ("" for outputs, which start absent). ok=false: the state does not exist for
// the form.
func place(root string, form resForm, state string, fixture string, output bool) (p string, ok bool, err error) {
	name := "res" + form.Ext
	p = filepath.Join(root, name)
	if err := os.MkdirAll(root, 0o755); err != nil {
		return "", false, err
	}
	switch state {
	case "ok":
		if output {
			return p, true, nil
		}
		return fixture, true, nil
	case "missing":
		if output {
			return "", false, nil // an absent output location is the ok state
		}
		return p, true, nil
	case "missing-parent":
		return filepath.Join(root, "nodir", name), true, nil
	case "parent-is-file":
		if err := os.WriteFile(filepath.Join(root, "afile"), []byte("x\n"), 0o644); err != nil {
			return "", false, err
		}
		return filepath.Join(root, "afile", name), true, nil
	case "dangling-symlink":
		return p, true, os.Symlink(filepath.Join(root, "nothing"+form.Ext), p)
	case "symlink-loop":
		return p, true, os.Symlink(p, p)
	case "wrong-type":
		if form.Kind == "dir" {
			return p, true, os.WriteFile(p, []byte("x\n"), 0o644)
		}
		return p, true, os.Mkdir(p, 0o755)
	case "garbage":
		if output || form.Kind == "dir" || form.Kind == "proto" {
			// garbage in a .proto file is a syntax error, i.e. a problem in the user's sources
			return "", false, nil
		}
		return p, true, os.WriteFile(p, garbage, 0o644)
	}
	panic(state)
}

// resFixtures are good resources of every form, built once: the clean workspace and a planted one
// (L1 + K1 + U1: one lint, one breaking, one unformatted problem; it compiles).
type resFixtures struct {
	dir      map[string]string            // workspace name -> directory
	byForm   map[string]map[string]string // workspace name -> form ID -> path
	files    map[string]map[string]string // workspace name -> files
	planted  []int
	plantIDs []string
}

func writeTar(path string, files map[string]string, gz bool) error {
	var buf bytes.Buffer
	tw := tar.NewWriter(&buf)
	for _, name := range bufx.SortedKeys(files) {
		if err := tw.WriteHeader(&tar.Header{Name: name, Mode: 0o644, Size: int64(len(files[name])), Typeflag: tar.TypeReg}); err != nil {
			return err
		}
		if _, err := tw.Write([]byte(files[name])); err != nil {
			return err
		}
	}
	if err := tw.Close(); err != nil {
		return err
	}
	data := buf.Bytes()
	if gz {
		var z bytes.Buffer
		zw := gzip.NewWriter(&z)
		if _, err := zw.Write(data); err != nil {
			return err
		}
		if err := zw.Close(); err != nil {
			return err
		}
		data = z.Bytes()
	}
	return os.WriteFile(path, data, 0o644)
}

func writeZip(path string, files map[string]string) error {
	var buf bytes.Buffer
	zw := zip.NewWriter(&buf)
	for _, name := range bufx.SortedKeys(files) {
		w, err := zw.Create(name)
		if err != nil {
			return err
		}
		if _, err := w.Write([]byte(files[name])); err != nil {
			return err
		}
	}
	if err := zw.Close(); err != nil {
		return err
	}
	return os.WriteFile(path, buf.Bytes(), 0o644)
}

func buildResFixtures(ctx context.Context, r *evid.Run, scratch string) *resFixtures {
	index := map[string]int{}
	for i, p := range plants {
		index[p.ID] = i
	}
	fx := &resFixtures{dir: map[string]string{}, byForm: map[string]map[string]string{}, files: map[string]map[string]string{}}
	fx.planted = []int{index["L1"], index["K1"], index["U1"]}
	sort.Ints(fx.planted)
	fx.plantIDs = plantIDs(fx.planted)
	for _, ws := range []string{"clean", "planted"} {
		var set []int
		if ws == "planted" {
			set = fx.planted
		}
		files, _ := render(set)
		base := filepath.Join(scratch, "fx", ws)
		dir := filepath.Join(base, "ws")
		if err := writeFiles(dir, files); err != nil {
			r.Incomplete("scratch: " + err.Error())
			return nil
		}
		fx.dir[ws] = dir
		fx.files[ws] = files
		fx.byForm[ws] = map[string]string{}
		for _, form := range resForms {
			p := filepath.Join(base, "res"+form.Ext)
			switch form.Kind {
			case "dir":
				p = dir
			case "proto":
				p = filepath.Join(dir, "a/v1/a.proto")
			case "image":
				res, timedOut := runBuf(ctx, []string{"build", dir, "-o", p + form.Option})
				if timedOut {
					r.Incomplete("a CLI run was cut by a deadline (machine load) while building the resource fixtures")
					return nil
				}
				if info, err := os.Stat(p); res.ExitCode != 0 || err != nil || info.Size() == 0 {
					r.Violate("cli/exit-status/build-o/want-0-got-"+fmt.Sprint(res.ExitCode), "buf build -o "+form.ID+" of a workspace that compiles does not produce the image",
						cliCase{Workspace: plantIDs(set), Dir: "ws", Files: files, Command: "build-o", Args: []string{"build", dir, "-o", p + form.Option}, Exit: res.ExitCode, Stdout: res.Stdout, Stderr: res.Stderr})
					return nil
				}
			case "archive":
				var err error
				switch form.ID {
				case "zip":
					err = writeZip(p, files)
				case "tar.gz":
					err = writeTar(p, files, true)
				default:
					err = writeTar(p, files, false)
				}
				if err != nil {
					r.Incomplete("scratch: " + err.Error())
					return nil
				}
			}
			fx.byForm[ws][form.ID] = p
		}
	}
	return fx
}

// resJob is one cell: the resource in one role, form and state, for one command on one workspace.
type resJob struct {
	Role  string // input | against | output | config | against-config | path | exclude-path
	Form  resForm
	State resState
	Cmd   string
	WS    string // clean | planted: the workspace whose sources are judged (for role input with state ok: the fixture's workspace)
}

type resCase struct {
	Role      string   `json:"resource_role"`
	Form      string   `json:"reference_form"`
	State     string   `json:"resource_state"`
	Workspace []string `json:"planted"`
	Command   string   `json:"command"`
	Args      []string `json:"args"`
	Format    string   `json:"format"`
	Exit      int      `json:"exit"`
	Stdout    string   `json:"stdout"`
	Stderr    string   `json:"stderr"`
	Demand    string   `json:"demand"`
}

type resStats struct {
	runs, control, mustFail, mayFail, either                      atomic.Int64
	exit0, exit100, exitOther                                     atomic.Int64
	controlReported, outputSucceeded, sourceProblemBeforeResource atomic.Int64
	mu                                                            sync.Mutex
	perRoleClass                                                  map[string]int
	perForm                                                       map[string]int
}

func (st *resStats) count(roleClass, form string) {
	st.mu.Lock()
	if st.perRoleClass == nil {
		st.perRoleClass, st.perForm = map[string]int{}, map[string]int{}
	}
	st.perRoleClass[roleClass]++
	st.perForm[form]++
	st.mu.Unlock()
}

func resJobs(quick bool) []resJob {
	var jobs []resJob
	formByID := map[string]resForm{}
	for _, f := range resForms {
		formByID[f.ID] = f
	}
	workspaces := []string{"clean", "planted"}
	for _, st := range resStates {
		for _, form := range resForms {
			// the input itself
			for _, cmd := range []string{"build", "lint", "breaking", "format", "format-d"} {
				if cmd == "format-d" && quick && form.Kind != "dir" && form.Kind != "proto" {
					continue
				}
				for _, ws := range workspaces {
					if st.ID != "ok" && ws == "planted" {
						continue // there is no workspace behind an unusable input
					}
					if st.ID == "ok" && isFormatCommand(cmd) && form.Kind == "image" && ws == "planted" {
						continue // `buf format` rejects every image: one run is enough
					}
					jobs = append(jobs, resJob{Role: "input", Form: form, State: st, Cmd: cmd, WS: ws})
				}
			}
			// the --against input
			for _, ws := range workspaces {
				jobs = append(jobs, resJob{Role: "against", Form: form, State: st, Cmd: "breaking", WS: ws})
			}
		}
		// the location -o writes to
		for _, form := range resForms {
			var cmds []string
			switch {
			case form.Kind == "image":
				cmds = []string{"build-o"}
			case form.Kind == "dir" || form.Kind == "proto":
				cmds = []string{"format-o", "format-do"}
			}
			for _, cmd := range cmds {
				for _, ws := range workspaces {
					jobs = append(jobs, resJob{Role: "output", Form: form, State: st, Cmd: cmd, WS: ws})
				}
			}
		}
		// configuration files
		cfg := resForm{ID: "buf.yaml", Kind: "config", Ext: ".yaml"}
		for _, ws := range workspaces {
			for _, cmd := range []string{"build", "lint", "breaking", "format"} {
				jobs = append(jobs, resJob{Role: "config", Form: cfg, State: st, Cmd: cmd, WS: ws})
			}
			jobs = append(jobs, resJob{Role: "against-config", Form: cfg, State: st, Cmd: "breaking", WS: ws})
		}
		// path filters (breaking is not run: the in-process CLI cannot change its working directory and an absolute
		// --path is outside the --against input)
		if st.ID != "garbage" && st.ID != "wrong-type" {
			for _, role := range []string{"path", "exclude-path"} {
				for _, ws := range workspaces {
					for _, cmd := range []string{"build", "lint", "format"} {
						jobs = append(jobs, resJob{Role: role, Form: formByID["dir"], State: st, Cmd: cmd, WS: ws})
					}
				}
			}
		}
	}
	return jobs
}

// demand of the model for one cell:
//
//	control   the resource is fine: the plant model of the workspace applies
//	must-fail the command cannot do its job without the resource: non-zero, not 100
//	may-fail  buf may legitimately cope (create the missing directory, ignore a filter that selects nothing):
//	          not 100; 0 only with nothing printed (and, for an output, with the output in place)
//	either    the workspace has a source problem this command reports whatever the resource's state:
//	          100 with annotations (or a difference) or an operational status
func (j resJob) demand() (kind string, want expectation) {
	var set []int
	if j.WS == "planted" {
		set = resPlanted
	}
	want = expect(set, j.Cmd, shapes[0], "single")
	if j.Role == "input" && j.Form.Kind == "proto" {
		want = expect(set, j.Cmd, shapes[1], "single") // a.proto as a file reference
	}
	if j.State.ID == "ok" {
		if isFormatCommand(j.Cmd) && j.Role == "input" && (j.Form.Kind == "image") {
			return "must-fail", want // `buf format` works on sources only
		}
		return "control", want
	}
	sourceProblem := want.Exit == 100
	switch j.Role {
	case "input":
		return "must-fail", want
	case "against":
		// a breaking change is a statement about two inputs: without the second one there is nothing to print
		return "must-fail", want
	case "config", "against-config":
		return "must-fail", want
	case "output":
		if sourceProblem {
			return "either", want
		}
		return "may-fail", want
	default: // path, exclude-path
		if sourceProblem {
			return "either", want
		}
		return "may-fail", want
	}
}

// resPlanted is set once by cliResources before the jobs run (read-only afterwards).
var resPlanted []int

func cliResources(ctx context.Context, r *evid.Run, scratch string) *resStats {
	st := &resStats{}
	fx := buildResFixtures(ctx, r, scratch)
	if fx == nil {
		return st
	}
	resPlanted = fx.planted
	jobs := resJobs(r.Quick())
	fmts := formats
	if r.Quick() {
		fmts = []string{"text", "json"}
	}
	var formIDs, stateIDs []string
	for _, f := range resForms {
		formIDs = append(formIDs, f.ID)
	}
	for _, s := range resStates {
		stateIDs = append(stateIDs, s.ID)
	}
	r.Set("B3_resource_roles", []string{"input", "against", "output", "config", "against-config", "path", "exclude-path"})
	r.Set("B3_reference_forms", formIDs)
	r.Set("B3_resource_states", stateIDs)
	r.Set("B3_cells", len(jobs))
	r.ParallelFor(len(jobs), 0, func(i int) {
		runResJob(ctx, r, st, fx, filepath.Join(scratch, fmt.Sprintf("res%d", i)), jobs[i], fmts)
	})
	return st
}

func runResJob(ctx context.Context, r *evid.Run, st *resStats, fx *resFixtures, root string, j resJob, fmts []string) {
	defer os.RemoveAll(root)
	output := j.Role == "output"
	var fixture string
	switch j.Role {
	case "input":
		fixture = fx.byForm[j.WS][j.Form.ID]
	case "against":
		fixture = fx.byForm["clean"][j.Form.ID]
	case "config", "against-config":
		fixture = filepath.Join(fx.dir["clean"], "buf.yaml")
	}
	var p string
	var ok bool
	var err error
	if j.Role == "path" || j.Role == "exclude-path" {
		// the filter names something below the input directory; the workspace is copied so that the probe
		// files of one cell are not seen by another
		ws := filepath.Join(root, "ws")
		if err := writeFiles(ws, fx.files[j.WS]); err != nil {
			r.Incomplete("scratch: " + err.Error())
			return
		}
		switch j.State.ID {
		case "ok":
			p, ok = filepath.Join(ws, "a/v1"), true
			if j.Role == "exclude-path" {
				p = filepath.Join(ws, "b/v1")
			}
		case "missing":
			p, ok = filepath.Join(ws, "a/v1/nope.proto"), true
		case "missing-parent":
			p, ok = filepath.Join(ws, "nodir/v1/nope.proto"), true
		case "parent-is-file":
			p, ok = filepath.Join(ws, "a/v1/a.proto/nope.proto"), true
		case "dangling-symlink":
			p, ok = filepath.Join(ws, "c/v1"), true
			err = os.Symlink(filepath.Join(root, "nothing"), filepath.Join(ws, "c"))
		case "symlink-loop":
			p, ok = filepath.Join(ws, "c/v1"), true
			err = os.Symlink(filepath.Join(ws, "c"), filepath.Join(ws, "c"))
		}
	} else {
		p, ok, err = place(filepath.Join(root, "r"), j.Form, j.State.ID, fixture, output)
	}
	if err != nil {
		r.Incomplete("scratch: " + err.Error())
		return
	}
	if !ok {
		return
	}
	ref := p
	if j.Role == "input" || j.Role == "against" || (output && j.Form.Kind == "image") {
		ref += j.Form.Option
	}
	// the command line
	wsDir := fx.dir[j.WS]
	sp := inputSpec{in: wsDir, against: fx.dir["clean"], out: filepath.Join(root, "unused-out")}
	var extra []string
	switch j.Role {
	case "input":
		sp.in = ref
		switch j.Form.Kind {
		case "proto":
			// as in part B1, both sides of `buf breaking` are given in the same shape
			sp.against = fx.byForm["clean"]["proto"]
		case "image":
			// an image carries no buf.yaml: name the workspace's one, so that the verdict does not depend on the
			// working directory of the process
			if j.Cmd == "lint" || j.Cmd == "breaking" {
				extra = []string{"--config", filepath.Join(fx.dir["clean"], "buf.yaml")}
			}
		}
	case "against":
		sp.against = ref
	case "output":
		sp.out = ref
		if j.Form.Kind == "proto" {
			sp.in = filepath.Join(wsDir, "a/v1/a.proto")
		}
	case "config":
		extra = []string{"--config", ref}
	case "against-config":
		extra = []string{"--against-config", ref}
	case "path":
		sp.in = filepath.Join(root, "ws")
		extra = []string{"--path", ref}
	case "exclude-path":
		sp.in = filepath.Join(root, "ws")
		extra = []string{"--exclude-path", ref}
	}
	kind, want := j.demand()
	if j.Role == "path" && j.State.ID == "ok" {
		want = expect(setOf(j.WS), j.Cmd, shapes[3], "single") // dir --path a/v1
	}
	if j.Role == "exclude-path" && j.State.ID == "ok" {
		// everything but b/v1 is targeted: for the plants used here (all in a.proto) the same as the whole directory
		want = expect(setOf(j.WS), j.Cmd, shapes[0], "single")
	}
	var ids []string
	if j.WS == "planted" {
		ids = fx.plantIDs
	}
	r.Distinct("Bres|" + j.Role + "|" + j.Form.ID + "|" + j.State.ID + "|" + j.Cmd + "|" + j.WS)
	sigBase := "cli/operational/" + j.Role + "-" + j.State.Class + "/" + j.Cmd
	for _, format := range fmts {
		if output {
			os.RemoveAll(filepath.Join(root, "unused-out"))
			if j.State.ID == "ok" {
				os.RemoveAll(p)
			}
		}
		args := append(argsForSpec(j.Cmd, sp, format), extra...)
		res, timedOut := runBuf(ctx, args)
		if timedOut {
			r.Incomplete("a CLI run was cut by a deadline (machine load); that resource cell was not judged")
			return
		}
		r.Eval(1)
		st.runs.Add(1)
		st.count(j.Role+"/"+j.State.Class, j.Form.ID)
		switch res.ExitCode {
		case 0:
			st.exit0.Add(1)
		case 100:
			st.exit100.Add(1)
		default:
			st.exitOther.Add(1)
		}
		c := resCase{Role: j.Role, Form: j.Form.ID, State: j.State.ID, Workspace: ids, Command: j.Cmd, Args: args, Format: format,
			Exit: res.ExitCode, Stdout: res.Stdout, Stderr: res.Stderr, Demand: kind}
		// where the command prints what it found in the sources
		diag, other := res.Stdout, res.Stderr
		if j.Cmd == "build" || j.Cmd == "build-o" {
			diag, other = res.Stderr, res.Stdout
		}
		// what exit 100 claims must be visible: annotations in the requested format (checked on json, which is
		// self-describing), or the difference `buf format` found
		claimShown := func() bool {
			if isFormatCommand(j.Cmd) {
				return true // a difference: judged by part B1 for every output mode; here only the status class matters
			}
			if diag == "" {
				return false
			}
			if format == "json" {
				ps, err := parseJSON(diag)
				return err == nil && len(ps) > 0
			}
			return true
		}
		outputInPlace := func() bool {
			info, err := os.Stat(p)
			return err == nil && (info.IsDir() || info.Size() > 0)
		}
		switch kind {
		case "control":
			st.control.Add(1)
			if want.Exit >= 0 && res.ExitCode != want.Exit {
				r.Violate(fmt.Sprintf("cli/exit-status/%s/want-%d-got-%d", j.Cmd, want.Exit, res.ExitCode),
					fmt.Sprintf("buf %s with the %s given as %s (a good one) on workspace %v exits %d, the plant model says %d", j.Cmd, j.Role, j.Form.ID, ids, res.ExitCode, want.Exit), c)
				continue
			}
			switch res.ExitCode {
			case 0:
				printed := res.Stderr != "" || res.Stdout != "" && j.Cmd != "format"
				if printed {
					r.Violate("cli/exit-0-but-output/"+j.Cmd, fmt.Sprintf("buf %s exits 0 but printed something", j.Cmd), c)
				}
				if output && !outputInPlace() {
					r.Violate("cli/exit-0-but-no-output/"+j.Cmd, fmt.Sprintf("buf %s exits 0 but the output location is empty", j.Cmd), c)
				}
				if output {
					st.outputSucceeded.Add(1)
				}
			case 100:
				st.controlReported.Add(1)
				if !claimShown() {
					r.Violate("cli/exit-100-nothing-printed/"+j.Cmd, fmt.Sprintf("buf %s exits 100 but printed no annotation", j.Cmd), c)
				}
				if !isFormatCommand(j.Cmd) && other != "" {
					r.Violate("cli/exit-100-extra-output/"+j.Cmd, fmt.Sprintf("buf %s exits 100 and printed outside the annotation stream: %q", j.Cmd, other), c)
				}
				if !isFormatCommand(j.Cmd) && format == "json" && !want.CompileOnly {
					ps, _ := parseJSON(diag)
					var types []string
					for _, a := range ps {
						types = append(types, a.Type)
					}
					sort.Strings(types)
					if strings.Join(types, ",") != strings.Join(want.Rules, ",") {
						r.Violate("cli/plant-model/"+j.Cmd+"/rule-ids", fmt.Sprintf("buf %s (%s given as %s) reports rule IDs %v, planted %v", j.Cmd, j.Role, j.Form.ID, types, want.Rules), c)
					}
				}
			}
		case "must-fail", "may-fail", "either":
			switch kind {
			case "must-fail":
				st.mustFail.Add(1)
			case "may-fail":
				st.mayFail.Add(1)
			default:
				st.either.Add(1)
			}
			what := fmt.Sprintf("the %s (given as %s) is unusable (%s)", j.Role, j.Form.ID, j.State.ID)
			switch {
			case res.ExitCode == 100 && kind == "either":
				st.sourceProblemBeforeResource.Add(1)
				if !claimShown() {
					r.Violate("cli/exit-100-nothing-printed/"+j.Cmd, fmt.Sprintf("%s and the workspace has a source problem: buf %s exits 100 but printed no annotation", what, j.Cmd), c)
				}
			case res.ExitCode == 100:
				r.Violate(sigBase+"/exit-100", fmt.Sprintf("%s, which is not a problem in the user's sources (workspace planted with %v): buf %s exits 100 (must be non-zero and not 100)", what, ids, j.Cmd), c)
			case res.ExitCode == 0 && kind == "either" && output:
				r.Violate(fmt.Sprintf("cli/exit-status/%s/want-100-got-0", j.Cmd), fmt.Sprintf("%s and the workspace has a source problem (%v): buf %s exits 0", what, ids, j.Cmd), c)
			case res.ExitCode == 0 && kind == "must-fail":
				r.Violate(sigBase+"/exit-0", fmt.Sprintf("%s: buf %s exits 0 although it cannot have done its job", what, j.Cmd), c)
			case res.ExitCode == 0:
				if res.Stderr != "" || res.Stdout != "" && j.Cmd != "format" {
					r.Violate("cli/exit-0-but-output/"+j.Cmd, fmt.Sprintf("%s: buf %s exits 0 but printed something", what, j.Cmd), c)
				}
				if output && !outputInPlace() {
					r.Violate("cli/exit-0-but-no-output/"+j.Cmd, fmt.Sprintf("%s: buf %s exits 0 but the output location is empty", what, j.Cmd), c)
				}
				if output {
					st.outputSucceeded.Add(1)
				}
			default:
				if res.Stderr == "" {
					r.Violate("cli/error-exit-without-message/"+j.Cmd, fmt.Sprintf("%s: buf %s exits %d without a message", what, j.Cmd, res.ExitCode), c)
				}
				// (with a source problem in play, `buf format -d` may have printed its diff before the output failed)
				if res.Stdout != "" && j.Cmd != "build" && j.Cmd != "build-o" && kind != "either" {
					r.Violate("cli/error-exit-with-annotations/"+j.Cmd, fmt.Sprintf("%s: buf %s exits %d but printed to stdout", what, j.Cmd, res.ExitCode), c)
				}
			}
		}
	}
}

func setOf(ws string) []int {
	if ws == "planted" {
		return resPlanted
	}
	return nil
}
