package c20

// Part B: the in-process CLI (`buf build|lint|breaking|format`) on scratch workspaces with planted
// problems and on operational errors. Dimensions: planted set x input shape (how the input is referenced)
// x workspace layout x command (including the switches that select where build/format send their result)
// x --error-format.
//
// The reference model is the plant table below (what each planted problem must make each command
// report), independent of buf; the renderings of one (workspace, command) in the five formats are
// compared with each other through the refannot parsers.

import (
	"context"
	"fmt"
	"os"
	"path/filepath"
	"regexp"
	"sort"
	"strings"
	"sync"
	"sync/atomic"

	"github.com/bufbuild/bufverif/internal/bufx"
	"github.com/bufbuild/bufverif/internal/enum"
	"github.com/bufbuild/bufverif/internal/evid"
)

const bufYAML = `version: v2
lint:
  use:
    - STANDARD
breaking:
  use:
    - FILE
`

// plant is one planted problem.
type plant struct {
	ID       string
	Kind     string // lint | breaking | compile | unformatted
	Rule     string // expected rule ID for lint / breaking plants
	File     string // a | b | "" (file the plant edits)
	NoFile   bool   // the expected annotation has no file (FILE_NO_DELETE)
	Syntax   bool   // a syntax error: `buf format` cannot parse the file
	DeletesB bool
	// Prescan: the syntax error sits in a package or import statement, i.e. in the part of a file that buf
	// reads with its own scanner (before and apart from the compiler) whenever it needs the package or the
	// imports of a file it does not compile, e.g. every file of the module for a .proto file reference with
	// include_package_files=true.
	Prescan bool
	// Variant (Kind unformatted): which formatting difference the plant puts into its file; "" is the
	// original one (additional blanks between two tokens of a message declaration). See formatVariants.
	Variant string
}

var plants = []plant{
	{ID: "L1", Kind: "lint", Rule: "MESSAGE_PASCAL_CASE", File: "a"},
	{ID: "L2", Kind: "lint", Rule: "FIELD_LOWER_SNAKE_CASE", File: "b"},
	{ID: "L3", Kind: "lint", Rule: "ENUM_ZERO_VALUE_SUFFIX", File: "a"},
	{ID: "K1", Kind: "breaking", Rule: "FIELD_NO_DELETE", File: "a"},
	{ID: "K2", Kind: "breaking", Rule: "FIELD_SAME_TYPE", File: "a"},
	{ID: "K3", Kind: "breaking", Rule: "FILE_NO_DELETE", NoFile: true, DeletesB: true},
	{ID: "C1", Kind: "compile", File: "a"},
	{ID: "C2", Kind: "compile", File: "b", Syntax: true},
	{ID: "M1", Kind: "compile", File: "b"},
	{ID: "U1", Kind: "unformatted", File: "a"},
	{ID: "U2", Kind: "unformatted", File: "b"},
	// appended (the indices of the plants above are part of evidence files)
	{ID: "S1", Kind: "compile", File: "b", Syntax: true, Prescan: true},  // malformed package statement
	{ID: "S2", Kind: "compile", File: "b", Syntax: true, Prescan: true},  // malformed import statement
	{ID: "S3", Kind: "compile", File: "a2", Syntax: true, Prescan: true}, // an additional file next to a.proto with a malformed package statement
}

// nCorePlants: the plants above are combined with each other in every subset; the formatting variants that
// init appends behind them (one plant per variant and file) are a dimension of their own (see cliPlanted).
const nCorePlants = 14

// formatVariant is one way in which a file can differ from its formatted form: where the difference lies
// (first byte, inside a line, between two declarations, last byte, behind the last line) and what it is made of
// (blanks, tabs, line terminators, an empty statement). Every edit is defined on any file text, so a
// variant combines with every other plant.
type formatVariant struct {
	ID   string
	Edit func(text string) string
}

func replaceFirst(text, old, new string) string { return strings.Replace(text, old, new, 1) }

var formatVariants = []formatVariant{
	{"eof-no-newline", func(t string) string { return strings.TrimSuffix(t, "\n") }},
	{"eof-blank-line", func(t string) string { return t + "\n" }},
	{"eof-blank-lines", func(t string) string { return t + "\n\n\n" }},
	{"eof-spaces", func(t string) string { return t + "  " }},
	{"bof-blank-line", func(t string) string { return "\n" + t }},
	{"line-trailing-space", func(t string) string { return replaceFirst(t, ";\n", "; \n") }},
	{"tab-indent", func(t string) string { return replaceFirst(t, "\n  ", "\n\t") }},
	{"crlf", func(t string) string { return strings.ReplaceAll(t, "\n", "\r\n") }},
	{"extra-blank-line-inside", func(t string) string { return replaceFirst(t, "\n\n", "\n\n\n") }},
	{"empty-statement", func(t string) string { return replaceFirst(t, ";\n", ";;\n") }},
}

func init() {
	for _, file := range []string{"a", "b"} {
		for _, v := range formatVariants {
			plants = append(plants, plant{ID: "U" + file + "-" + v.ID, Kind: "unformatted", File: file, Variant: v.ID})
		}
	}
}

func variantEdit(id string) func(string) string {
	for _, v := range formatVariants {
		if v.ID == id {
			return v.Edit
		}
	}
	panic(id)
}

// naming is how the .proto files of the workspace are called (their directories stay). The file name is part
// of every annotation, and formats derive fields from it (JUnit names a suite after the file without its
// .proto extension), so the relation between the stem and the extension is a dimension: stems ending in each
// letter of the extension, a stem that is the extension's word.
type naming struct {
	ID    string
	Paths map[string]string // a | a2 | b -> module-relative path
}

var namings = []naming{
	{ID: "default", Paths: logicalPath},
	{ID: "stems-end-in-t", Paths: map[string]string{"a": "a/v1/report.proto", "a2": "a/v1/export.proto", "b": "b/v1/import.proto"}},
	{ID: "stems-end-in-p-r", Paths: map[string]string{"a": "a/v1/atop.proto", "a2": "a/v1/app.proto", "b": "b/v1/bar.proto"}},
	{ID: "stems-end-in-o-or-are-proto", Paths: map[string]string{"a": "a/v1/foo.proto", "a2": "a/v1/auto.proto", "b": "b/v1/proto.proto"}},
}

func (job wsJob) naming() naming {
	if job.names.ID == "" {
		return namings[0]
	}
	return job.names
}

// logicalPath is the module-relative path of the files a plant can edit.
var logicalPath = map[string]string{"a": "a/v1/a.proto", "a2": "a/v1/a2.proto", "b": "b/v1/b.proto"}

// render writes the workspace files for a set of plants (indices into plants). ok=false: the
// combination is not meaningful (a plant edits the file another one deletes).
func render(set []int) (files map[string]string, ok bool) { return renderNamed(set, namings[0]) }

func renderNamed(set []int, nm naming) (files map[string]string, ok bool) {
	has := map[string]bool{}
	for _, i := range set {
		has[plants[i].ID] = true
	}
	if has["K3"] {
		for _, i := range set {
			if plants[i].File == "b" {
				return nil, false
			}
		}
	}
	var a strings.Builder
	a.WriteString("syntax = \"proto3\";\n\npackage a.v1;\n\n")
	if has["U1"] {
		a.WriteString("message   Foo {\n")
	} else {
		a.WriteString("message Foo {\n")
	}
	if has["K2"] {
		a.WriteString("  int32 x = 1;\n")
	} else {
		a.WriteString("  string x = 1;\n")
	}
	if !has["K1"] {
		a.WriteString("  string y = 2;\n")
	}
	if has["C1"] {
		a.WriteString("  Undefined u = 9;\n")
	}
	a.WriteString("}\n\nenum Kind {\n  KIND_UNSPECIFIED = 0;\n  KIND_ONE = 1;\n}\n")
	if has["L1"] {
		a.WriteString("\nmessage bad_name {}\n")
	}
	if has["L3"] {
		a.WriteString("\nenum Extra {\n  EXTRA_ONE = 0;\n}\n")
	}
	// the formatting variants edit the finished text of their file
	variants := func(file, text string) string {
		for _, i := range set {
			if p := plants[i]; p.Variant != "" && p.File == file {
				text = variantEdit(p.Variant)(text)
			}
		}
		return text
	}
	files = map[string]string{"buf.yaml": bufYAML, nm.Paths["a"]: variants("a", a.String())}
	if has["S3"] {
		files[nm.Paths["a2"]] = "syntax = \"proto3\";\n\npackage a..v1;\n\nmessage Sibling {}\n"
	}
	if !has["K3"] {
		var b strings.Builder
		if has["S1"] {
			b.WriteString("syntax = \"proto3\";\n\npackage b..v1;\n\nimport \"" + nm.Paths["a"] + "\";\n")
		} else {
			b.WriteString("syntax = \"proto3\";\n\npackage b.v1;\n\nimport \"" + nm.Paths["a"] + "\";\n")
		}
		if has["S2"] {
			b.WriteString("import nope;\n")
		}
		if has["M1"] {
			b.WriteString("import \"nope/nope.proto\";\n")
		}
		if has["U2"] {
			b.WriteString("\nmessage   Bar {\n")
		} else {
			b.WriteString("\nmessage Bar {\n")
		}
		b.WriteString("  a.v1.Foo foo = 1;\n  string name = 2;\n")
		if has["L2"] {
			b.WriteString("  string BadField = 3;\n")
		}
		b.WriteString("}\n")
		if has["C2"] {
			b.WriteString("\nmessage Open {\n")
		}
		files[nm.Paths["b"]] = variants("b", b.String())
	}
	return files, true
}

func writeFiles(dir string, files map[string]string) error {
	for p, text := range files {
		full := filepath.Join(dir, filepath.FromSlash(p))
		if err := os.MkdirAll(filepath.Dir(full), 0o755); err != nil {
			return err
		}
		if err := os.WriteFile(full, []byte(text), 0o644); err != nil {
			return err
		}
	}
	return nil
}

// ---- input shapes and workspace layouts ----

// shape is the form of the input reference a command is given.
type shape struct {
	ID     string // dir | file-a | file-a+ | path-a | file-b | file-b+ | path-b
	Kind   string // dir | file | pkgfiles (file reference with include_package_files=true) | path (directory + --path)
	Target string // "" | a | b: the file (path: its directory) the reference names
}

var shapes = []shape{
	{ID: "dir", Kind: "dir"},
	{ID: "file-a", Kind: "file", Target: "a"},
	{ID: "file-a+", Kind: "pkgfiles", Target: "a"},
	{ID: "path-a", Kind: "path", Target: "a"},
	{ID: "file-b", Kind: "file", Target: "b"},
	{ID: "file-b+", Kind: "pkgfiles", Target: "b"},
	{ID: "path-b", Kind: "path", Target: "b"},
}

// layouts: "single" is one module at the workspace root; "multi" is a v2 workspace of two modules
// (moda holds a/v1/*, modb holds b/v1/*; b.proto imports a.proto across the module boundary).
var layouts = []string{"single", "multi"}

func physical(layout, p string) string {
	if layout == "multi" && p != "buf.yaml" {
		return "mod" + p[:1] + "/" + p
	}
	return p
}

func layoutFiles(layout string, files map[string]string) map[string]string {
	out := make(map[string]string, len(files))
	for p, text := range files {
		if p == "buf.yaml" && layout == "multi" {
			text = strings.Replace(text, "version: v2\n", "version: v2\nmodules:\n  - path: moda\n  - path: modb\n", 1)
		}
		out[physical(layout, p)] = text
	}
	return out
}

// input returns the positional input and the extra flags that express the shape for the workspace at root.
func (sh shape) input(layout, root string, nm naming) (in string, extra []string) {
	switch sh.Kind {
	case "dir":
		return root, nil
	case "file":
		return filepath.Join(root, physical(layout, nm.Paths[sh.Target])), nil
	case "pkgfiles":
		return filepath.Join(root, physical(layout, nm.Paths[sh.Target])) + "#include_package_files=true", nil
	case "path":
		return root, []string{"--path", filepath.Join(root, filepath.Dir(physical(layout, nm.Paths[sh.Target])))}
	}
	panic(sh.Kind)
}

// scope of a shape, as sets of plant file keys (a, a2, b):
//
//	targets   the files the reference selects: what lint, breaking and format work on
//	compiled  targets plus what they import (b.proto imports a.proto): what the compiler reads
//	scanned   for include_package_files=true, every file of the target's module has its package
//	          statement read to decide whether it belongs to the target's package
func (sh shape) scope(layout string) (targets, compiled, scanned map[string]bool) {
	switch {
	case sh.Kind == "dir":
		targets = map[string]bool{"a": true, "a2": true, "b": true}
	case sh.Target == "a" && sh.Kind == "path":
		targets = map[string]bool{"a": true, "a2": true}
	case sh.Target == "a":
		targets = map[string]bool{"a": true}
	default:
		targets = map[string]bool{"b": true}
	}
	compiled = map[string]bool{}
	for f := range targets {
		compiled[f] = true
	}
	if targets["b"] {
		compiled["a"] = true
	}
	scanned = map[string]bool{}
	if sh.Kind == "pkgfiles" {
		switch {
		case layout == "single":
			scanned = map[string]bool{"a": true, "a2": true, "b": true}
		case sh.Target == "a":
			scanned = map[string]bool{"a": true, "a2": true}
		default:
			scanned = map[string]bool{"b": true}
		}
	}
	return targets, compiled, scanned
}

// expectation of the plant model for one command
type expectation struct {
	Exit        int      // 0 | 100 | -1 (= any non-zero: `buf format` on a file it cannot parse)
	CompileOnly bool     // every annotation must have type COMPILE
	Rules       []string // else: sorted multiset of expected rule IDs (nil when Exit != 100)
	ViaScanOnly bool     // the only source problem in scope is one outside what the compiler reads (package scan)
}

func isFormatCommand(cmd string) bool { return strings.HasPrefix(cmd, "format") }

func expect(set []int, cmd string, sh shape, layout string) expectation {
	targets, compiled, scanned := sh.scope(layout)
	var compile, viaCompiler, syntax, unformatted bool
	var lintRules, breakingRules []string
	for _, i := range set {
		p := plants[i]
		switch p.Kind {
		case "compile":
			if compiled[p.File] {
				compile, viaCompiler = true, true
			} else if p.Prescan && scanned[p.File] {
				compile = true
			}
			if p.Syntax && targets[p.File] {
				syntax = true
			}
		case "lint":
			if targets[p.File] {
				lintRules = append(lintRules, p.Rule)
			}
		case "breaking":
			// `buf breaking` also judges the files the targets import (it has a switch, --exclude-imports, to turn that off)
			if p.NoFile && sh.Kind == "dir" || !p.NoFile && compiled[p.File] {
				breakingRules = append(breakingRules, p.Rule)
			}
		case "unformatted":
			if targets[p.File] {
				unformatted = true
			}
		}
	}
	sort.Strings(lintRules)
	sort.Strings(breakingRules)
	switch {
	case cmd == "build" || cmd == "build-o" || cmd == "lint" || cmd == "breaking":
		if compile {
			return expectation{Exit: 100, CompileOnly: true, ViaScanOnly: !viaCompiler}
		}
		rules := lintRules
		if cmd == "breaking" {
			rules = breakingRules
		}
		if cmd == "build" || cmd == "build-o" || len(rules) == 0 {
			return expectation{Exit: 0}
		}
		return expectation{Exit: 100, Rules: rules}
	case isFormatCommand(cmd):
		if syntax {
			return expectation{Exit: -1}
		}
		if unformatted {
			return expectation{Exit: 100}
		}
		return expectation{Exit: 0}
	}
	panic(cmd)
}

type cliCase struct {
	Workspace []string          `json:"planted"`
	Dir       string            `json:"dir_name"`
	Shape     string            `json:"input_shape,omitempty"`
	Layout    string            `json:"layout,omitempty"`
	Naming    string            `json:"file_naming,omitempty"`
	Files     map[string]string `json:"files,omitempty"`
	Command   string            `json:"command"`
	Args      []string          `json:"args"`
	Format    string            `json:"format"`
	Exit      int               `json:"exit"`
	Stdout    string            `json:"stdout"`
	Stderr    string            `json:"stderr"`
	Note      string            `json:"note,omitempty"`
}

type cliStats struct {
	runs, workspaces                          atomic.Int64
	exit0, exit100, exitOther                 atomic.Int64
	annotationsCompared                       atomic.Int64
	noFileAnnotations                         atomic.Int64
	formatDiff, formatClean, formatParseError atomic.Int64
	configIgnoreYAML, configIgnoreYAMLCompile atomic.Int64
	opRuns                                    atomic.Int64
	byPlanted                                 [4]atomic.Int64
	mu                                        sync.Mutex
	perCmdFormat                              map[string]int
	perShapeLayout                            map[string]int
	f7, timedOut                              atomic.Int64
	lineGrammarSkipped                        atomic.Int64
	viaScanOnly                               atomic.Int64 // runs on a workspace whose only source problem in scope is one that only the package scan can see
	formatRewrote, formatWroteOutput          atomic.Int64 // -w runs that changed the sources / -o runs whose output differs from the sources
	formatModesCompared                       atomic.Int64
	formatConcatHides                         atomic.Int64 // workspaces where the concatenation of the sources equals that of the formatted files although files differ
	buildOutputWritten                        atomic.Int64
	perNaming                                 map[string]int // workspaces per file naming
	perNamingJUnit                            map[string]int // annotations with a file whose junit rendering was compared with json, per file naming
	perVariant                                map[string]int // format -w runs that rewrote the sources of a workspace whose only planted problem is this formatting variant
}

func bump(mu *sync.Mutex, m *map[string]int, key string) {
	mu.Lock()
	if *m == nil {
		*m = map[string]int{}
	}
	(*m)[key]++
	mu.Unlock()
}

func (st *cliStats) countNaming(id string)      { bump(&st.mu, &st.perNaming, id) }
func (st *cliStats) countJUnitNaming(id string) { bump(&st.mu, &st.perNamingJUnit, id) }
func (st *cliStats) countVariant(id string) {
	if id == "" {
		id = "blanks-between-tokens"
	}
	bump(&st.mu, &st.perVariant, id)
}

func (st *cliStats) count(key string) {
	st.mu.Lock()
	if st.perCmdFormat == nil {
		st.perCmdFormat = map[string]int{}
	}
	st.perCmdFormat[key]++
	st.mu.Unlock()
}

func (st *cliStats) countShape(key string) {
	st.mu.Lock()
	if st.perShapeLayout == nil {
		st.perShapeLayout = map[string]int{}
	}
	st.perShapeLayout[key]++
	st.mu.Unlock()
}

// diffStamp matches the temp-file mtime that the external diff prints after the file name in ---/+++ headers.
var diffStamp = regexp.MustCompile(`(?m)\t[0-9]{4}-[0-9]{2}-[0-9]{2} [0-9]{2}:[0-9]{2}:[0-9]{2}\.[0-9]+ [+-][0-9]{4}$`)

type wsJob struct {
	set     []int
	dirName string
	shape   shape
	layout  string
	// names: how the .proto files are called (zero value: the default naming)
	names naming
	// formatOnly: run only `buf format --exit-code` in its six output modes
	formatOnly bool
}

func plantIDs(set []int) []string {
	ids := make([]string, len(set))
	for i, p := range set {
		ids[i] = plants[p].ID
	}
	return ids
}

// inputSpec is what a command line is built from: the input, the flags that belong to the input's shape,
// the --against input and the location -o writes to.
type inputSpec struct {
	in      string
	extra   []string
	against string
	out     string
}

func argsForSpec(cmd string, sp inputSpec, format string) []string {
	with := func(name string, flags ...string) []string {
		args := append([]string{name, sp.in}, sp.extra...)
		args = append(args, flags...)
		return append(args, "--error-format", format)
	}
	switch cmd {
	case "build":
		return with("build")
	case "build-o":
		return with("build", "-o", sp.out)
	case "lint":
		return with("lint")
	case "breaking":
		return with("breaking", "--against", sp.against)
	case "format":
		return with("format", "--exit-code")
	case "format-d":
		return with("format", "--exit-code", "-d")
	case "format-w":
		return with("format", "--exit-code", "-w")
	case "format-dw":
		return with("format", "--exit-code", "-d", "-w")
	case "format-o":
		return with("format", "--exit-code", "-o", sp.out)
	case "format-do":
		return with("format", "--exit-code", "-d", "-o", sp.out)
	}
	panic(cmd)
}

func argsFor(cmd, dir, against, format string) []string {
	return argsForSpec(cmd, inputSpec{in: dir, against: against, out: filepath.Join(filepath.Dir(dir), "out-"+cmd)}, format)
}

// commands are the commands of the property with the switches that select where `buf format` and `buf build`
// send their result (stdout, a diff, in place, an output location): the verdict must not depend on them.
var commands = []string{"build", "lint", "breaking", "format", "format-d"}
var outputModeCommands = []string{"build-o", "format-w", "format-dw", "format-o", "format-do"}

// runBuf runs the in-process CLI with buf's own --timeout switched off (0 = no timeout, see the global flag's
// help): the default of 2m would make the verdict depend on the load of the machine. timedOut reports a run
// that was nevertheless cut by a deadline; such a run is not an observation of buf's verdict.
func runBuf(ctx context.Context, args []string) (res bufx.CLIResult, timedOut bool) {
	res = bufx.RunCLI(ctx, nil, "", append(append([]string(nil), args...), "--timeout", "0")...)
	if res.ExitCode != 0 && (strings.Contains(res.Stderr, "context deadline exceeded") || strings.Contains(res.Stderr, "context canceled")) {
		return res, true
	}
	return res, false
}

// truthFromJSON turns the json rendering of a run into the truth the other formats are compared with.
func truthFromJSON(ps []parsed) []ann {
	out := make([]ann, len(ps))
	for i, p := range ps {
		a := ann{NoFile: p.Path == "", Path: p.Path, Type: p.Type, Msg: p.Msg, Plugin: p.Plugin, FromJSON: true}
		for _, f := range []struct {
			dst *int
			src *int
		}{{&a.SL, p.SL}, {&a.SC, p.SC}, {&a.EL, p.EL}, {&a.EC, p.EC}} {
			if f.src != nil {
				*f.dst = *f.src
			}
		}
		out[i] = a
	}
	return out
}

// formatSources is the target sources of a workspace before a `buf format` run.
type formatSources struct {
	byFile string // every target file framed by its name, in path order: compared with what -w / -o wrote
	concat string // the plain concatenation in path order: compared with what plain `buf format` prints
	// concatHidesDifference: the sources differ from their formatted form file by file, but the concatenations are
	// the same bytes (a missing final newline of one file and a blank first line of the next): plain `buf format`
	// of a multi-file input prints the concatenation and so cannot show the difference it found. Status 100 is
	// still what the property demands; only the "exit 100 => a difference is shown" direction is not applied to
	// the plain mode there.
	concatHidesDifference bool
}

// formatRun is one `buf format` run together with what it did outside its standard streams.
type formatRun struct {
	res bufx.CLIResult
	// after: for -w the target sources after the run, for -o what was written to the output location
	// (both concatenated in path order); unused for the other modes
	after string
}

// runWorkspace runs every command x format on one workspace and checks all oracles.
func runWorkspace(ctx context.Context, r *evid.Run, st *cliStats, scratch string, n int, job wsJob) {
	nm := job.naming()
	logical, ok := renderNamed(job.set, nm)
	if !ok {
		return
	}
	sh, layout := job.shape, job.layout
	if sh.Target == "b" {
		if _, ok := logical[nm.Paths["b"]]; !ok {
			return // the reference would name a file the planted set deletes
		}
	}
	if _, ok := logical[nm.Paths["b"]]; !ok && layout == "multi" {
		return // module modb would have no file at all, which buf rejects as a configuration error
	}
	files := layoutFiles(layout, logical)
	root := filepath.Join(scratch, fmt.Sprintf("w%d", n))
	dir := filepath.Join(root, job.dirName)
	against := filepath.Join(root, "old-"+job.dirName)
	baseLogical, _ := renderNamed(nil, nm)
	if err := writeFiles(dir, files); err != nil {
		r.Incomplete("scratch: " + err.Error())
		return
	}
	if err := writeFiles(against, layoutFiles(layout, baseLogical)); err != nil {
		r.Incomplete("scratch: " + err.Error())
		return
	}
	defer os.RemoveAll(root)
	st.workspaces.Add(1)
	st.byPlanted[len(job.set)].Add(1)
	st.countShape(sh.ID + "/" + layout)
	ids := plantIDs(job.set)
	label := strings.Join(ids, "+")
	if label == "" {
		label = "clean"
	}
	base := sh.Kind == "dir" && layout == "single"
	// full: all five renderings are compared also in the quick tier (the base shape; every workspace with another file naming)
	full := base || nm.ID != namings[0].ID
	switch {
	case nm.ID != namings[0].ID:
		r.Distinct("B|" + job.dirName + "|" + sh.ID + "|" + layout + "|" + label + "|" + nm.ID)
	case base:
		r.Distinct("B|" + job.dirName + "|" + label)
	default:
		r.Distinct("B|" + job.dirName + "|" + sh.ID + "|" + layout + "|" + label)
	}
	st.countNaming(nm.ID)
	newlineDir := strings.Contains(job.dirName, "\n")

	var sp inputSpec
	sp.in, sp.extra = sh.input(layout, dir, nm)
	sp.against, _ = sh.input(layout, against, nm)
	targets, _, _ := sh.scope(layout)
	// the target .proto files in path order (module-relative and physical order coincide)
	var targetLogical []string
	for key, p := range nm.Paths {
		if _, ok := logical[p]; ok && targets[key] {
			targetLogical = append(targetLogical, p)
		}
	}
	sort.Strings(targetLogical)
	// readAll returns the content of the files framed by their names (file by file: the plain concatenation of
	// two files does not tell where one ends, "...}" + "\n..." and "...}\n" + "..." are the same bytes)
	frame := func(p, data string) string { return "\x00" + p + "\x00" + data }
	readAll := func(base string, paths []string, phys bool) string {
		var b strings.Builder
		for _, p := range paths {
			at := p
			if phys {
				at = physical(layout, p)
			}
			data, _ := os.ReadFile(filepath.Join(base, filepath.FromSlash(at)))
			b.WriteString(frame(p, string(data)))
		}
		return b.String()
	}
	src := formatSources{byFile: readAll(dir, targetLogical, true)}
	// what plain `buf format` prints is the concatenation of the formatted files. The model's formatted form of
	// the workspace is the same planted set without its formatting plants.
	var unplanted []int
	for _, i := range job.set {
		if plants[i].Kind != "unformatted" {
			unplanted = append(unplanted, i)
		}
	}
	formatted, _ := renderNamed(unplanted, nm)
	var formattedByFile, formattedConcat strings.Builder
	for _, p := range targetLogical {
		src.concat += logical[p]
		formattedConcat.WriteString(formatted[p])
		formattedByFile.WriteString(frame(p, formatted[p]))
	}
	src.concatHidesDifference = formattedByFile.String() != src.byFile && formattedConcat.String() == src.concat
	if src.concatHidesDifference {
		st.formatConcatHides.Add(1)
	}

	cmds := append(append([]string(nil), commands...), outputModeCommands...)
	formatRuns := map[string]map[string]formatRun{} // command -> format -> run
	for _, cmd := range cmds {
		if job.formatOnly && !isFormatCommand(cmd) {
			continue
		}
		if isFormatCommand(cmd) && sh.Kind == "pkgfiles" {
			continue // `buf format` does not accept include_package_files (an operational error, see cliOperational)
		}
		if cmd == "breaking" && sh.Kind == "path" {
			// --path is resolved against both inputs; the in-process CLI cannot change the working directory, so the
			// absolute path of the input is outside the --against directory (an operational error by construction)
			continue
		}
		want := expect(job.set, cmd, sh, layout)
		// --error-format has no influence on `buf format` (checked on the workspaces of the dir shape in the
		// thorough tier over all five values); elsewhere two values, quick: one for the output modes
		var fmts []string
		switch {
		case cmd == "format" || cmd == "format-d":
			fmts = formats[:2]
			if !r.Quick() && base {
				fmts = formats
			}
		case isFormatCommand(cmd):
			fmts = formats[:2]
			if r.Quick() {
				fmts = formats[:1]
			}
		case cmd == "build-o" && r.Quick():
			fmts = formats[:2]
		case r.Quick() && !full:
			// the printers are the same for every input shape; quick compares three of the five renderings there
			fmts = []string{"text", "json", "github-actions"}
		default:
			fmts = formats
		}
		if cmd == "lint" && layout == "single" {
			fmts = append(append([]string(nil), fmts...), "config-ignore-yaml")
		}
		// where -o writes to
		sp.out = filepath.Join(root, "out-"+cmd)
		switch {
		case cmd == "build-o":
			sp.out += ".binpb"
		case sh.Kind == "file":
			sp.out += ".proto"
		}
		results := map[string]bufx.CLIResult{}
		runs := map[string]formatRun{}
		mk := func(format, note string) cliCase {
			res := results[format]
			return cliCase{Workspace: ids, Dir: job.dirName, Shape: sh.ID, Layout: layout, Naming: nm.ID, Files: files, Command: cmd, Args: argsForSpec(cmd, sp, format), Format: format, Exit: res.ExitCode, Stdout: res.Stdout, Stderr: res.Stderr, Note: note}
		}
		cut := false
		for _, format := range fmts {
			os.RemoveAll(sp.out)
			res, timedOut := runBuf(ctx, argsForSpec(cmd, sp, format))
			run := formatRun{res: res}
			switch cmd {
			case "format-w", "format-dw":
				run.after = readAll(dir, targetLogical, true)
				// restore the sources for the next run
				if err := writeFiles(dir, files); err != nil {
					r.Incomplete("scratch: " + err.Error())
					return
				}
			case "format-o", "format-do":
				if sh.Kind == "file" {
					data, _ := os.ReadFile(sp.out)
					run.after = frame(targetLogical[0], string(data))
				} else {
					run.after = readAll(sp.out, targetLogical, false)
				}
			}
			if timedOut {
				cut = true
				break
			}
			results[format] = res
			runs[format] = run
			if cmd == "build-o" {
				// exit 0 says "nothing to report, the image was built"
				if info, err := os.Stat(sp.out); err == nil && info.Size() > 0 {
					st.buildOutputWritten.Add(1)
				} else if res.ExitCode == 0 {
					r.Violate("cli/exit-0-but-no-image/build-o", "buf build -o exits 0 but wrote no image", mk(format, ""))
				}
			}
			r.Eval(1)
			st.runs.Add(1)
			st.count(cmd + "/" + format)
			switch res.ExitCode {
			case 0:
				st.exit0.Add(1)
			case 100:
				st.exit100.Add(1)
			default:
				st.exitOther.Add(1)
			}
			if want.ViaScanOnly {
				st.viaScanOnly.Add(1)
			}
			// O2: the plant model
			if want.Exit >= 0 && res.ExitCode != want.Exit || want.Exit < 0 && res.ExitCode == 0 {
				r.Violate(fmt.Sprintf("cli/exit-status/%s/want-%d-got-%d", cmd, want.Exit, res.ExitCode),
					fmt.Sprintf("buf %s (input shape %s, layout %s) on a workspace with planted problems %v exits %d, the plant model says %d", cmd, sh.ID, layout, ids, res.ExitCode, want.Exit), mk(format, ""))
			}
		}
		if cut {
			st.timedOut.Add(1)
			r.Incomplete("a CLI run was cut by a deadline (machine load); that (workspace, command) was not judged")
			continue
		}
		if isFormatCommand(cmd) {
			formatRuns[cmd] = runs
			checkFormatCommand(r, st, cmd, job, dir, src, targetLogical, runs, mk)
			continue
		}
		// O1: exit status vs what was printed, per format
		stream := func(res bufx.CLIResult) (diag, other string) {
			if cmd == "build" || cmd == "build-o" {
				return res.Stderr, res.Stdout
			}
			return res.Stdout, res.Stderr
		}
		jsonRes := results["json"]
		jsonDiag, _ := stream(jsonRes)
		var truth []ann
		var jsonParsed []parsed
		if jsonRes.ExitCode == 100 {
			var err error
			jsonParsed, err = parseJSON(jsonDiag)
			if err != nil {
				r.Violate("cli/malformed/json", fmt.Sprintf("buf %s --error-format json: output does not parse: %v", cmd, err), mk("json", ""))
				continue
			}
			truth = truthFromJSON(jsonParsed)
			// the plant model on the json list
			var types []string
			for _, a := range truth {
				types = append(types, a.Type)
				if a.NoFile {
					st.noFileAnnotations.Add(1)
				} else if !strings.HasPrefix(a.Path, dir+"/") {
					r.Violate("cli/annotation-file-outside-input/"+cmd, fmt.Sprintf("annotation names file %q, which is not under the input %q", a.Path, dir), mk("json", ""))
				} else if _, ok := files[strings.TrimPrefix(a.Path, dir+"/")]; !ok {
					r.Violate("cli/annotation-file-unknown/"+cmd, fmt.Sprintf("annotation names file %q, which is not a file of the workspace", a.Path), mk("json", ""))
				}
			}
			sort.Strings(types)
			if want.CompileOnly {
				for _, t := range types {
					if t != "COMPILE" {
						r.Violate("cli/plant-model/"+cmd+"/non-compile-annotation", fmt.Sprintf("workspace does not compile, but buf %s reports %v", cmd, types), mk("json", ""))
						break
					}
				}
			} else if want.Exit == 100 && strings.Join(types, ",") != strings.Join(want.Rules, ",") {
				r.Violate("cli/plant-model/"+cmd+"/rule-ids", fmt.Sprintf("buf %s reports rule IDs %v, planted %v", cmd, types, want.Rules), mk("json", ""))
			}
		}
		for _, format := range fmts {
			res := results[format]
			diag, other := stream(res)
			if res.ExitCode != jsonRes.ExitCode {
				r.Violate("cli/exit-status-differs-by-format/"+cmd+"/"+format, fmt.Sprintf("buf %s exits %d with --error-format %s and %d with json", cmd, res.ExitCode, format, jsonRes.ExitCode), mk(format, ""))
				continue
			}
			switch {
			case res.ExitCode == 0:
				if res.Stdout != "" || res.Stderr != "" {
					r.Violate("cli/exit-0-but-output/"+cmd, fmt.Sprintf("buf %s exits 0 but printed something", cmd), mk(format, ""))
				}
				continue
			case res.ExitCode != 100:
				if res.Stderr == "" {
					r.Violate("cli/error-exit-without-message/"+cmd, fmt.Sprintf("buf %s exits %d without a message on stderr", cmd, res.ExitCode), mk(format, ""))
				}
				if cmd != "build" && cmd != "build-o" && res.Stdout != "" {
					r.Violate("cli/error-exit-with-annotations/"+cmd, fmt.Sprintf("buf %s exits %d (not 100) but printed to stdout", cmd, res.ExitCode), mk(format, ""))
				}
				continue
			}
			// exit 100: annotations must have been printed, in the requested format, and nothing else
			if other != "" {
				r.Violate("cli/exit-100-extra-output/"+cmd, fmt.Sprintf("buf %s exits 100 and printed outside the annotation stream: %q", cmd, other), mk(format, ""))
			}
			if diag == "" {
				r.Violate("cli/exit-100-nothing-printed/"+cmd, fmt.Sprintf("buf %s exits 100 but printed no annotation", cmd), mk(format, ""))
				continue
			}
			if format == "json" {
				continue
			}
			if format == "config-ignore-yaml" {
				checkConfigIgnoreYAML(r, st, dir, truth, diag, results["text"].Stdout, mk)
				continue
			}
			if newlineDir && (format == "text" || format == "msvs") {
				st.lineGrammarSkipped.Add(1)
				continue
			}
			got, err := parseFormat(format, diag)
			if err != nil {
				sig := classify(format, "cli/malformed/"+format, truth)
				if strings.HasPrefix(sig, "F7/") {
					st.f7.Add(1)
				}
				r.Violate(sig, f7What(sig)+fmt.Sprintf("buf %s --error-format %s: output does not parse back: %v", cmd, format, err), mk(format, ""))
				continue
			}
			if len(got) != len(truth) {
				sig := classify(format, "cli/count/"+format, truth)
				if strings.HasPrefix(sig, "F7/") {
					st.f7.Add(1)
				}
				r.Violate(sig, f7What(sig)+fmt.Sprintf("buf %s: %s carries %d annotations, json %d", cmd, format, len(got), len(truth)), mk(format, "json: "+jsonDiag))
				continue
			}
			st.annotationsCompared.Add(int64(len(truth)))
			if format == "junit" {
				for _, a := range truth {
					if !a.NoFile {
						st.countJUnitNaming(nm.ID)
					}
				}
			}
			if kind, i := firstDisagreement(format, truth, got); kind != "" {
				sig := classify(format, "cli/"+kind+"/"+format, truth)
				if strings.HasPrefix(sig, "F7/") {
					st.f7.Add(1)
				}
				r.Violate(sig, f7What(sig)+fmt.Sprintf("buf %s: %s and json disagree (%s, annotation %d): json %+v, %s %+v", cmd, format, kind, i+1, truth[i], format, got[i]), mk(format, "json: "+jsonDiag))
			}
		}
	}
	checkFormatModes(r, st, job, formatRuns, func(cmd, format string) cliCase {
		res := formatRuns[cmd][format].res
		spc := sp
		spc.out = filepath.Join(root, "out-"+cmd)
		if sh.Kind == "file" {
			spc.out += ".proto"
		}
		return cliCase{Workspace: ids, Dir: job.dirName, Shape: sh.ID, Layout: layout, Naming: nm.ID, Files: files, Command: cmd, Args: argsForSpec(cmd, spc, format), Format: format, Exit: res.ExitCode, Stdout: res.Stdout, Stderr: res.Stderr}
	})
}

func checkConfigIgnoreYAML(r *evid.Run, st *cliStats, dir string, truth []ann, out, textOut string, mk func(format, note string) cliCase) {
	compile := len(truth) > 0
	for _, a := range truth {
		if a.Type != "COMPILE" {
			compile = false
		}
	}
	if compile {
		// build errors are not lint violations: they are documented to be printed as text
		st.configIgnoreYAMLCompile.Add(1)
		if out != textOut {
			r.Violate("cli/config-ignore-yaml/compile-errors-not-text", "lint --error-format config-ignore-yaml prints build errors differently from text", mk("config-ignore-yaml", "text: "+textOut))
		}
		return
	}
	st.configIgnoreYAML.Add(1)
	got, err := parseConfigIgnoreYAML(out)
	if err != nil {
		r.Violate("cli/malformed/config-ignore-yaml", "config-ignore-yaml does not parse: "+err.Error(), mk("config-ignore-yaml", ""))
		return
	}
	seen := map[string]bool{}
	var want []string
	for _, a := range truth {
		k := a.Type + " " + strings.TrimPrefix(a.Path, dir+"/")
		if !seen[k] {
			seen[k] = true
			want = append(want, k)
		}
	}
	sort.Strings(want)
	if strings.Join(got, "\n") != strings.Join(want, "\n") {
		r.Violate("cli/field/config-ignore-yaml", fmt.Sprintf("config-ignore-yaml lists %v, json has %v", got, want), mk("config-ignore-yaml", ""))
	}
}

// checkFormatCommand: `buf format --exit-code` in one output mode. Independent observation of "there is a
// difference", per mode: plain: stdout is the formatted content of every target file in path order, it differs
// from the sources exactly when a file is not formatted; -d: stdout is the diff; -w: the sources on disk after
// the run differ from the sources before it; -o: what was written to the output location differs from the sources.
func checkFormatCommand(r *evid.Run, st *cliStats, cmd string, job wsJob, dir string, src formatSources, targetLogical []string, runs map[string]formatRun, mk func(format, note string) cliCase) {
	first := runs[formats[0]]
	printsDiff := cmd == "format-d" || cmd == "format-dw" || cmd == "format-do"
	for _, format := range formats {
		run, ok := runs[format]
		if !ok {
			continue
		}
		res := run.res
		masked := diffStamp.ReplaceAllString(res.Stdout, "")
		if res.ExitCode != first.res.ExitCode || masked != diffStamp.ReplaceAllString(first.res.Stdout, "") || run.after != first.after {
			r.Violate("cli/format-depends-on-error-format/"+cmd, fmt.Sprintf("buf format result differs between --error-format %s and %s", format, formats[0]), mk(format, ""))
			continue
		}
		var differs bool
		switch cmd {
		case "format":
			differs = res.Stdout != src.concat
		case "format-d":
			differs = res.Stdout != ""
		default:
			differs = run.after != src.byFile
		}
		if differs {
			switch cmd {
			case "format-w", "format-dw":
				st.formatRewrote.Add(1)
				if len(job.set) == 1 && plants[job.set[0]].Kind == "unformatted" {
					st.countVariant(plants[job.set[0]].Variant)
				}
			case "format-o", "format-do":
				st.formatWroteOutput.Add(1)
			}
		}
		switch res.ExitCode {
		case 0:
			st.formatClean.Add(1)
			if differs || res.Stderr != "" || cmd != "format" && res.Stdout != "" {
				r.Violate("cli/exit-0-but-output/"+cmd, "buf format --exit-code exits 0 although it reported a difference (printed, rewrote the sources or wrote different output) or printed a message", mk(format, ""))
			}
		case 100:
			st.formatDiff.Add(1)
			if !differs && !(cmd == "format" && src.concatHidesDifference) {
				r.Violate("cli/exit-100-nothing-printed/"+cmd, "buf format --exit-code exits 100 but shows no difference", mk(format, ""))
			}
			if res.Stderr != "" {
				r.Violate("cli/exit-100-extra-output/"+cmd, "buf format --exit-code exits 100 and printed on stderr", mk(format, ""))
			}
			if printsDiff && cmd != "format-d" && (res.Stdout != "") != differs {
				r.Violate("cli/format-diff-vs-written/"+cmd, fmt.Sprintf("buf format -d printed a diff: %v, what it wrote differs from the sources: %v", res.Stdout != "", differs), mk(format, ""))
			}
			if printsDiff {
				// every changed file, and only changed files, have a diff header
				for _, p := range targetLogical {
					unformatted := false
					for _, i := range job.set {
						pl := plants[i]
						if pl.Kind == "unformatted" && job.naming().Paths[pl.File] == p {
							unformatted = true
						}
					}
					hasHeader := strings.Contains(res.Stdout, "+++ "+filepath.Join(dir, physical(job.layout, p))+"\t")
					if unformatted != hasHeader {
						r.Violate("cli/format-diff-files", fmt.Sprintf("diff header for %s present=%v, file unformatted=%v", p, hasHeader, unformatted), mk(format, ""))
					}
				}
			}
		default:
			st.formatParseError.Add(1)
			if res.Stderr == "" {
				r.Violate("cli/error-exit-without-message/"+cmd, fmt.Sprintf("buf format exits %d without a message", res.ExitCode), mk(format, ""))
			}
			if res.Stdout != "" {
				r.Violate("cli/error-exit-with-annotations/"+cmd, fmt.Sprintf("buf format exits %d but printed to stdout", res.ExitCode), mk(format, ""))
			}
		}
	}
}

// checkFormatModes: where the formatted result goes (stdout, a diff, in place, an output location) is not an
// input of the verdict: every output mode exits with the status of the plain mode, and every mode that prints
// a diff prints the same diff.
func checkFormatModes(r *evid.Run, st *cliStats, job wsJob, runs map[string]map[string]formatRun, mk func(cmd, format string) cliCase) {
	format := formats[0]
	plain, ok := runs["format"][format]
	if !ok {
		return
	}
	diff, haveDiff := runs["format-d"][format]
	for _, cmd := range []string{"format-d", "format-w", "format-dw", "format-o", "format-do"} {
		run, ok := runs[cmd][format]
		if !ok {
			continue
		}
		st.formatModesCompared.Add(1)
		if run.res.ExitCode != plain.res.ExitCode {
			r.Violate("cli/format-exit-differs-by-output-mode/"+cmd, fmt.Sprintf("buf format --exit-code exits %d, with the switches of %s it exits %d on the same input", plain.res.ExitCode, cmd, run.res.ExitCode), mk(cmd, format))
			continue
		}
		if (cmd == "format-dw" || cmd == "format-do") && haveDiff &&
			diffStamp.ReplaceAllString(run.res.Stdout, "") != diffStamp.ReplaceAllString(diff.res.Stdout, "") {
			r.Violate("cli/format-diff-differs-by-output-mode/"+cmd, "buf format -d prints a different diff when it also writes the result", mk(cmd, format))
		}
	}
}

// dirNames are input directory names; they become part of every annotation's file.
var dirNames = []string{"ws", "w,s", "w s", "wé", "w%25s", "w::s", `w"<&s`, "w\ns"}

func cliPlanted(ctx context.Context, r *evid.Run, st *cliStats, scratch string) {
	index := map[string]int{}
	for i, p := range plants {
		index[p.ID] = i
	}
	pick := func(ids ...string) []int {
		var s []int
		for _, id := range ids {
			s = append(s, index[id])
		}
		sort.Ints(s)
		return s
	}
	baseShape := shapes[0]
	var jobs []wsJob
	maxAll, maxOther := 3, 2
	if r.Quick() {
		maxAll, maxOther = 2, 1
	}
	for _, s := range enum.Subsets(nCorePlants, 0, maxAll) {
		jobs = append(jobs, wsJob{set: s, dirName: "ws", shape: baseShape, layout: "single"})
	}
	if r.Quick() {
		// quick: triples only over one plant of each kind
		sub := pick("L1", "K1", "C1", "M1", "U1")
		for _, t := range enum.Subsets(len(sub), 3, 3) {
			jobs = append(jobs, wsJob{set: []int{sub[t[0]], sub[t[1]], sub[t[2]]}, dirName: "ws", shape: baseShape, layout: "single"})
		}
	}
	hostileSets := [][]int{pick("L1", "L2"), pick("K1", "K3"), pick("C1"), pick("M1", "U1")}
	if r.Quick() {
		hostileSets = hostileSets[:2]
	}
	var pkgFilesA shape
	for _, sh := range shapes {
		if sh.ID == "file-a+" {
			pkgFilesA = sh
		}
	}
	for _, d := range dirNames[1:] {
		for _, s := range hostileSets {
			jobs = append(jobs, wsJob{set: s, dirName: d, shape: baseShape, layout: "single"})
		}
		// an annotation produced by the package scan (its file name is resolved by other code than the compiler's)
		jobs = append(jobs, wsJob{set: pick("S3"), dirName: d, shape: pkgFilesA, layout: "single"})
	}
	// every other (input shape, layout) x every subset of <= maxOther plants
	for _, layout := range layouts {
		for _, sh := range shapes {
			if sh.ID == baseShape.ID && layout == "single" {
				continue
			}
			for _, s := range enum.Subsets(nCorePlants, 0, maxOther) {
				jobs = append(jobs, wsJob{set: s, dirName: "ws", shape: sh, layout: layout})
			}
		}
	}
	shapeByID := map[string]shape{}
	for _, sh := range shapes {
		shapeByID[sh.ID] = sh
	}
	// file naming: every other naming x the sets whose annotations name both files, one file and no file, a file
	// that only the package scan reads, and each file named by a file reference; all five renderings are compared
	for _, nm := range namings[1:] {
		for _, s := range hostileSets {
			jobs = append(jobs, wsJob{set: s, dirName: "ws", shape: baseShape, layout: "single", names: nm})
		}
		jobs = append(jobs, wsJob{set: pick("S3"), dirName: "ws", shape: pkgFilesA, layout: "single", names: nm})
		jobs = append(jobs, wsJob{set: pick("L1", "U1"), dirName: "ws", shape: shapeByID["file-a"], layout: "single", names: nm})
		jobs = append(jobs, wsJob{set: pick("L2", "U2"), dirName: "ws", shape: shapeByID["file-b"], layout: "multi", names: nm})
	}
	// formatting variants: the kind and the place of the difference between a file and its formatted form.
	// Only `buf format` is run (six output modes). Alone (every other file of the input is clean), for every
	// input shape that `buf format` accepts, and together with an unformatted other file.
	var variantsOf = map[string][]int{}
	for i, p := range plants {
		if p.Kind == "unformatted" && p.Variant != "" {
			variantsOf[p.File] = append(variantsOf[p.File], i)
		}
	}
	for _, file := range []string{"a", "b"} {
		other, otherBase := "b", index["U2"]
		if file == "b" {
			other, otherBase = "a", index["U1"]
		}
		for _, v := range variantsOf[file] {
			for _, layout := range layouts {
				for _, sh := range shapes {
					if sh.Kind == "pkgfiles" {
						continue
					}
					// quick: the directory in both layouts and the file reference naming the edited file
					if r.Quick() && !(sh.Kind == "dir" || sh.Kind == "file" && sh.Target == file && layout == "single") {
						continue
					}
					jobs = append(jobs, wsJob{set: []int{v}, dirName: "ws", shape: sh, layout: layout, formatOnly: true})
				}
			}
			pair := func(w int) []int {
				s := []int{v, w}
				sort.Ints(s)
				return s
			}
			jobs = append(jobs, wsJob{set: pair(otherBase), dirName: "ws", shape: baseShape, layout: "single", formatOnly: true})
			if !r.Quick() && file == "a" {
				for _, w := range variantsOf[other] {
					jobs = append(jobs, wsJob{set: pair(w), dirName: "ws", shape: baseShape, layout: "single", formatOnly: true})
				}
			}
		}
	}
	var shapeIDs []string
	for _, sh := range shapes {
		shapeIDs = append(shapeIDs, sh.ID)
	}
	r.Set("B_plants", plants)
	r.Set("B_dir_names", dirNames)
	r.Set("B_input_shapes", shapeIDs)
	r.Set("B_layouts", layouts)
	var variantIDs []string
	for _, v := range formatVariants {
		variantIDs = append(variantIDs, v.ID)
	}
	r.Set("B_file_namings", namings)
	r.Set("B_format_variants", variantIDs)
	r.Set("B_core_plants", nCorePlants)
	r.Set("B_commands", append(append([]string(nil), commands...), outputModeCommands...))
	r.Set("B_workspace_jobs", len(jobs))
	// the model's premise: the unplanted workspace is clean for every command (checked by the first job)
	r.ParallelFor(len(jobs), 0, func(i int) {
		runWorkspace(ctx, r, st, scratch, i, jobs[i])
	})
}

// ---- operational errors ----

type opError struct {
	ID       string
	Commands []string
	// prepare returns the args for (cmd, format) given a workspace dir and the against dir
	Args func(cmd, dir, against, format string) []string
	// Files overrides files of the workspace
	Files map[string]string
	// SkipCompile: the operational error is detected after compilation, so it only shows on workspaces that compile
	AfterCompile bool
}

func opErrors() []opError {
	withExtra := func(extra ...string) func(cmd, dir, against, format string) []string {
		return func(cmd, dir, against, format string) []string {
			return append(argsFor(cmd, dir, against, format), extra...)
		}
	}
	all := commands
	return []opError{
		{ID: "missing-input-dir", Commands: all, Args: func(cmd, dir, against, format string) []string {
			return argsFor(cmd, filepath.Join(dir, "no-such-dir"), against, format)
		}},
		{ID: "malformed-buf-yaml", Commands: all, Args: withExtra(), Files: map[string]string{"buf.yaml": "version: v2\nlint: [\n"}},
		{ID: "unknown-buf-yaml-version", Commands: all, Args: withExtra(), Files: map[string]string{"buf.yaml": "version: v9\n"}},
		{ID: "unknown-flag", Commands: all, Args: withExtra("--no-such-flag")},
		{ID: "invalid-error-format", Commands: all, Args: func(cmd, dir, against, format string) []string {
			return argsFor(cmd, dir, against, format+"x")
		}},
		{ID: "unknown-lint-rule", Commands: []string{"lint"}, Args: withExtra(), AfterCompile: true,
			Files: map[string]string{"buf.yaml": "version: v2\nlint:\n  use:\n    - NO_SUCH_RULE\n"}},
		{ID: "unknown-breaking-rule", Commands: []string{"breaking"}, Args: withExtra(), AfterCompile: true,
			Files: map[string]string{"buf.yaml": "version: v2\nbreaking:\n  use:\n    - NO_SUCH_RULE\n"}},
		{ID: "breaking-without-against", Commands: []string{"breaking"}, Args: func(cmd, dir, against, format string) []string {
			return []string{"breaking", dir, "--error-format", format}
		}},
		{ID: "against-missing-dir", Commands: []string{"breaking"}, AfterCompile: true, Args: func(cmd, dir, against, format string) []string {
			return argsFor(cmd, dir, filepath.Join(dir, "no-such-dir"), format)
		}},
		{ID: "two-inputs", Commands: all, Args: withExtra("second-input")},
		// the switches that select where `buf format` sends its result
		{ID: "format-write-and-output", Commands: []string{"format-w", "format-dw"}, Args: func(cmd, dir, against, format string) []string {
			return append(argsFor(cmd, dir, against, format), "-o", filepath.Join(filepath.Dir(dir), "some-output"))
		}},
		{ID: "format-include-package-files", Commands: []string{"format", "format-d", "format-w"}, Args: func(cmd, dir, against, format string) []string {
			return argsFor(cmd, filepath.Join(dir, "a/v1/a.proto")+"#include_package_files=true", against, format)
		}},
		{ID: "format-output-is-a-module", Commands: []string{"format-o", "format-do"}, Args: func(cmd, dir, against, format string) []string {
			return argsForSpec(cmd, inputSpec{in: dir, out: "buf.build/acme/weather"}, format)
		}},
		{ID: "missing-input-dir-output-modes", Commands: outputModeCommands, Args: func(cmd, dir, against, format string) []string {
			return argsFor(cmd, filepath.Join(dir, "no-such-dir"), against, format)
		}},
	}
}

func cliOperational(ctx context.Context, r *evid.Run, st *cliStats, scratch string) {
	index := map[string]int{}
	for i, p := range plants {
		index[p.ID] = i
	}
	// workspaces the operational error is combined with: clean, user problems of every kind, compile error
	wss := [][]int{nil, {index["L1"], index["K1"], index["U1"]}, {index["C1"]}}
	ops := opErrors()
	type job struct {
		op opError
		ws []int
	}
	var jobs []job
	for _, op := range ops {
		for _, ws := range wss {
			if op.AfterCompile && len(ws) == 1 {
				continue
			}
			jobs = append(jobs, job{op, ws})
		}
	}
	var opIDs []string
	for _, op := range ops {
		opIDs = append(opIDs, op.ID)
	}
	r.Set("B_operational_errors", opIDs)
	r.ParallelFor(len(jobs), 0, func(i int) {
		j := jobs[i]
		files, _ := render(j.ws)
		for k, v := range j.op.Files {
			files[k] = v
		}
		root := filepath.Join(scratch, fmt.Sprintf("op%d", i))
		dir := filepath.Join(root, "ws")
		against := filepath.Join(root, "old")
		baseFiles, _ := render(nil)
		if err := writeFiles(dir, files); err != nil {
			r.Incomplete("scratch: " + err.Error())
			return
		}
		if err := writeFiles(against, baseFiles); err != nil {
			r.Incomplete("scratch: " + err.Error())
			return
		}
		defer os.RemoveAll(root)
		ids := plantIDs(j.ws)
		r.Distinct("Bop|" + j.op.ID + "|" + strings.Join(ids, "+"))
		for _, cmd := range j.op.Commands {
			for _, format := range formats {
				args := j.op.Args(cmd, dir, against, format)
				res, timedOut := runBuf(ctx, args)
				if timedOut {
					st.timedOut.Add(1)
					r.Incomplete("a CLI run was cut by a deadline (machine load); that operational-error run was not judged")
					continue
				}
				r.Eval(1)
				st.runs.Add(1)
				st.opRuns.Add(1)
				c := cliCase{Workspace: ids, Dir: "ws", Files: files, Command: cmd, Args: args, Format: format, Exit: res.ExitCode, Stdout: res.Stdout, Stderr: res.Stderr, Note: "operational error: " + j.op.ID}
				if res.ExitCode == 0 || res.ExitCode == 100 {
					r.Violate("cli/operational/"+j.op.ID+"/"+cmd+fmt.Sprintf("/exit-%d", res.ExitCode),
						fmt.Sprintf("operational error %s: buf %s exits %d (must be non-zero and not 100)", j.op.ID, cmd, res.ExitCode), c)
					continue
				}
				st.exitOther.Add(1)
				if res.Stderr == "" {
					r.Violate("cli/error-exit-without-message/"+cmd, fmt.Sprintf("operational error %s: buf %s exits %d without a message", j.op.ID, cmd, res.ExitCode), c)
				}
				if res.Stdout != "" {
					r.Violate("cli/error-exit-with-annotations/"+cmd, fmt.Sprintf("operational error %s: buf %s exits %d but printed to stdout", j.op.ID, cmd, res.ExitCode), c)
				}
			}
		}
	})
}
