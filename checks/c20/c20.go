// Package c20 is the check for property C20: exit status and every diagnostic format tell the same
// verdict.
//
// Bounded-exhaustive exploration of the real code at two seams:
//
//	A  bufanalysis.NewFileAnnotationSet + PrintFileAnnotationSet, driven directly
//	   A1 every (file, message) pair over a fragment alphabet of hostile texts, as a one-annotation set
//	   A2 every start/end position over {0,1,12}^4 x file kind x type/message/plugin presence
//	   A3 every ordered tuple (with repetition) of <= 3 annotations from a colliding pool
//	   A4 every file name of <= 3 name fragments around the .proto extension, and ordered pairs of such names
//	   each set rendered in all five formats, each rendering parsed back by the independent parsers of
//	   refannot.go and compared with the reference model (refSortDedupe + agree).
//	B  the in-process CLI: build [-o], lint, breaking --against, format --exit-code [-d] [-w | -o], each x
//	   every --error-format (+ config-ignore-yaml for lint), on scratch workspaces with every subset of <= 3
//	   planted problems, x every input shape (directory, .proto file reference, file reference with
//	   include_package_files=true, directory + --path; naming either file) x workspace layout (one module,
//	   two modules), on hostile input directory names, and on operational errors;
//	   B3 (resources.go) the resource grid: role of a resource (input, --against, -o, --config, --against-config,
//	   --path, --exclude-path) x reference form (dir, .proto, six image spellings, four archive spellings) x state
//	   on disk (good, missing, missing parent, dangling symlink, parent is a file, symlink loop, wrong type, garbage).
//	   B4 (faults.go) faults in the environment: the report stream is full after k bytes (every structural position, ENOSPC /
//	   EPIPE) x command x --error-format; the external diff tool / the temporary directory in every unusable state x
//	   planted set x input shape x the six output modes of buf format.
package c20

import (
	"context"
	"os"
	"sort"
	"strings"
	"syscall"
	"time"

	"github.com/bufbuild/bufverif/internal/evid"
)

func init() {
	evid.Register(&evid.Check{ID: "C20", Level: "exploration", Run: run, QuickBudget: 300 * time.Second, ThoroughBudget: 14 * time.Minute})
}

func cpuSeconds() float64 {
	var ru syscall.Rusage
	if syscall.Getrusage(syscall.RUSAGE_SELF, &ru) != nil {
		return 0
	}
	return float64(ru.Utime.Sec+ru.Stime.Sec) + float64(ru.Utime.Usec+ru.Stime.Usec)/1e6
}

func run(r *evid.Run) {
	r.Rule("A: every annotation set of three explicit spaces (A1 all file x message strings of <=3 fragments over the hostile alphabets, one annotation; " +
		"A2 all positions {0,1,12}^4 x file kind x type/message/plugin presence; A3 all ordered tuples with repetition of <=3 annotations from a colliding pool; " +
		"A4 all file names of <=3 fragments over {a p r o t . / .proto proto} as one-annotation sets and all ordered pairs of the names of <=2 fragments over {a t / .proto} as two-file sets) " +
		"is rendered by PrintFileAnnotationSet in all 5 formats and each rendering is parsed back by an independent parser and compared with the reference list; " +
		"B: every subset of <=3 planted problems (quick: <=2 plus the triples over one plant per kind) as a scratch workspace x every command x every --error-format through the in-process CLI, " +
		"where a command is build, build -o, lint, breaking, or format --exit-code in each of its six output modes (stdout, -d, -w, -d -w, -o, -d -o); " +
		"the same for every other (input shape, layout) of 7 shapes (dir, file-a, file-a+include_package_files, dir --path a, the same three for b) x 2 layouts (one module, two modules) over every subset of <=2 (quick: <=1) planted problems; " +
		"plus hostile directory names and operational errors; " +
		"plus file namings (the .proto files renamed so that their stems end in each letter of the extension or are the word proto; x planted sets naming both files, one file and no file, a file only the package scan reads, file references; all 5 renderings); " +
		"plus formatting variants (10 kinds/places of a difference between a file and its formatted form: missing final newline, blank lines / blanks behind the last line, blank first line, trailing blank in a line, tab indentation, CRLF, extra blank line inside, empty statement; each in either file, " +
		"alone x every input shape `buf format` accepts x layout (quick: directory in both layouts, file reference), and next to an unformatted other file (thorough: next to every variant of the other file) x the six output modes of buf format); " +
		"B3: every cell of resource role (input, --against, -o location, --config, --against-config, --path, --exclude-path) x reference form (directory, .proto file, image as binpb/json/txtpb/yaml/binpb.gz/#format=binpb, archive as tar/tar.gz/zip/#format=tar) " +
		"x state on disk (good, missing, missing parent, dangling symlink, parent is a file, symlink loop, wrong type, garbage content) x command x workspace (clean, planted L1+K1+U1) x --error-format (quick: text, json); " +
		"B4: faults in the environment of a command: (F1) the stream that carries the report (stdout of lint, breaking, format; stderr of build) is full after k bytes, k = every structural position of the fault-free output " +
		"(first byte, second byte, end of the first line, one byte into the second line, middle, last byte), as ENOSPC (short write) and EPIPE (quick: EPIPE at the first byte and the end of the first line only), x command (build, lint, breaking, format, format -d, -d -w, -d -o) x every --error-format (+ config-ignore-yaml) " +
		"x planted sets with one and two annotations of each kind, compile / missing-import / package-scan annotations, an unformatted file; (F2) the external diff tool in every state in which it cannot do its work silently " +
		"(absent from the PATH, not executable, a directory, a dangling link, not a program, exits 1 or 2 without output, killed) and the temporary directory (missing, a regular file), plus a control PATH holding only a link to the real tool, " +
		"x planted set (clean, unformatted a / b / both, formatting variants, next to a lint plant) x input shape x the six output modes of buf format --exit-code. An evaluation is one rendering parsed back (A) or one CLI run (B). " +
		"Distinct non-trivial = distinct A1 pair with at least one non-'a' fragment, distinct A2 case, distinct A3 tuple of >=2 annotations, distinct A4 name or name pair, distinct (directory name, input shape, layout, planted set, file naming) workspace, distinct (operational error, workspace), distinct (role, form, state, command, workspace) resource cell, distinct (workspace, command, format, stream, position, fault) refused write, distinct (environment state, workspace, shape, output mode) format run.")
	r.Assume("B3: a resource that is missing, of the wrong type, unreachable or undecodable is not a problem in the user's sources: status 100 is demanded against only where the plant model has no source problem for the command to report independently of the resource; " +
		"where buf may legitimately cope (creating a missing output directory, a path filter that selects nothing) status 0 is accepted if nothing was printed and the output is in place. " +
		"Not enumerated: git and module references (network / external git), permission faults (the harness runs as root), stdin/stdout references ('-')")
	r.Assume("B4: a report stream that refuses a write means the report was not printed: status 100 (annotations were printed / a difference was reported) and status 0 are both wrong there, whatever part of the report fitted before the fault; " +
		"only the stream that carries the report in the fault-free run is made to fail. A diff tool that runs, prints nothing and exits 0 is trusted (not a state of the dimension); " +
		"the diff tool is looked up in the process environment (PATH, TMPDIR), which is process-wide: the environment states are walked serially, only the runs of one state run in parallel")
	r.Assume("text and msvs are line grammars without any escape mechanism: a newline inside a file name or message cannot be expressed, such sets are not compared in these two formats (counted as line_grammar_skipped)")
	r.Assume("an unknown position (<=0) may be rendered as absent, 0 or 1; github-actions may omit col/endLine/endColumn when the line (resp. end line) is unknown")
	r.Assume("an empty message or empty rule ID is degenerate ('should never happen' in the printers): placeholders such as FAILURE are accepted")
	r.Assume("`buf format` on a file with a syntax error prints `Failure: <file>:<line>:<col>: syntax error` and exits 1 whatever --error-format says; the property's list of status-100 situations does not include it, so only 'non-zero' is demanded there")
	r.Assume("plant model of the input shapes: lint and format judge the files the reference selects, the compiler reads those and what they import, breaking judges what the compiler reads (imports included, buf's default), " +
		"and a file reference with include_package_files=true reads the package statement of every file of the target's module, so a malformed package/import statement there is a problem in the user's sources (status 100, annotations) although the compiler never sees the file")
	r.Assume("on the workspaces of the formatting-variant dimension only `buf format` is run (the variants are white space and an empty statement: nothing for the compiler, lint or breaking to report); " +
		"that each variant is a formatting difference is not assumed but observed: `buf format -w` must have rewritten a workspace whose only planted problem is that variant, else the run is incomplete")
	r.Assume("plain `buf format` of several files prints the concatenation of the formatted files; when that is byte-identical to the concatenation of the sources although the files differ one by one " +
		"(one file lacks its final newline, the next starts with a blank line), 'status 100 => a difference is shown' is not demanded of the plain mode (the other five modes show it); status 100 is still demanded")
	r.Assume("JUnit has no file attribute: the file is carried by the testsuite name (file name without a trailing .proto) and by the gcc-style line in each failure message; both must name the file the other formats name")
	r.Assume("not run: `buf format` with include_package_files (rejected by buf: listed with the operational errors), `buf breaking` with --path (the in-process CLI cannot change its working directory, the absolute --path is outside the --against input), " +
		"a reference naming b.proto when the planted set deletes it, and the two-module layout when the planted set empties module modb")
	r.Assume("the github-actions reference parser is the runner's documented algorithm (first '::' ends the properties, split at ',', unescape %25 %0D %0A and, for properties, %3A %2C)")
	r.Assume("every CLI run passes --timeout 0: buf's default 2m timeout would make the exit status depend on machine load; a run that is still cut by a deadline is not judged (incomplete, never a violation)")
	r.Assume("texts are valid UTF-8; control characters other than CR/LF and invalid UTF-8 (which JSON and XML cannot carry losslessly) are out of the enumerated alphabet")

	ctx := context.Background()
	dst := &directStats{}
	t0 := time.Now()
	c0 := cpuSeconds()
	phase := func(name string) {
		// informational only (not part of any oracle): wall and process CPU seconds per phase
		r.Set("phase_"+name, map[string]float64{"wall_s": time.Since(t0).Seconds(), "cpu_s": cpuSeconds() - c0})
		t0, c0 = time.Now(), cpuSeconds()
	}
	// VERIF_C20_ONLY=A1,A3,... restricts the run to some spaces (debugging / mutant triage only; the run is
	// then marked incomplete)
	only := os.Getenv("VERIF_C20_ONLY")
	want := func(part string) bool { return only == "" || strings.Contains(","+only+",", ","+part+",") }
	if only != "" {
		r.Incomplete("VERIF_C20_ONLY=" + only + ": partial run")
	}
	if want("A1") {
		hostileTexts(r, dst)
		phase("A1")
	}
	if want("A2") {
		positionGrid(r, dst)
		phase("A2")
	}
	if want("A3") {
		setOrder(r, dst)
		phase("A3")
	}
	if want("A4") {
		fileNames(r, dst)
		phase("A4")
		r.Set("A4_names_with_extension", dst.namesWithExt.Load())
		r.Set("A4_names_without_extension", dst.namesWithoutExt.Load())
		r.Set("A4_names_whose_stem_is_empty_or_ends_in_a_character_of_the_extension", dst.namesStemTailInExt.Load())
		r.Set("A4_two_file_sets", dst.namePairs.Load())
		r.Set("A4_two_file_sets_sharing_the_name_without_extension", dst.namePairsSameStem.Load())
		if !r.Expired() && (dst.namesWithExt.Load() == 0 || dst.namesWithoutExt.Load() == 0 || dst.namesStemTailInExt.Load() == 0 || dst.namePairsSameStem.Load() == 0) {
			r.Incomplete("vacuous: the file-name space has no name with / without the extension, no stem ending in a character of the extension, or no two files sharing the name without extension")
		}
	}

	perFormat := map[string]int64{}
	for i, f := range formats {
		perFormat[f] = dst.perFormat[i].Load()
	}
	r.Set("A_sets", dst.sets.Load())
	r.Set("A_renderings_parsed_back_per_format", perFormat)
	r.Set("A_line_grammar_skipped", dst.lineGrammarSkipped.Load())
	r.Set("A1_pairs_needing_json_escape", dst.needJSONEscape.Load())
	r.Set("A1_pairs_needing_xml_escape", dst.needXMLEscape.Load())
	r.Set("A1_pairs_needing_workflow_escape", dst.needWorkflowEscape.Load())
	r.Set("A2_cases_with_unknown_position", dst.unknownPos.Load())
	r.Set("A3_tuples_deduplicated", dst.deduped.Load())
	r.Set("A3_tuples_reordered", dst.reordered.Load())
	r.Set("A3_tuples_with_several_junit_suites", dst.multiSuite.Load())
	r.Set("F7_file_property_cases", dst.f7File.Load())
	r.Set("F7_message_cases", dst.f7Msg.Load())
	r.Set("F7_cases_where_a_correctly_escaped_rendering_passes_the_same_oracle", dst.f7SelfChecked.Load())
	for i, f := range formats {
		if only != "" {
			break
		}
		if dst.perFormat[i].Load() == 0 {
			r.Incomplete("vacuous: no rendering compared for format " + f)
		}
	}
	if only == "" && (dst.deduped.Load() == 0 || dst.reordered.Load() == 0 || dst.multiSuite.Load() == 0) {
		r.Incomplete("vacuous: set-order space exercised no de-duplication / no reordering / no multi-suite JUnit document")
	}
	if only == "" && (dst.needJSONEscape.Load() == 0 || dst.needXMLEscape.Load() == 0 || dst.needWorkflowEscape.Load() == 0) {
		r.Incomplete("vacuous: no text needing escaping")
	}
	if r.Expired() {
		return
	}

	scratch, err := os.MkdirTemp("", "verif-c20-")
	if err != nil {
		r.Incomplete("scratch: " + err.Error())
		return
	}
	defer os.RemoveAll(scratch)
	cst := &cliStats{}
	if want("B1") {
		cliPlanted(ctx, r, cst, scratch)
		phase("B_planted")
	}
	if want("B2") {
		cliOperational(ctx, r, cst, scratch)
		phase("B_operational")
	}
	var rst *resStats
	if want("B3") {
		rst = cliResources(ctx, r, scratch)
		phase("B_resources")
		r.Set("B3_cli_runs", rst.runs.Load())
		r.Set("B3_runs_by_demand", map[string]int64{"control": rst.control.Load(), "must-fail": rst.mustFail.Load(), "may-fail": rst.mayFail.Load(), "either": rst.either.Load()})
		r.Set("B3_runs_by_exit_class", map[string]int64{"0": rst.exit0.Load(), "100": rst.exit100.Load(), "other": rst.exitOther.Load()})
		r.Set("B3_control_runs_that_reported_a_planted_problem", rst.controlReported.Load())
		r.Set("B3_output_runs_that_succeeded", rst.outputSucceeded.Load())
		r.Set("B3_runs_where_a_source_problem_was_reported_before_the_resource_was_touched", rst.sourceProblemBeforeResource.Load())
		rst.mu.Lock()
		perRC, perForm := map[string]int{}, map[string]int{}
		for k, v := range rst.perRoleClass {
			perRC[k] = v
		}
		for k, v := range rst.perForm {
			perForm[k] = v
		}
		rst.mu.Unlock()
		r.Set("B3_runs_per_role_and_failure_class", perRC)
		r.Set("B3_runs_per_reference_form", perForm)
		if !r.Expired() && only == "" {
			if rst.control.Load() == 0 || rst.controlReported.Load() == 0 || rst.mustFail.Load() == 0 || rst.mayFail.Load() == 0 || rst.outputSucceeded.Load() == 0 {
				r.Incomplete("vacuous: the resource grid had no control run / no control run that reported a planted problem / no must-fail or may-fail cell / no output written")
			}
			for _, role := range []string{"input", "against", "output", "config", "against-config", "path", "exclude-path"} {
				if perRC[role+"/not-exist"] == 0 || perRC[role+"/ok"] == 0 {
					r.Incomplete("vacuous: no run with a non-existent / a good resource in role " + role)
				}
			}
		}
	}

	if want("B4") && !r.Expired() {
		fst := cliFaults(ctx, r, scratch)
		phase("B_faults")
		r.Set("B4_sink_cells_command_x_format_x_workspace", fst.sinkCells.Load())
		r.Set("B4_sink_runs", fst.sinkRuns.Load())
		r.Set("B4_sink_runs_where_the_report_stream_refused_a_write", fst.sinkRefused.Load())
		r.Set("B4_sink_runs_where_buf_wrote_less_than_the_limit", fst.sinkNotReached.Load())
		r.Set("B4_sink_faults_compared_across_error_formats", fst.sinkFormatsCompared.Load())
		r.Set("B4_tool_runs", fst.toolRuns.Load())
		r.Set("B4_tool_control_runs_that_found_the_difference", fst.toolControl100.Load())
		r.Set("B4_tool_runs_unformatted_sources_with_unusable_environment", fst.toolMustFail.Load())
		r.Set("B4_tool_runs_formatted_sources_with_unusable_environment", fst.toolClean.Load())
		fst.mu.Lock()
		perStream, perPosition, perState := map[string]int{}, map[string]int{}, map[string]int{}
		for k, v := range fst.perStream {
			perStream[k] = v
		}
		for k, v := range fst.perPosition {
			perPosition[k] = v
		}
		for k, v := range fst.perState {
			perState[k] = v
		}
		fst.mu.Unlock()
		r.Set("B4_refused_writes_per_stream_and_command", perStream)
		r.Set("B4_refused_writes_per_position_and_fault", perPosition)
		r.Set("B4_tool_runs_per_environment_state", perState)
		if !r.Expired() {
			for _, cmd := range []string{"stdout/lint", "stdout/breaking", "stderr/build", "stdout/format", "stdout/format-d"} {
				if perStream[cmd] == 0 {
					r.Incomplete("vacuous: no run in which the report stream refused a write: " + cmd)
				}
			}
			if perPosition["end-of-first-line/enospc"] == 0 || perPosition["first-byte/epipe"] == 0 || perPosition["last-byte/enospc"] == 0 || fst.sinkFormatsCompared.Load() == 0 {
				r.Incomplete("vacuous: no refused write at the end of the first line / at the first byte / at the last byte, or no fault compared across formats")
			}
			if fst.toolControl100.Load() == 0 || fst.toolMustFail.Load() == 0 || fst.toolClean.Load() == 0 {
				r.Incomplete("vacuous: the diff-tool dimension had no control run that found the difference / no run on unformatted sources with an unusable tool / no run on formatted sources")
			}
			for _, s := range toolStates {
				if perState[s.ID] == 0 {
					r.Incomplete("vacuous: no run in environment state " + s.ID)
				}
			}
		}
	}

	r.Set("B_cli_runs", cst.runs.Load())
	r.Set("B_workspaces", cst.workspaces.Load())
	r.Set("B_workspaces_by_number_of_planted_problems", []int64{cst.byPlanted[0].Load(), cst.byPlanted[1].Load(), cst.byPlanted[2].Load(), cst.byPlanted[3].Load()})
	r.Set("B_runs_exit_0", cst.exit0.Load())
	r.Set("B_runs_exit_100", cst.exit100.Load())
	r.Set("B_runs_exit_other", cst.exitOther.Load())
	r.Set("B_operational_runs", cst.opRuns.Load())
	r.Set("B_annotations_compared_with_json", cst.annotationsCompared.Load())
	r.Set("B_annotations_without_file", cst.noFileAnnotations.Load())
	r.Set("B_format_runs_clean", cst.formatClean.Load())
	r.Set("B_format_runs_diff", cst.formatDiff.Load())
	r.Set("B_format_runs_syntax_error", cst.formatParseError.Load())
	r.Set("B_config_ignore_yaml_compared", cst.configIgnoreYAML.Load())
	r.Set("B_config_ignore_yaml_compile_errors", cst.configIgnoreYAMLCompile.Load())
	r.Set("B_line_grammar_skipped", cst.lineGrammarSkipped.Load())
	r.Set("B_runs_where_only_the_package_scan_sees_the_planted_problem", cst.viaScanOnly.Load())
	r.Set("B_format_write_runs_that_rewrote_sources", cst.formatRewrote.Load())
	r.Set("B_format_output_runs_that_wrote_different_output", cst.formatWroteOutput.Load())
	r.Set("B_format_output_modes_compared_with_plain", cst.formatModesCompared.Load())
	r.Set("B_build_o_images_written", cst.buildOutputWritten.Load())
	r.Set("B_workspaces_where_the_concatenated_output_of_plain_format_hides_the_difference", cst.formatConcatHides.Load())
	r.Set("B_F7_runs", cst.f7.Load())
	r.Set("B_runs_cut_by_a_deadline_not_judged", cst.timedOut.Load())
	cst.mu.Lock()
	keys := make([]string, 0, len(cst.perCmdFormat))
	for k := range cst.perCmdFormat {
		keys = append(keys, k)
	}
	sort.Strings(keys)
	per := map[string]int{}
	for _, k := range keys {
		per[k] = cst.perCmdFormat[k]
	}
	perShape := map[string]int{}
	for k, v := range cst.perShapeLayout {
		perShape[k] = v
	}
	perNaming, perNamingJUnit, perVariant := map[string]int{}, map[string]int{}, map[string]int{}
	for k, v := range cst.perNaming {
		perNaming[k] = v
	}
	for k, v := range cst.perNamingJUnit {
		perNamingJUnit[k] = v
	}
	for k, v := range cst.perVariant {
		perVariant[k] = v
	}
	cst.mu.Unlock()
	r.Set("B_workspaces_per_file_naming", perNaming)
	r.Set("B_junit_annotations_with_a_file_compared_per_file_naming", perNamingJUnit)
	r.Set("B_format_write_runs_that_rewrote_a_workspace_whose_only_problem_is_the_formatting_variant", perVariant)
	r.Set("B_runs_per_command_and_format", per)
	r.Set("B_workspaces_per_input_shape_and_layout", perShape)
	if !r.Expired() && only == "" {
		if cst.exit0.Load() == 0 || cst.exit100.Load() == 0 || cst.exitOther.Load() == 0 {
			r.Incomplete("vacuous: an exit-status class was never observed")
		}
		if cst.annotationsCompared.Load() == 0 || cst.noFileAnnotations.Load() == 0 || cst.configIgnoreYAML.Load() == 0 ||
			cst.formatClean.Load() == 0 || cst.formatDiff.Load() == 0 || cst.formatParseError.Load() == 0 {
			r.Incomplete("vacuous: a CLI clause was never exercised")
		}
		if cst.viaScanOnly.Load() == 0 || cst.formatRewrote.Load() == 0 || cst.formatWroteOutput.Load() == 0 ||
			cst.formatModesCompared.Load() == 0 || cst.buildOutputWritten.Load() == 0 {
			r.Incomplete("vacuous: no run where only the package scan sees the problem / no format -w run that rewrote / no format -o run with different output / no output mode compared / no build -o image")
		}
		if want("B1") {
			for _, nm := range namings {
				if perNamingJUnit[nm.ID] == 0 {
					r.Incomplete("vacuous: no junit rendering of an annotation with a file compared under file naming " + nm.ID)
				}
			}
			for _, v := range formatVariants {
				if perVariant[v.ID] == 0 {
					r.Incomplete("vacuous: `buf format -w` never rewrote a workspace whose only problem is the formatting variant " + v.ID + " (the formatter accepts it: not a variant)")
				}
			}
		}
		for _, layout := range layouts {
			for _, sh := range shapes {
				if perShape[sh.ID+"/"+layout] == 0 {
					r.Incomplete("vacuous: no workspace for input shape " + sh.ID + ", layout " + layout)
				}
			}
		}
	}
}
