// Package c20 is the check for property C20 (see DESIGN.md section 3).
package c20
