package c20

// B4: faults in the environment of a command (round 4).
//
// Every other phase runs buf in a healthy environment: the two standard streams accept every byte and the
// helper program `buf format` shells out to (`diff`) is on the PATH and works. The verdict of the property is
// about what was *printed* / *found*, so the places where printing or finding can fail are a dimension of
// their own:
//
//	F1  the stream that carries the report (stdout for lint, breaking and format; stderr for the compile
//	    annotations of build) refuses a write: a sink that is full after k bytes, for k at the structural
//	    positions of the fault-free output (first byte, second byte, end of the first line = second write of
//	    a line printer, one byte into the second line, last byte), as ENOSPC (short write + error) and as
//	    EPIPE (nothing taken), x command x --error-format x planted set.
//	    Oracle (property text: 100 exactly when annotations were printed / a difference was reported, 0 exactly
//	    when there is nothing to report, another non-zero status for operational errors): a run whose report
//	    stream refused a write exits neither 0 nor 100, says why on stderr (when stderr is not the refused
//	    stream), and every --error-format exits with the same status under the same fault.
//	F2  the external diff tool and the temporary directory it needs, each in every state in which it cannot
//	    do its work without saying anything: not on the PATH, a non-executable file, a directory, a dangling
//	    link, not a program (ENOEXEC), exits 1 / 2 without output, killed by a signal; TMPDIR missing / a
//	    regular file; control: a PATH holding only a link to the real tool.
//	    x planted set (clean, unformatted plants, formatting variants, next to a lint plant) x input shape
//	    x the six output modes of `buf format --exit-code`.
//	    Oracle: the plant model says a target is not formatted => status 0 is wrong; status 100 only when the
//	    difference is shown (as everywhere else in part B); any other status needs a message on stderr.
//	    Clean workspace => never 100, and 0 only with nothing reported.

import (
	"bytes"
	"context"
	"fmt"
	"io"
	"os"
	"os/exec"
	"path/filepath"
	"sort"
	"strings"
	"sync"
	"sync/atomic"
	"syscall"

	"github.com/bufbuild/buf/private/buf/cmd/buf"
	"github.com/bufbuild/buf/private/pkg/app"
	"github.com/bufbuild/buf/private/pkg/app/appcmd"
	"github.com/bufbuild/bufverif/internal/evid"
)

// faultSink is a stream that is full after limit bytes.
type faultSink struct {
	buf     bytes.Buffer
	limit   int    // < 0: never full
	kind    string // enospc: takes what fits, then fails; epipe: takes nothing of the write that does not fit
	refused bool
}

func (s *faultSink) Write(p []byte) (int, error) {
	if s.limit < 0 {
		return s.buf.Write(p)
	}
	room := s.limit - s.buf.Len()
	if room >= len(p) {
		return s.buf.Write(p)
	}
	s.refused = true
	if s.kind == "epipe" {
		return 0, &os.PathError{Op: "write", Path: "/dev/stdout", Err: syscall.EPIPE}
	}
	if room < 0 {
		room = 0
	}
	s.buf.Write(p[:room])
	return room, &os.PathError{Op: "write", Path: "/dev/stdout", Err: syscall.ENOSPC}
}

// runBufStreams is bufx.RunCLI with the two output streams supplied by the caller.
func runBufStreams(ctx context.Context, args []string, stdout, stderr io.Writer) (exit int) {
	env := map[string]string{"HOME": "/nonexistent-verif-home", "BUF_CACHE_DIR": "/nonexistent-verif-home/.cache"}
	all := append(append([]string{"buf"}, args...), "--timeout", "0")
	container := app.NewContainer(env, strings.NewReader(""), stdout, stderr, all...)
	return app.GetExitCode(appcmd.Run(ctx, container, buf.NewRootCommand("buf")))
}

type faultStats struct {
	sinkCells, sinkRuns, sinkRefused, sinkNotReached atomic.Int64
	sinkFormatsCompared                              atomic.Int64
	toolRuns, toolControl100, toolMustFail, toolClean atomic.Int64
	mu                                               sync.Mutex
	perStream, perPosition, perState                 map[string]int
}

type sinkCase struct {
	Planted   []string `json:"planted"`
	Shape     string   `json:"input_shape"`
	Command   string   `json:"command"`
	Args      []string `json:"args"`
	Format    string   `json:"format"`
	Stream    string   `json:"refused_stream"`
	Kind      string   `json:"fault"`
	Position  string   `json:"position"`
	Limit     int      `json:"sink_full_after_bytes"`
	FaultFree int      `json:"fault_free_bytes"`
	Exit      int      `json:"exit"`
	Stdout    string   `json:"stdout"`
	Stderr    string   `json:"stderr"`
	Note      string   `json:"note,omitempty"`
}

// plantSet turns plant IDs into indices.
func plantSet(ids ...string) []int {
	var set []int
	for _, id := range ids {
		found := false
		for i, p := range plants {
			if p.ID == id {
				set = append(set, i)
				found = true
			}
		}
		if !found {
			panic("no plant " + id)
		}
	}
	sort.Ints(set)
	return set
}

func shapeByID(id string) shape {
	for _, sh := range shapes {
		if sh.ID == id {
			return sh
		}
	}
	panic(id)
}

// faultWorkspace writes one workspace of the single layout below root and returns the command-line pieces.
func faultWorkspace(root string, set []int, sh shape, cmd string) (inputSpec, map[string]string, error) {
	files, ok := render(set)
	if !ok {
		return inputSpec{}, nil, fmt.Errorf("planted set cannot be rendered")
	}
	base, _ := render(nil)
	dir, against := filepath.Join(root, "ws"), filepath.Join(root, "old-ws")
	if err := writeFiles(dir, files); err != nil {
		return inputSpec{}, nil, err
	}
	if err := writeFiles(against, base); err != nil {
		return inputSpec{}, nil, err
	}
	var sp inputSpec
	sp.in, sp.extra = sh.input("single", dir, namings[0])
	sp.against, _ = sh.input("single", against, namings[0])
	sp.out = filepath.Join(root, "out-"+cmd)
	if sh.Kind == "file" {
		sp.out += ".proto"
	}
	return sp, files, nil
}

// sinkPositions: the structural positions of an output of n bytes whose first line ends at byte nl (0: no inner line end).
func sinkPositions(out string) (ks []int, names []string) {
	n := len(out)
	add := func(k int, name string) {
		if k < 0 || k >= n {
			return
		}
		for _, have := range ks {
			if have == k {
				return
			}
		}
		ks, names = append(ks, k), append(names, name)
	}
	add(0, "first-byte")
	add(1, "second-byte")
	if nl := strings.IndexByte(out, '\n'); nl >= 0 && nl+1 < n {
		add(nl+1, "end-of-first-line")
		add(nl+2, "inside-second-line")
	}
	add(n/2, "middle")
	add(n-1, "last-byte")
	return ks, names
}

type sinkCell struct {
	set    []int
	shape  string
	cmd    string
	format string
}

func cliFaults(ctx context.Context, r *evid.Run, scratch string) *faultStats {
	st := &faultStats{perStream: map[string]int{}, perPosition: map[string]int{}, perState: map[string]int{}}
	sinkFaults(ctx, r, st, scratch)
	if !r.Expired() {
		toolFaults(ctx, r, st, scratch)
	}
	return st
}

// ---- F1: the report stream refuses a write ----

func sinkFaults(ctx context.Context, r *evid.Run, st *faultStats, scratch string) {
	type wsSpec struct {
		ids   []string
		shape string
	}
	// one and two annotations per kind (a line printer writes once per annotation), annotations made by the compiler,
	// by the import resolver, by the package scan of a file reference, a file-less annotation, a format difference
	specs := []wsSpec{
		{[]string{"L1"}, "dir"}, {[]string{"L1", "L2"}, "dir"}, {[]string{"K1"}, "dir"}, {[]string{"K1", "K2"}, "dir"},
		{[]string{"C1"}, "dir"}, {[]string{"M1"}, "dir"}, {[]string{"S3"}, "file-a+"}, {[]string{"U1"}, "dir"},
		{[]string{"L1", "K1", "U1"}, "dir"},
	}
	if !r.Quick() {
		specs = append(specs, wsSpec{[]string{"K3"}, "dir"}, wsSpec{[]string{"L1", "L3"}, "file-a"}, wsSpec{[]string{"C2"}, "dir"},
			wsSpec{[]string{"U1", "U2"}, "dir"}, wsSpec{[]string{"U2"}, "file-b"}, wsSpec{[]string{"L1", "L2", "L3"}, "dir"})
	}
	var cells []sinkCell
	for _, spec := range specs {
		set := plantSet(spec.ids...)
		sh := shapeByID(spec.shape)
		for _, cmd := range []string{"build", "lint", "breaking", "format", "format-d", "format-dw", "format-do"} {
			if isFormatCommand(cmd) && sh.Kind == "pkgfiles" {
				continue
			}
			if want := expect(set, cmd, sh, "single"); want.Exit != 100 {
				continue // nothing goes to the report stream
			}
			fmts := formats
			if isFormatCommand(cmd) {
				fmts = formats[:1]
			} else if cmd == "lint" {
				fmts = append(append([]string(nil), formats...), "config-ignore-yaml")
			}
			for _, f := range fmts {
				cells = append(cells, sinkCell{set, sh.ID, cmd, f})
			}
		}
	}
	st.sinkCells.Store(int64(len(cells)))
	// exits[cell without format][position class + kind] -> format -> exit
	type key struct{ ws, cmd, fault string }
	var mu sync.Mutex
	exits := map[key]map[string]int{}
	samples := map[key]sinkCase{}
	r.ParallelFor(len(cells), 0, func(i int) {
		c := cells[i]
		sh := shapeByID(c.shape)
		root := filepath.Join(scratch, fmt.Sprintf("sink%d", i))
		defer os.RemoveAll(root)
		sp, files, err := faultWorkspace(root, c.set, sh, c.cmd)
		if err != nil {
			r.Incomplete("scratch: " + err.Error())
			return
		}
		args := argsForSpec(c.cmd, sp, c.format)
		ids := plantIDs(c.set)
		reset := func() {
			// -w rewrites the sources, -o leaves an output behind
			if c.cmd == "format-dw" {
				_ = writeFiles(filepath.Join(root, "ws"), files)
			}
			os.RemoveAll(sp.out)
		}
		// the fault-free run tells which stream carries the report and how long it is
		free := [2]*faultSink{{limit: -1}, {limit: -1}}
		freeExit := runBufStreams(ctx, args, free[0], free[1])
		r.Eval(1)
		st.sinkRuns.Add(1)
		reset()
		if freeExit != 100 {
			// the other phases judge this; here it only means there is no report to refuse
			r.Incomplete(fmt.Sprintf("B4: fault-free `buf %s` on %s exited %d, expected 100", strings.Join(args[:1], " "), strings.Join(ids, "+"), freeExit))
			return
		}
		for si, stream := range []string{"stdout", "stderr"} {
			out := free[si].buf.String()
			if out == "" {
				continue
			}
			if stream == "stderr" && free[0].buf.Len() > 0 {
				continue // stderr carries something next to the report on stdout (a warning): not the report stream
			}
			ks, names := sinkPositions(out)
			for pi, k := range ks {
				for _, kind := range []string{"enospc", "epipe"} {
					if kind == "epipe" && r.Quick() && names[pi] != "first-byte" && names[pi] != "end-of-first-line" {
						continue
					}
					sinks := [2]*faultSink{{limit: -1}, {limit: -1}}
					sinks[si] = &faultSink{limit: k, kind: kind}
					exit := runBufStreams(ctx, args, sinks[0], sinks[1])
					reset()
					r.Eval(1)
					st.sinkRuns.Add(1)
					cs := sinkCase{Planted: ids, Shape: c.shape, Command: c.cmd, Args: args, Format: c.format, Stream: stream, Kind: kind, Position: names[pi],
						Limit: k, FaultFree: len(out), Exit: exit, Stdout: sinks[0].buf.String(), Stderr: sinks[1].buf.String()}
					r.SampleEvery(i*64+pi*2+len(kind)%2, 211, func() any { return cs })
					if !sinks[si].refused {
						// buf wrote less than in the fault-free run: not an observation of the fault
						st.sinkNotReached.Add(1)
						continue
					}
					st.sinkRefused.Add(1)
					r.Distinct(fmt.Sprintf("B4sink|%s|%s|%s|%s|%s|%s|%s", strings.Join(ids, "+"), c.shape, c.cmd, c.format, stream, names[pi], kind))
					bump(&st.mu, &st.perStream, stream+"/"+c.cmd)
					bump(&st.mu, &st.perPosition, names[pi]+"/"+kind)
					switch {
					case exit == 0:
						r.Violate("cli/fault/report-stream-refused/"+c.cmd+"/exit-0",
							fmt.Sprintf("`buf %s` exits 0 although there is something to report and %s refused the write of it", c.cmd, stream), cs)
					case exit == 100:
						r.Violate("cli/fault/report-stream-refused/"+c.cmd+"/exit-100",
							fmt.Sprintf("`buf %s` exits 100 (the report was printed) although %s refused the write of it: an operational error told as the verdict on the sources", c.cmd, stream), cs)
					case stream == "stdout" && strings.TrimSpace(cs.Stderr) == "":
						r.Violate("cli/fault/report-stream-refused/"+c.cmd+"/no-message",
							fmt.Sprintf("`buf %s` exits %d after stdout refused a write and says nothing on stderr", c.cmd, exit), cs)
					}
					if c.format != "config-ignore-yaml" {
						k := key{strings.Join(ids, "+") + "|" + c.shape, c.cmd, stream + "/" + names[pi] + "/" + kind}
						mu.Lock()
						if exits[k] == nil {
							exits[k] = map[string]int{}
						}
						exits[k][c.format] = exit
						if c.format == "text" || c.format == formats[0] {
							samples[k] = cs
						}
						mu.Unlock()
					}
				}
			}
		}
	})
	// every --error-format tells the same verdict under the same fault (serial, sorted: deterministic)
	keys := make([]key, 0, len(exits))
	for k := range exits {
		keys = append(keys, k)
	}
	sort.Slice(keys, func(i, j int) bool {
		a, b := keys[i], keys[j]
		if a.ws != b.ws {
			return a.ws < b.ws
		}
		if a.cmd != b.cmd {
			return a.cmd < b.cmd
		}
		return a.fault < b.fault
	})
	for _, k := range keys {
		byFormat := exits[k]
		if len(byFormat) < 2 {
			continue
		}
		st.sinkFormatsCompared.Add(1)
		ref, ok := byFormat["json"]
		if !ok {
			continue
		}
		for _, f := range formats {
			if e, ok := byFormat[f]; ok && e != ref {
				cs := samples[k]
				cs.Note = fmt.Sprintf("exit status per --error-format under this fault: %v", byFormat)
				r.Violate("cli/fault/report-stream-refused/"+k.cmd+"/exit-differs-by-format/"+f,
					fmt.Sprintf("`buf %s --error-format %s` exits %d, json exits %d, for the same sources and the same refused write", k.cmd, f, e, ref), cs)
			}
		}
	}
}

// ---- F2: the diff tool and its temporary directory ----

type toolState struct {
	ID string
	// OK: the tool can do its work (control)
	OK bool
	// prepare makes the directory that becomes the PATH (tool states) or returns the TMPDIR value (tmpdir states)
	TmpDir bool
}

var toolStates = []toolState{
	{ID: "diff-linked", OK: true},
	{ID: "diff-absent"},
	{ID: "diff-not-executable"},
	{ID: "diff-is-a-directory"},
	{ID: "diff-dangling-link"},
	{ID: "diff-not-a-program"},
	{ID: "diff-exits-2-silently"},
	{ID: "diff-exits-1-silently"},
	{ID: "diff-killed"},
	{ID: "tmpdir-missing", TmpDir: true},
	{ID: "tmpdir-is-a-file", TmpDir: true},
}

func prepareToolState(dir, state, realDiff string) (string, error) {
	if err := os.MkdirAll(dir, 0o755); err != nil {
		return "", err
	}
	tool := filepath.Join(dir, "diff")
	script := func(body string) error { return os.WriteFile(tool, []byte("#!/bin/sh\n"+body+"\n"), 0o755) }
	switch state {
	case "diff-linked":
		return dir, os.Symlink(realDiff, tool)
	case "diff-absent":
		return dir, nil
	case "diff-not-executable":
		return dir, os.WriteFile(tool, []byte("#!/bin/sh\nexec "+realDiff+" \"$@\"\n"), 0o644)
	case "diff-is-a-directory":
		return dir, os.Mkdir(tool, 0o755)
	case "diff-dangling-link":
		return dir, os.Symlink(filepath.Join(dir, "gone"), tool)
	case "diff-not-a-program":
		return dir, os.WriteFile(tool, garbage, 0o755)
	case "diff-exits-2-silently":
		return dir, script("exit 2")
	case "diff-exits-1-silently":
		return dir, script("exit 1")
	case "diff-killed":
		return dir, script("kill -9 $$")
	case "tmpdir-missing":
		return filepath.Join(dir, "gone"), nil
	case "tmpdir-is-a-file":
		return filepath.Join(dir, "file"), os.WriteFile(filepath.Join(dir, "file"), []byte("x"), 0o644)
	}
	return "", fmt.Errorf("unknown state %s", state)
}

type toolCase struct {
	State   string            `json:"environment"`
	Planted []string          `json:"planted"`
	Shape   string            `json:"input_shape"`
	Files   map[string]string `json:"files,omitempty"`
	Command string            `json:"command"`
	Args    []string          `json:"args"`
	Exit    int               `json:"exit"`
	Stdout  string            `json:"stdout"`
	Stderr  string            `json:"stderr"`
	Shown   bool              `json:"difference_shown"`
	Note    string            `json:"note,omitempty"`
}

func toolFaults(ctx context.Context, r *evid.Run, st *faultStats, scratch string) {
	realDiff, err := exec.LookPath("diff")
	if err != nil {
		r.Incomplete("B4: no diff tool on the PATH of the harness: " + err.Error())
		return
	}
	if abs, err := filepath.Abs(realDiff); err == nil {
		realDiff = abs
	}
	type wsSpec struct {
		ids   []string
		shape string
	}
	specs := []wsSpec{
		{nil, "dir"}, {[]string{"U1"}, "dir"}, {[]string{"U2"}, "dir"}, {[]string{"U1", "U2"}, "dir"}, {[]string{"U1"}, "file-a"},
		{[]string{"Ua-eof-no-newline"}, "dir"}, {[]string{"Ub-tab-indent"}, "file-b"}, {[]string{"L1", "U1"}, "dir"}, {[]string{"U2"}, "file-a"},
	}
	if !r.Quick() {
		specs = append(specs, wsSpec{nil, "file-a"}, wsSpec{[]string{"U1"}, "path-a"}, wsSpec{[]string{"U2"}, "path-b"}, wsSpec{[]string{"U1"}, "path-b"})
		for _, v := range formatVariants {
			if v.ID != "eof-no-newline" {
				specs = append(specs, wsSpec{[]string{"Ua-" + v.ID}, "dir"})
			}
			if v.ID != "tab-indent" {
				specs = append(specs, wsSpec{[]string{"Ub-" + v.ID}, "file-b"})
			}
		}
	}
	modes := []string{"format", "format-d", "format-w", "format-dw", "format-o", "format-do"}
	type job struct {
		set   []int
		shape shape
		cmd   string
	}
	var jobs []job
	for _, spec := range specs {
		for _, cmd := range modes {
			jobs = append(jobs, job{plantSet(spec.ids...), shapeByID(spec.shape), cmd})
		}
	}
	oldPath, hadPath := os.LookupEnv("PATH")
	oldTmp, hadTmp := os.LookupEnv("TMPDIR")
	restore := func() {
		if hadPath {
			os.Setenv("PATH", oldPath)
		} else {
			os.Unsetenv("PATH")
		}
		if hadTmp {
			os.Setenv("TMPDIR", oldTmp)
		} else {
			os.Unsetenv("TMPDIR")
		}
	}
	defer restore()
	for si, state := range toolStates {
		if r.Expired() {
			return
		}
		value, err := prepareToolState(filepath.Join(scratch, "env-"+state.ID), state.ID, realDiff)
		if err != nil {
			r.Incomplete("B4: cannot prepare environment " + state.ID + ": " + err.Error())
			continue
		}
		// the program is looked up by os/exec in the environment of this process, and the temporary directory is
		// os.TempDir(): both are process-wide, so the states are walked one after the other and only the runs of
		// one state run in parallel
		if state.TmpDir {
			os.Setenv("TMPDIR", value)
		} else {
			os.Setenv("PATH", value)
		}
		r.ParallelFor(len(jobs), 0, func(i int) {
			j := jobs[i]
			root := filepath.Join(scratch, fmt.Sprintf("tool%d-%d", si, i))
			defer os.RemoveAll(root)
			sp, files, err := faultWorkspace(root, j.set, j.shape, j.cmd)
			if err != nil {
				r.Incomplete("scratch: " + err.Error())
				return
			}
			args := argsForSpec(j.cmd, sp, "text")
			var outb, errb bytes.Buffer
			exit := runBufStreams(ctx, args, &outb, &errb)
			r.Eval(1)
			st.toolRuns.Add(1)
			ids := plantIDs(j.set)
			want := expect(j.set, j.cmd, j.shape, "single")
			// was a difference shown / made? (per mode, file by file)
			targets, _, _ := j.shape.scope("single")
			var paths []string
			for keyName, p := range namings[0].Paths {
				if _, ok := files[p]; ok && targets[keyName] {
					paths = append(paths, p)
				}
			}
			sort.Strings(paths)
			shown := false
			switch j.cmd {
			case "format":
				var concat strings.Builder
				for _, p := range paths {
					concat.WriteString(files[p])
				}
				shown = outb.Len() > 0 && outb.String() != concat.String()
			case "format-d":
				shown = outb.Len() > 0
			case "format-w", "format-dw":
				for _, p := range paths {
					data, _ := os.ReadFile(filepath.Join(root, "ws", filepath.FromSlash(p)))
					if string(data) != files[p] {
						shown = true
					}
				}
				if j.cmd == "format-dw" && outb.Len() > 0 {
					shown = true
				}
			case "format-o", "format-do":
				for _, p := range paths {
					at := filepath.Join(sp.out, filepath.FromSlash(p))
					if j.shape.Kind == "file" {
						at = sp.out
					}
					if data, err := os.ReadFile(at); err == nil && string(data) != files[p] {
						shown = true
					}
				}
				if j.cmd == "format-do" && outb.Len() > 0 {
					shown = true
				}
			}
			label := strings.Join(ids, "+")
			if label == "" {
				label = "clean"
			}
			cs := toolCase{State: state.ID, Planted: ids, Shape: j.shape.ID, Files: files, Command: j.cmd, Args: args, Exit: exit, Stdout: outb.String(), Stderr: errb.String(), Shown: shown}
			r.SampleEvery(si*1000+i, 173, func() any { return cs })
			r.Distinct("B4tool|" + state.ID + "|" + label + "|" + j.shape.ID + "|" + j.cmd)
			bump(&st.mu, &st.perState, state.ID)
			class, because := "diff-tool-unusable", "the external diff tool cannot do its work"
			if state.TmpDir {
				class, because = "temp-dir-unusable", "the temporary directory is unusable"
			}
			because += " (" + state.ID + ")"
			if exit != 0 && (strings.Contains(cs.Stderr, "context deadline exceeded") || strings.Contains(cs.Stderr, "context canceled")) {
				return
			}
			switch {
			case state.OK:
				// control: with a PATH that holds nothing but the tool the plant model applies unchanged
				if want.Exit == 100 && exit == 100 {
					st.toolControl100.Add(1)
				}
				if exit != want.Exit {
					r.Violate(fmt.Sprintf("cli/exit-status/%s/want-%d-got-%d", j.cmd, want.Exit, exit),
						fmt.Sprintf("`buf %s` with a PATH holding only the diff tool: exit %d, the plant model says %d", j.cmd, exit, want.Exit), cs)
				}
			case want.Exit == 100:
				st.toolMustFail.Add(1)
				switch {
				case exit == 0:
					r.Violate("cli/fault/"+class+"/"+j.cmd+"/exit-0",
						fmt.Sprintf("`buf %s` exits 0 (nothing to report) for sources that are not formatted, because %s: an operational failure told as a clean verdict", strings.Join(args[:1], " ")+" --exit-code ["+j.cmd+"]", because), cs)
				case exit == 100 && !shown:
					r.Violate("cli/fault/"+class+"/"+j.cmd+"/exit-100-nothing-shown",
						fmt.Sprintf("`buf %s` exits 100 but shows / writes no difference (%s)", j.cmd, state.ID), cs)
				case exit != 100 && strings.TrimSpace(cs.Stderr) == "":
					r.Violate("cli/fault/"+class+"/"+j.cmd+"/no-message",
						fmt.Sprintf("`buf %s` exits %d and says nothing on stderr (%s)", j.cmd, exit, state.ID), cs)
				}
			default:
				st.toolClean.Add(1)
				switch {
				case exit == 100:
					r.Violate("cli/fault/"+class+"/"+j.cmd+"/clean-exit-100",
						fmt.Sprintf("`buf %s` exits 100 on formatted sources (%s)", j.cmd, state.ID), cs)
				case exit == 0 && (j.cmd == "format-d" || j.cmd == "format-dw" || j.cmd == "format-do") && outb.Len() > 0:
					r.Violate("cli/exit-0-but-output/"+j.cmd, fmt.Sprintf("`buf %s` exits 0 and prints a diff (%s)", j.cmd, state.ID), cs)
				case exit != 0 && strings.TrimSpace(cs.Stderr) == "":
					r.Violate("cli/fault/"+class+"/"+j.cmd+"/no-message",
						fmt.Sprintf("`buf %s` exits %d and says nothing on stderr (%s)", j.cmd, exit, state.ID), cs)
				}
			}
		})
		restore()
	}
}
