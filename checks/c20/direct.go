package c20

// Part A: bufanalysis.NewFileAnnotationSet + PrintFileAnnotationSet driven directly.
//
// The ground truth is the list of annotations this file constructs; the reference model is
// refSortDedupe (documented order of a FileAnnotationSet) + `agree` (what each format carries).

import (
	"bytes"
	"fmt"
	"regexp"
	"sort"
	"strconv"
	"strings"
	"sync/atomic"

	"github.com/bufbuild/buf/private/bufpkg/bufanalysis"
	"github.com/bufbuild/bufverif/internal/evid"
)

// ann is the ground truth for one annotation.
type ann struct {
	NoFile bool   `json:"no_file,omitempty"`
	Path   string `json:"path"`
	SL     int    `json:"sl"`
	SC     int    `json:"sc"`
	EL     int    `json:"el"`
	EC     int    `json:"ec"`
	Type   string `json:"type"`
	Msg    string `json:"msg"`
	Plugin string `json:"plugin,omitempty"`
	// FromJSON: this record was read from a json rendering (part B), where an unknown position is
	// rendered as 1; a 1 is then compatible with "absent", 0 and 1 in the other formats.
	FromJSON bool `json:"from_json,omitempty"`
}

type fileInfo struct{ path, external string }

func (f fileInfo) Path() string         { return f.path }
func (f fileInfo) ExternalPath() string { return f.external }

func (a ann) real() bufanalysis.FileAnnotation {
	var fi bufanalysis.FileInfo
	if !a.NoFile {
		// the internal path differs from the external one: every rendering must show the external path
		fi = fileInfo{"internal-root/" + a.Path, a.Path}
	}
	return bufanalysis.NewFileAnnotation(fi, a.SL, a.SC, a.EL, a.EC, a.Type, a.Msg, a.Plugin)
}

func (a ann) wantPath() string {
	if a.NoFile {
		return ""
	}
	return a.Path
}

// identity is what makes two annotations "the same annotation" (everything a rendering can show
// except the plugin suffix, which no set of this check varies inside one set).
func (a ann) identity() string {
	return fmt.Sprintf("%v\x00%s\x00%d\x00%d\x00%d\x00%d\x00%s\x00%s", a.NoFile, a.Path, a.SL, a.SC, a.EL, a.EC, a.Type, a.Msg)
}

func annLess(a, b ann) bool {
	if a.NoFile != b.NoFile {
		return a.NoFile
	}
	if !a.NoFile && a.Path != b.Path {
		return a.Path < b.Path
	}
	if a.SL != b.SL {
		return a.SL < b.SL
	}
	if a.SC != b.SC {
		return a.SC < b.SC
	}
	if a.Type != b.Type {
		return a.Type < b.Type
	}
	if a.Msg != b.Msg {
		return a.Msg < b.Msg
	}
	if a.EL != b.EL {
		return a.EL < b.EL
	}
	return a.EC < b.EC
}

// refSortDedupe is the reference model of a FileAnnotationSet: duplicates removed, then ordered by
// file, start line, start column, type, message, end line, end column (annotations without file first).
func refSortDedupe(in []ann) []ann {
	seen := map[string]bool{}
	var out []ann
	for _, a := range in {
		k := a.identity()
		if seen[k] {
			continue
		}
		seen[k] = true
		out = append(out, a)
	}
	sort.SliceStable(out, func(i, j int) bool { return annLess(out[i], out[j]) })
	return out
}

func sortStrings(s []string) { sort.Strings(s) }

// posAgree: a known position (>0) must be carried exactly; an unknown one (<=0) may be absent or
// rendered as 0 or 1 (all formats print "1" for unknown). strict=false: the format legitimately omits
// the field in this situation.
func posAgree(want int, got *int, strict bool) bool {
	return posAgreeJ(want, got, strict, false)
}

func posAgreeJ(want int, got *int, strict, fromJSON bool) bool {
	if fromJSON && want == 1 {
		want = 0
	}
	if got == nil {
		return !strict || want <= 0
	}
	if want > 0 {
		return *got == want
	}
	return *got == 0 || *got == 1
}

var junitCaseSuffix = regexp.MustCompile(`^(?:_([0-9]+))?(?:_([0-9]+))?$`)

// agree compares one parsed record with the truth on every field the format carries; it returns the
// name of the first disagreeing field ("" = agreement).
func agree(format string, want ann, got parsed) string {
	if got.Path != want.wantPath() {
		return "file"
	}
	lineMsg := want.Msg
	if want.Plugin != "" {
		lineMsg += " (" + want.Plugin + ")"
	}
	switch format {
	case "text", "msvs", "junit":
		if !posAgreeJ(want.SL, got.SL, true, want.FromJSON) {
			return "line"
		}
		if !posAgreeJ(want.SC, got.SC, true, want.FromJSON) {
			return "column"
		}
		if want.Msg != "" && got.Msg != lineMsg {
			return "message"
		}
	case "json":
		if !posAgreeJ(want.SL, got.SL, true, want.FromJSON) {
			return "line"
		}
		if !posAgreeJ(want.SC, got.SC, true, want.FromJSON) {
			return "column"
		}
		if !posAgreeJ(want.EL, got.EL, true, want.FromJSON) {
			return "end-line"
		}
		if !posAgreeJ(want.EC, got.EC, true, want.FromJSON) {
			return "end-column"
		}
		if got.Msg != want.Msg {
			return "message"
		}
		if got.Plugin != want.Plugin {
			return "plugin"
		}
	case "github-actions":
		// the workflow command has no way to give a column without a line, or an end without a start
		if !posAgreeJ(want.SL, got.SL, true, want.FromJSON) {
			return "line"
		}
		if !posAgreeJ(want.SC, got.SC, want.SL > 0, want.FromJSON) {
			return "column"
		}
		if !posAgreeJ(want.EL, got.EL, want.SL > 0, want.FromJSON) {
			return "end-line"
		}
		if !posAgreeJ(want.EC, got.EC, want.SL > 0 && want.EL > 0, want.FromJSON) {
			return "end-column"
		}
		if got.Msg != lineMsg {
			return "message"
		}
	}
	if got.HasType && want.Type != "" && got.Type != want.Type {
		return "rule-id"
	}
	if format == "junit" {
		wantSuite := want.Path
		if want.NoFile {
			wantSuite = noFilePlaceholder
		}
		if got.SuiteName != strings.TrimSuffix(wantSuite, ".proto") {
			return "suite-name"
		}
		if want.Type != "" {
			if !strings.HasPrefix(got.CaseName, want.Type) {
				return "testcase-name"
			}
			m := junitCaseSuffix.FindStringSubmatch(got.CaseName[len(want.Type):])
			if m == nil {
				return "testcase-name"
			}
			var l, c *int
			if m[1] != "" {
				n, _ := strconv.Atoi(m[1])
				l = &n
			}
			if m[2] != "" {
				n, _ := strconv.Atoi(m[2])
				c = &n
			}
			if !posAgreeJ(want.SL, l, true, want.FromJSON) || !posAgreeJ(want.SC, c, true, want.FromJSON) {
				return "testcase-name"
			}
		}
	}
	return ""
}

// Signatures of F7 (github-actions printer writes the file property and the message unescaped).
const (
	sigF7File = "F7/github-actions/file-property-not-escaped"
	sigF7Msg  = "F7/github-actions/message-not-escaped"
)

func ghaPropertyNeedsEscape(s string) bool {
	return strings.ContainsAny(s, "%\r\n,") || strings.Contains(s, ":")
}
func ghaDataNeedsEscape(s string) bool { return strings.ContainsAny(s, "%\r\n") }

// classify maps a failed github-actions comparison to F7 when the texts involved contain characters
// the workflow-command grammar requires to be escaped; anything else keeps the generic signature.
func classify(format, generic string, set []ann) string {
	if format != "github-actions" {
		return generic
	}
	for _, a := range set {
		if !a.NoFile && ghaPropertyNeedsEscape(a.Path) {
			return sigF7File
		}
	}
	for _, a := range set {
		if ghaDataNeedsEscape(a.Msg) || ghaDataNeedsEscape(a.Plugin) {
			return sigF7Msg
		}
	}
	return generic
}

type directCase struct {
	Space    string   `json:"space"`
	Input    []ann    `json:"input_annotations_in_input_order"`
	Expected []ann    `json:"expected_list"`
	Format   string   `json:"format,omitempty"`
	Output   string   `json:"output,omitempty"`
	Parsed   []parsed `json:"parsed,omitempty"`
	Error    string   `json:"error,omitempty"`
}

type directStats struct {
	cases, sets                                       atomic.Int64
	perFormat                                         [5]atomic.Int64
	lineGrammarSkipped                                atomic.Int64
	needJSONEscape, needXMLEscape, needWorkflowEscape atomic.Int64
	f7File, f7Msg, f7SelfChecked                      atomic.Int64
	deduped, reordered, multiSuite                    atomic.Int64
	unknownPos                                        atomic.Int64
	// A4: names with / without the extension, names whose stem is empty or ends in a character of the extension,
	// two-annotation sets, and those whose two different files share the name without the extension
	namesWithExt, namesWithoutExt, namesStemTailInExt atomic.Int64
	namePairs, namePairsSameStem                      atomic.Int64
}

func hasNewline(set []ann) bool {
	for _, a := range set {
		if strings.Contains(a.Path, "\n") || strings.Contains(a.Msg, "\n") || strings.Contains(a.Plugin, "\n") {
			return true
		}
	}
	return false
}

// checkSet renders one annotation set in every format and compares each parse with the model.
func checkSet(r *evid.Run, st *directStats, space string, input []ann) {
	st.sets.Add(1)
	want := refSortDedupe(input)
	reals := make([]bufanalysis.FileAnnotation, len(input))
	for i, a := range input {
		reals[i] = a.real()
	}
	set := bufanalysis.NewFileAnnotationSet(reals...)
	mk := func(format, out string, got []parsed, err error) directCase {
		dc := directCase{Space: space, Input: input, Expected: want, Format: format, Output: out, Parsed: got}
		if err != nil {
			dc.Error = err.Error()
		}
		return dc
	}
	if len(want) < len(input) {
		st.deduped.Add(1)
	}
	for i := range want {
		if i < len(input) && want[i].identity() != input[i].identity() {
			st.reordered.Add(1)
			break
		}
	}
	newline := hasNewline(want)
	for fi, format := range formats {
		var buf bytes.Buffer
		if err := bufanalysis.PrintFileAnnotationSet(&buf, set, format); err != nil {
			r.Violate(classify(format, "direct/print-error/"+format, want), fmt.Sprintf("PrintFileAnnotationSet(%s) failed: %v", format, err), mk(format, buf.String(), nil, err))
			continue
		}
		out := buf.String()
		if (format == "text" || format == "msvs") && newline {
			// the gcc and msvs line grammars have no escape for a newline: nothing to demand
			st.lineGrammarSkipped.Add(1)
			continue
		}
		r.Eval(1)
		st.cases.Add(1)
		st.perFormat[fi].Add(1)
		got, err := parseFormat(format, out)
		if err != nil {
			sig := classify(format, "direct/malformed/"+format, want)
			countF7(st, sig)
			if strings.HasPrefix(sig, "F7/") {
				selfCheckF7(r, st, want)
			}
			r.Violate(sig, f7What(sig)+fmt.Sprintf("%s rendering does not parse back: %v", format, err), mk(format, out, nil, err))
			continue
		}
		if len(got) != len(want) {
			sig := classify(format, "direct/count/"+format, want)
			countF7(st, sig)
			if strings.HasPrefix(sig, "F7/") {
				selfCheckF7(r, st, want)
			}
			r.Violate(sig, f7What(sig)+fmt.Sprintf("%s rendering carries %d annotations, the set has %d", format, len(got), len(want)), mk(format, out, got, nil))
			continue
		}
		if kind, i := firstDisagreement(format, want, got); kind != "" {
			sig := classify(format, "direct/"+kind+"/"+format, want)
			countF7(st, sig)
			if strings.HasPrefix(sig, "F7/") {
				selfCheckF7(r, st, want)
			}
			r.Violate(sig, f7What(sig)+fmt.Sprintf("%s rendering disagrees with the expected list (%s, annotation %d of %d): want %+v got %+v", format, kind, i+1, len(want), want[i], got[i]), mk(format, out, got, nil))
		}
	}
}

// firstDisagreement compares the parsed list with the expected list. kind is "" (agreement), "order" (the
// parsed list is a permutation of the expected one) or "field/<name>" (first disagreeing field).
func firstDisagreement(format string, want []ann, got []parsed) (kind string, index int) {
	for i := range want {
		field := agree(format, want[i], got[i])
		if field == "" {
			continue
		}
		if len(want) <= 6 {
			for _, perm := range permutations(len(want)) {
				ok := true
				for k, j := range perm {
					if agree(format, want[k], got[j]) != "" {
						ok = false
						break
					}
				}
				if ok {
					return "order", i
				}
			}
		}
		return "field/" + field, i
	}
	return "", 0
}

func permutations(n int) [][]int {
	var out [][]int
	cur := make([]int, 0, n)
	used := make([]bool, n)
	var rec func()
	rec = func() {
		if len(cur) == n {
			out = append(out, append([]int(nil), cur...))
			return
		}
		for i := 0; i < n; i++ {
			if !used[i] {
				used[i] = true
				cur = append(cur, i)
				rec()
				cur = cur[:len(cur)-1]
				used[i] = false
			}
		}
	}
	rec()
	return out
}

// f7What is the defect-level description put in front of the case-level detail for the F7 signatures.
func f7What(sig string) string {
	switch sig {
	case sigF7File:
		return "F7: the github-actions printer writes the file= property unescaped (',' ':' '%' CR LF must be %2C %3A %25 %0D %0A), so a runner reads a different file or drops the command: "
	case sigF7Msg:
		return "F7: the github-actions printer writes the message unescaped ('%' CR LF must be %25 %0D %0A), so a runner reads a different or truncated message: "
	}
	return ""
}

// refGithubActions renders the list the way the workflow-command grammar requires (escaped). It is used only
// to show that the github-actions oracle accepts a correct rendering of every case it rejects (self-check
// of refannot, never compared with buf's output).
func refGithubActions(list []ann) string {
	escData := strings.NewReplacer("%", "%25", "\r", "%0D", "\n", "%0A")
	escProp := strings.NewReplacer("%", "%25", "\r", "%0D", "\n", "%0A", ":", "%3A", ",", "%2C")
	var b strings.Builder
	for _, a := range list {
		file := a.Path
		if a.NoFile {
			file = noFilePlaceholder
		}
		b.WriteString("::error file=" + escProp.Replace(file))
		if a.SL > 0 {
			fmt.Fprintf(&b, ",line=%d", a.SL)
			if a.SC > 0 {
				fmt.Fprintf(&b, ",col=%d", a.SC)
			}
			if a.EL > 0 {
				fmt.Fprintf(&b, ",endLine=%d", a.EL)
				if a.EC > 0 {
					fmt.Fprintf(&b, ",endColumn=%d", a.EC)
				}
			}
		}
		msg := a.Msg
		if a.Plugin != "" {
			msg += " (" + a.Plugin + ")"
		}
		b.WriteString("::" + escData.Replace(msg) + "\n")
	}
	return b.String()
}

func selfCheckF7(r *evid.Run, st *directStats, want []ann) {
	got, err := parseGithubActions(refGithubActions(want))
	if err == nil && len(got) == len(want) {
		if kind, _ := firstDisagreement("github-actions", want, got); kind == "" {
			st.f7SelfChecked.Add(1)
			return
		}
	}
	r.Incomplete(fmt.Sprintf("refannot self-check failed: a correctly escaped github-actions rendering of %+v is not accepted (%v)", want, err))
}

func countF7(st *directStats, sig string) {
	switch sig {
	case sigF7File:
		st.f7File.Add(1)
	case sigF7Msg:
		st.f7Msg.Add(1)
	}
}

// fragment alphabets of the hostile-text space
var pathFragments = []string{"a", `"`, "<", "&", "\n", "%", ",", "::", "é"}
var msgFragments = []string{"a", `"`, "<", "&", "\n", "%", ",", "::", "é", "\r", "25"}

func fragmentStrings(frags []string, minLen, maxLen int) []string {
	var out []string
	var rec func(prefix string, left int)
	for l := minLen; l <= maxLen; l++ {
		rec = func(prefix string, left int) {
			if left == 0 {
				out = append(out, prefix)
				return
			}
			for _, f := range frags {
				rec(prefix+f, left-1)
			}
		}
		rec("", l)
	}
	return out
}

func tame(s string) bool { return strings.Trim(s, "a") == "" }

// canonicalProbes runs the smallest members of the A1 space that need workflow-command escaping first and
// sequentially, so that the case recorded for a signature is the same in every run.
func canonicalProbes(r *evid.Run, st *directStats) {
	base := ann{Path: "a", SL: 12, SC: 1, EL: 12, EC: 12, Type: "RULE_ID", Msg: "a"}
	for _, p := range []string{",", "::", "\n"} {
		a := base
		a.Path = "a" + p + "a"
		checkSet(r, st, "A1-hostile-texts", []ann{a})
	}
	for _, m := range []string{"\n", "\r", "%25"} {
		a := base
		a.Msg = "a" + m + "a"
		checkSet(r, st, "A1-hostile-texts", []ann{a})
	}
}

// hostileTexts: every (file, message) pair of the fragment space as a one-annotation set.
func hostileTexts(r *evid.Run, st *directStats) {
	canonicalProbes(r, st)
	maxPath, maxMsg := 3, 3
	paths := fragmentStrings(pathFragments, 1, maxPath)
	msgs := fragmentStrings(msgFragments, 0, maxMsg)
	r.Set("A1_path_fragments", pathFragments)
	r.Set("A1_message_fragments", msgFragments)
	r.Set("A1_paths", len(paths)+1)
	r.Set("A1_messages", len(msgs))
	// quick: full product only for paths of <= 2 fragments; 3-fragment paths meet messages of <= 1 fragment
	quickMsgs := fragmentStrings(msgFragments, 0, 1)
	var pairs atomic.Int64
	r.ParallelFor(len(paths)+1, 0, func(pi int) {
		a := ann{SL: 12, SC: 1, EL: 12, EC: 12, Type: "RULE_ID"}
		nfrag := 0
		if pi == len(paths) {
			a.NoFile = true
		} else {
			a.Path = paths[pi]
			nfrag = fragCount(pathFragments, a.Path, maxPath)
		}
		ms := msgs
		if r.Quick() && nfrag == 3 {
			ms = quickMsgs
		}
		for mi, m := range ms {
			a.Msg = m
			pairs.Add(1)
			checkSet(r, st, "A1-hostile-texts", []ann{a})
			if !(tame(a.Path) && tame(m)) {
				r.Distinct("A1|" + a.Path + "|" + m)
			}
			all := a.Path + m
			if strings.ContainsAny(all, "\"<&\n\ré") {
				st.needJSONEscape.Add(1)
			}
			if strings.ContainsAny(all, "\"<&\n\r") {
				st.needXMLEscape.Add(1)
			}
			if ghaPropertyNeedsEscape(a.Path) || ghaDataNeedsEscape(m) {
				st.needWorkflowEscape.Add(1)
			}
			r.SampleEvery(pi*len(msgs)+mi, 104729, func() any { return directCase{Space: "A1-hostile-texts", Input: []ann{a}} })
		}
	})
	r.Set("A1_pairs_run", pairs.Load())
}

// fragCount returns the minimal number of fragments that spell s (bounded by max).
func fragCount(frags []string, s string, max int) int {
	for n := 0; n <= max; n++ {
		if spells(frags, s, n) {
			return n
		}
	}
	return max
}

func spells(frags []string, s string, n int) bool {
	if n == 0 {
		return s == ""
	}
	for _, f := range frags {
		if strings.HasPrefix(s, f) && spells(frags, s[len(f):], n-1) {
			return true
		}
	}
	return false
}

var positions = []int{0, 1, 12}

// positionGrid: every (start line, start column, end line, end column) over {0,1,12} x file kinds x
// type/message/plugin presence.
func positionGrid(r *evid.Run, st *directStats) {
	type fk struct {
		noFile bool
		path   string
	}
	files := []fk{{true, ""}, {false, "a.proto"}, {false, "dir/a"}}
	types := []string{"RULE_ID", ""}
	msgs := []string{`Field "x" <&> é`, ""}
	plugins := []string{"", "buf-plugin-x"}
	var items []ann
	for _, f := range files {
		for _, sl := range positions {
			for _, sc := range positions {
				for _, el := range positions {
					for _, ec := range positions {
						for _, t := range types {
							for _, m := range msgs {
								for _, p := range plugins {
									items = append(items, ann{NoFile: f.noFile, Path: f.path, SL: sl, SC: sc, EL: el, EC: ec, Type: t, Msg: m, Plugin: p})
								}
							}
						}
					}
				}
			}
		}
	}
	r.Set("A2_position_cases", len(items))
	r.ParallelFor(len(items), 0, func(i int) {
		a := items[i]
		checkSet(r, st, "A2-position-grid", []ann{a})
		if a.SL <= 0 || a.SC <= 0 || a.EL <= 0 || a.EC <= 0 {
			st.unknownPos.Add(1)
		}
		r.Distinct(fmt.Sprintf("A2|%+v", a))
	})
}

// setOrder: every ordered tuple (with repetition) of 1..k annotations from a pool in which files,
// positions, types and messages collide in all the ways that matter to ordering, de-duplication and
// JUnit's grouping by file.
func setOrder(r *evid.Run, st *directStats) {
	var pool []ann
	type fk struct {
		noFile bool
		path   string
	}
	files := []fk{{true, ""}, {false, "a.proto"}, {false, "a"}, {false, "b/b.proto"}}
	pos := [][2]int{{0, 0}, {1, 12}, {12, 1}}
	types := []string{"RULE_A", "RULE_B"}
	msgs := []string{"m", `m "<&é`}
	if r.Quick() {
		files = files[:3]
	}
	for _, f := range files {
		for _, p := range pos {
			for _, t := range types {
				for _, m := range msgs {
					pool = append(pool, ann{NoFile: f.noFile, Path: f.path, SL: p[0], SC: p[1], EL: p[0], EC: p[1] + 1, Type: t, Msg: m})
				}
			}
		}
	}
	// two extra entries that differ from a pool entry only in the end position
	pool = append(pool, ann{Path: "a.proto", SL: 1, SC: 12, EL: 12, EC: 1, Type: "RULE_A", Msg: "m"})
	pool = append(pool, ann{Path: "a.proto", SL: 1, SC: 12, EL: 1, EC: 12, Type: "RULE_A", Msg: "m"})
	n := len(pool)
	r.Set("A3_pool", n)
	total := n + n*n + n*n*n
	r.Set("A3_tuples", total)
	r.ParallelFor(total, 0, func(i int) {
		var input []ann
		switch {
		case i < n:
			input = []ann{pool[i]}
		case i < n+n*n:
			j := i - n
			input = []ann{pool[j/n], pool[j%n]}
		default:
			j := i - n - n*n
			input = []ann{pool[j/(n*n)], pool[(j/n)%n], pool[j%n]}
		}
		checkSet(r, st, "A3-set-order", input)
		want := refSortDedupe(input)
		suites := map[string]bool{}
		for _, a := range want {
			suites[fmt.Sprint(a.NoFile, a.Path)] = true
		}
		if len(suites) > 1 {
			st.multiSuite.Add(1)
		}
		if len(input) > 1 {
			key := make([]string, len(input))
			for k, a := range input {
				key[k] = a.identity()
			}
			r.Distinct("A3|" + strings.Join(key, "|"))
		}
		r.SampleEvery(i, 15013, func() any { return directCase{Space: "A3-set-order", Input: input, Expected: want} })
	})
}

// nameFragments spell file names around the extension every buf input file carries: the letters of the
// extension as the tail of the stem, the extension itself (once, twice, in the middle, as the whole name, without
// its dot), directories.
var nameFragments = []string{"a", "p", "r", "o", "t", ".", "/", ".proto", "proto"}

const protoExt = ".proto"

// fileNames: every file name of <= 3 name fragments as a one-annotation set, and every ordered pair of the
// names of <= 2 fragments over {a, t, /, .proto} as a two-annotation set (two files whose names differ only
// around the extension: which suite an annotation lands in, in which order). A format that derives a field from
// the file name (JUnit: suite name = name without the extension) must name the same file as the others.
func fileNames(r *evid.Run, st *directStats) {
	names := fragmentStrings(nameFragments, 1, 3)
	pairPool := fragmentStrings([]string{"a", "t", "/", protoExt}, 1, 2)
	r.Set("A4_name_fragments", nameFragments)
	r.Set("A4_names", len(names))
	r.Set("A4_pair_pool", len(pairPool))
	np := len(pairPool)
	r.Set("A4_pairs", np*np)
	base := ann{SL: 12, SC: 1, EL: 12, EC: 12, Type: "RULE_ID", Msg: "m"}
	r.ParallelFor(len(names)+np*np, 0, func(i int) {
		if i < len(names) {
			a := base
			a.Path = names[i]
			checkSet(r, st, "A4-file-names", []ann{a})
			r.Distinct("A4|" + a.Path)
			if stem, ok := strings.CutSuffix(a.Path, protoExt); ok {
				st.namesWithExt.Add(1)
				if stem == "" || strings.ContainsAny(stem[len(stem)-1:], protoExt) {
					st.namesStemTailInExt.Add(1)
				}
			} else {
				st.namesWithoutExt.Add(1)
			}
			r.SampleEvery(i, 211, func() any { return directCase{Space: "A4-file-names", Input: []ann{a}} })
			return
		}
		j := i - len(names)
		a, b := base, base
		a.Path, b.Path = pairPool[j/np], pairPool[j%np]
		b.Type = "RULE_B"
		checkSet(r, st, "A4-file-names", []ann{a, b})
		st.namePairs.Add(1)
		if a.Path != b.Path && strings.TrimSuffix(a.Path, protoExt) == strings.TrimSuffix(b.Path, protoExt) {
			st.namePairsSameStem.Add(1)
		}
		r.Distinct("A4|" + a.Path + "|" + b.Path)
	})
}
