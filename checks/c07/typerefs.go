package c07

import (
	"fmt"
	"sort"
	"strings"

	"github.com/bufbuild/protocompile/ast"
)

// Generated seeds: the "type reference" dimension (strengthening round 2).
//
// A reference to a message / enum / extension is an identifier in one of four lexical shapes, and
// the printer has a different writer for (almost) every position a reference can stand in:
// a field WITH a label prints the type inline (writeCompoundIdent), a field WITHOUT a label
// (proto3 / editions singular field, oneof member, label-less extension field, label-less field in a
// group) starts the line with the type, so the type's first token - the leading '.' of a fully
// qualified name - carries the declaration's leading comments (writeCompoundIdentForFieldName);
// map value types, extendees, rpc request/response types (with and without 'stream'), and extension
// names in option names (first part / later part, ordinary option / first compact option / later
// compact option) and in message-literal keys each go through their own code.
// The spelling decides what the name MEANS ('.a.X' is absolute, 'a.X' is resolved relative to the
// enclosing scopes and can be shadowed by a nested message or a package component), so a printer
// that loses or invents a '.' changes the descriptors. The files below are the full product
//
//	syntax    {proto2, proto3, editions 2023}
//	x spelling {T | refs.T.U | .refs.T.U | .T}   (ident, relative compound (3 components = first/inner/last),
//	                                              fully qualified with leading dot, leading dot + 1 component)
//	x position (every one listed in typeRefFile; labels per syntax)
//
// one file per (syntax, spelling); every token gap of every file then gets every decoration like any
// other seed (a comment / blank line / line break before and after every '.' and every component in
// every position). The files only need to parse (the same text R stands in message, extendee and
// extension-name positions, so they are not meant to link); the names nevertheless show why the
// spelling matters: package refs, message T with a nested message U, and a nested message 'refs'
// inside the referencing message P, so that inside P 'refs.T.U' and '.refs.T.U' are different names.
// The unlinked descriptor keeps the reference text as written, so oracle 3 sees a lost / invented '.'
// without any linking.

type refSpelling struct{ name, text string }

var refSpellings = []refSpelling{
	{"ident", "T"},
	{"relative_compound", "refs.T.U"},
	{"leading_dot", ".refs.T.U"},
	{"leading_dot_single", ".T"},
}

type refSyntax struct {
	name, header string
	labels       []string // labels a field may carry in this syntax
	groups       bool
	extRanges    bool
}

var refSyntaxes = []refSyntax{
	{"proto2", "syntax = \"proto2\";\n", []string{"optional", "required", "repeated"}, true, true},
	{"proto3", "syntax = \"proto3\";\n", []string{"optional", "repeated"}, false, false},
	{"editions", "edition = \"2023\";\n", []string{"repeated"}, false, true},
}

// typeRefFile renders every position of a type reference with the spelling R.
func typeRefFile(sx refSyntax, R string) string {
	var sb strings.Builder
	w := func(format string, args ...any) { fmt.Fprintf(&sb, format, args...) }
	// Message-literal keys do not admit a leading dot (protocompile grammar): use the dot-less text there.
	K := strings.TrimPrefix(R, ".")
	w("%s", sx.header)
	w("package refs;\n")
	w("option (%s) = 1;\n", R)
	w("option (%s).x.(%s) = 2;\n", R, R)
	w("option (lit) = { [%s]: 1 [type.googleapis.com/%s]: { a: 1 } };\n", K, K)
	w("message T {\n  message U {}\n")
	if sx.extRanges {
		w("  extensions 100 to 200;\n")
	}
	w("}\n")
	w("message P {\n")
	w("  %s first = 1;\n", R) // label-less, first declaration of a body
	w("  option (%s) = true;\n", R)
	w("  message refs {}\n") // shadows the package name for relative resolution inside P
	n := 2
	w("  %s bare = %d;\n", R, n)
	n++
	w("  %s bare_opts = %d [(%s) = 1, (%s).y = 2, deprecated = true];\n", R, n, R, R)
	n++
	for _, l := range sx.labels {
		w("  %s %s f_%s = %d;\n", l, R, l, n)
		n++
	}
	w("  %s %s lab_opts = %d [deprecated = true, (%s) = 1];\n", sx.labels[len(sx.labels)-1], R, n, R)
	n++
	w("  map<string, %s> mp = %d;\n", R, n)
	n++
	w("  oneof o {\n    %s o1 = %d;\n    %s o2 = %d [(%s) = 1];\n    option (%s) = 1;\n  }\n", R, n, R, n+1, R, R)
	n += 2
	if sx.groups {
		w("  optional group G = %d {\n    %s g1 = 1;\n    optional %s g2 = 2;\n  }\n", n, R, R)
		n++
	}
	w("  message Q {\n    %s q1 = 1;\n    repeated %s q2 = 2;\n    oneof qo { %s q3 = 3; }\n    message R { %s r1 = 1; }\n  }\n", R, R, R, R)
	w("  extend %s {\n    %s e1 = 100;\n    %s %s e2 = 101;\n  }\n", R, R, sx.labels[0], R)
	w("  enum E {\n    Z = 0 [(%s) = 1];\n    option (%s) = 1;\n  }\n", R, R)
	w("}\n")
	w("extend %s {\n  %s x1 = 110;\n  repeated %s x2 = 111;\n}\n", R, R, R)
	w("service S {\n  option (%s) = 1;\n  rpc A(%s) returns (%s);\n  rpc B(stream %s) returns (stream %s) {\n    option (%s) = 1;\n  }\n  rpc C(%s) returns (stream %s) {}\n}\n", R, R, R, R, R, R, R, R)
	return sb.String()
}

func typeRefSeeds() []struct{ Name, Text string } {
	var out []struct{ Name, Text string }
	for _, sx := range refSyntaxes {
		for _, sp := range refSpellings {
			out = append(out, struct{ Name, Text string }{
				"typerefs/" + sx.name + "_" + sp.name + ".proto", typeRefFile(sx, sp.text)})
		}
	}
	return out
}

// ---------------------------------------------------------------------------------------------
// Coverage census: which (position, spelling) cells the seed corpus contains (measured on the ASTs
// of ALL seeds, not assumed from the generator).
// ---------------------------------------------------------------------------------------------

// refPositions are the positions the run demands for every spelling class (vacuity guard).
var refPositions = []string{
	"field-labelled", "field-unlabelled", "oneof-member-unlabelled", "group-member-unlabelled",
	"extension-field-unlabelled", "extension-field-labelled", "map-value", "extendee",
	"rpc-input", "rpc-output", "rpc-input-stream", "rpc-output-stream",
	"option-name-first-part", "option-name-later-part", "compact-option-name-first", "compact-option-name-later",
}

// refSpellingClasses are the lexical classes the census distinguishes.
var refSpellingClasses = []string{"ident", "compound", "leading-dot-compound", "leading-dot-single"}

func spellingClass(n ast.Node) string {
	switch n := n.(type) {
	case *ast.CompoundIdentNode:
		switch {
		case n.LeadingDot != nil && len(n.Components) == 1:
			return "leading-dot-single"
		case n.LeadingDot != nil:
			return "leading-dot-compound"
		default:
			return "compound"
		}
	case *ast.IdentNode:
		return "ident"
	}
	return ""
}

// isScalarTypeName: built-in scalar types are keywords of the type position, not references.
func isScalarTypeName(n ast.Node) bool {
	id, ok := n.(*ast.IdentNode)
	if !ok {
		return false
	}
	switch id.Val {
	case "double", "float", "int32", "int64", "uint32", "uint64", "sint32", "sint64",
		"fixed32", "fixed64", "sfixed32", "sfixed64", "bool", "string", "bytes":
		return true
	}
	return false
}

// refCensus adds the type references of one file to census ("position/spelling" -> count).
func refCensus(file *ast.FileNode, census map[string]int) {
	add := func(pos string, n ast.Node) {
		if n == nil || isScalarTypeName(n) {
			return
		}
		if c := spellingClass(n); c != "" {
			census[pos+"/"+c]++
		}
	}
	optionName := func(o *ast.OptionNode, compact bool, index int) {
		if o == nil || o.Name == nil {
			return
		}
		for i, p := range o.Name.Parts {
			if !p.IsExtension() {
				continue
			}
			switch {
			case compact && i == 0 && index == 0:
				add("compact-option-name-first", p.Name)
			case compact && i == 0:
				add("compact-option-name-later", p.Name)
			case i == 0:
				add("option-name-first-part", p.Name)
			default:
				add("option-name-later-part", p.Name)
			}
		}
	}
	compact := func(c *ast.CompactOptionsNode) {
		if c == nil {
			return
		}
		for i, o := range c.Options {
			optionName(o, true, i)
		}
	}
	var field func(f *ast.FieldNode, ctx string)
	field = func(f *ast.FieldNode, ctx string) {
		lab := "labelled"
		if f.Label.KeywordNode == nil {
			lab = "unlabelled"
		}
		add(ctx+"-"+lab, f.FldType)
		compact(f.Options)
	}
	var decls func(ds []ast.Node, ctx string)
	decls = func(ds []ast.Node, ctx string) {
		for _, d := range ds {
			switch d := d.(type) {
			case *ast.OptionNode:
				optionName(d, false, 0)
			case *ast.FieldNode:
				field(d, ctx)
			case *ast.MapFieldNode:
				add("map-value", d.MapType.ValueType)
				compact(d.Options)
			case *ast.GroupNode:
				compact(d.Options)
				decls(msgElements(d.Decls), "group-member")
			case *ast.OneofNode:
				var sub []ast.Node
				for _, x := range d.Decls {
					sub = append(sub, x)
				}
				decls(sub, "oneof-member")
			case *ast.MessageNode:
				decls(msgElements(d.Decls), "field")
			case *ast.ExtendNode:
				add("extendee", d.Extendee)
				var sub []ast.Node
				for _, x := range d.Decls {
					sub = append(sub, x)
				}
				decls(sub, "extension-field")
			case *ast.EnumNode:
				for _, x := range d.Decls {
					switch x := x.(type) {
					case *ast.OptionNode:
						optionName(x, false, 0)
					case *ast.EnumValueNode:
						compact(x.Options)
					}
				}
			case *ast.ExtensionRangeNode:
				compact(d.Options)
			case *ast.ServiceNode:
				for _, x := range d.Decls {
					switch x := x.(type) {
					case *ast.OptionNode:
						optionName(x, false, 0)
					case *ast.RPCNode:
						in, out := "rpc-input", "rpc-output"
						if x.Input.Stream != nil {
							in += "-stream"
						}
						if x.Output.Stream != nil {
							out += "-stream"
						}
						add(in, x.Input.MessageType)
						add(out, x.Output.MessageType)
						for _, y := range x.Decls {
							if o, ok := y.(*ast.OptionNode); ok {
								optionName(o, false, 0)
							}
						}
					}
				}
			}
		}
	}
	var top []ast.Node
	for _, d := range file.Decls {
		top = append(top, d)
	}
	decls(top, "field")
}

func msgElements(ds []ast.MessageElement) []ast.Node {
	out := make([]ast.Node, 0, len(ds))
	for _, d := range ds {
		out = append(out, d)
	}
	return out
}

// missingRefCells lists the (position, spelling) cells of the demanded product that no seed contains.
func missingRefCells(census map[string]int) []string {
	var miss []string
	for _, p := range refPositions {
		for _, c := range refSpellingClasses {
			if census[p+"/"+c] == 0 {
				miss = append(miss, p+"/"+c)
			}
		}
	}
	sort.Strings(miss)
	return miss
}
