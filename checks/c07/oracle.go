package c07

import (
	"bytes"
	"fmt"
	"reflect"
	"sort"
	"strings"

	"github.com/bufbuild/buf/private/buf/bufformat"
	"github.com/bufbuild/protocompile/ast"
	"github.com/bufbuild/protocompile/parser"
	"github.com/bufbuild/protocompile/reporter"
	"github.com/bufbuild/protocompile/sourceinfo"
	"google.golang.org/protobuf/proto"
	"google.golang.org/protobuf/reflect/protoreflect"
	"google.golang.org/protobuf/types/descriptorpb"
)

// ---------------------------------------------------------------------------------------------
// Driving the code under test
// ---------------------------------------------------------------------------------------------

// parse is the same call FormatBucket makes: first error aborts.
// A panic inside protocompile's parser (seen for some incomplete productions, e.g. "semicolon is
// nil") is not buf's: the text counts as not parseable.
func parse(name, text string) (file *ast.FileNode, err error) {
	defer func() {
		if p := recover(); p != nil {
			file, err = nil, fmt.Errorf("parser panic: %v", p)
		}
	}()
	return parser.Parse(name, strings.NewReader(text), reporter.NewHandler(nil))
}

// format runs bufformat.FormatFileNode; a panic is reported as a string.
func format(file *ast.FileNode) (out string, err error, panicked string) {
	defer func() {
		if p := recover(); p != nil {
			panicked = fmt.Sprint(p)
		}
	}()
	var buf bytes.Buffer
	err = bufformat.FormatFileNode(&buf, file)
	return buf.String(), err, ""
}

// ---------------------------------------------------------------------------------------------
// Reference view 1: the unlinked descriptor, normalised for what the property lets differ
// (source positions, import order; file-level options are sorted by the formatter, which is
// allowed as long as options with the same name keep their relative order).
// ---------------------------------------------------------------------------------------------

type descView struct {
	fd         *descriptorpb.FileDescriptorProto // normalised
	deps       []string                          // sorted set
	public     []string
	weak       []string
	dupImports bool
	rawDeps    []string // in source order
	fileOpts   []string // option names in source order
}

// lenientHandler never aborts: we want a descriptor for whatever parses.
func lenientHandler() *reporter.Handler {
	return reporter.NewHandler(reporter.NewReporter(func(reporter.ErrorWithPos) error { return nil }, nil))
}

func optName(u *descriptorpb.UninterpretedOption) string {
	var sb strings.Builder
	for i, p := range u.GetName() {
		if i > 0 {
			sb.WriteByte('.')
		}
		if p.GetIsExtension() {
			sb.WriteString("(" + p.GetNamePart() + ")")
		} else {
			sb.WriteString(p.GetNamePart())
		}
	}
	return sb.String()
}

func uniqSorted(in []string) []string {
	m := map[string]bool{}
	for _, s := range in {
		m[s] = true
	}
	out := make([]string, 0, len(m))
	for s := range m {
		out = append(out, s)
	}
	sort.Strings(out)
	return out
}

func view(file *ast.FileNode) (*descView, parser.Result, error) {
	res, _ := parser.ResultFromAST(file, false, lenientHandler())
	if res == nil {
		return nil, nil, fmt.Errorf("no result from AST")
	}
	fd := proto.Clone(res.FileDescriptorProto()).(*descriptorpb.FileDescriptorProto)
	v := &descView{}
	v.rawDeps = append([]string(nil), fd.GetDependency()...)
	v.deps = uniqSorted(fd.GetDependency())
	v.dupImports = len(v.deps) != len(fd.GetDependency())
	for _, i := range fd.GetPublicDependency() {
		if int(i) < len(fd.Dependency) {
			v.public = append(v.public, fd.Dependency[i])
		}
	}
	for _, i := range fd.GetWeakDependency() {
		if int(i) < len(fd.Dependency) {
			v.weak = append(v.weak, fd.Dependency[i])
		}
	}
	v.public = uniqSorted(v.public)
	v.weak = uniqSorted(v.weak)
	fd.SourceCodeInfo = nil
	fd.Dependency = nil
	fd.PublicDependency = nil
	fd.WeakDependency = nil
	fd.Name = nil
	if fd.Options != nil {
		opts := fd.Options.UninterpretedOption
		for _, o := range opts {
			v.fileOpts = append(v.fileOpts, optName(o))
		}
		sort.SliceStable(opts, func(i, j int) bool { return optName(opts[i]) < optName(opts[j]) })
	}
	// Message-literal option values are stored in the unlinked descriptor as the raw token text
	// (aggregate_value). The property is about meaning, so they are replaced by a canonical
	// rendering of the value's AST (protocompile's AST, not buf's): '<>' and '{}' are the same
	// delimiters, ',' / ';' after a field and the ':' before a message value are optional noise,
	// adjacent string literals are one string.
	origFD := res.FileDescriptorProto()
	canonAggregates(res, origFD.ProtoReflect(), fd.ProtoReflect())
	v.fd = fd
	return v, res, nil
}

// canonAggregates walks orig and clone in lock step (clone has the same shape except for cleared
// top-level fields and re-sorted file options, which are handled by looking options up by identity
// in orig) and rewrites aggregate_value in clone.
func canonAggregates(res parser.Result, orig, clone protoreflect.Message) {
	// collect canonical strings keyed by the raw aggregate text + option name: we cannot rely on
	// positions because file options were re-sorted in the clone; use a per-message multimap.
	var walk func(o, c protoreflect.Message)
	walk = func(o, c protoreflect.Message) {
		fields := o.Descriptor().Fields()
		for i := 0; i < fields.Len(); i++ {
			fd := fields.Get(i)
			if fd.Message() == nil || !o.Has(fd) || !c.Has(fd) {
				continue
			}
			if fd.IsList() {
				lo, lc := o.Get(fd).List(), c.Get(fd).List()
				if fd.Message().FullName() == "google.protobuf.UninterpretedOption" {
					canon := map[string][]string{}
					for k := 0; k < lo.Len(); k++ {
						uo := lo.Get(k).Message().Interface().(*descriptorpb.UninterpretedOption)
						if uo.AggregateValue == nil {
							continue
						}
						key := optName(uo) + "\x00" + uo.GetAggregateValue()
						canon[key] = append(canon[key], canonOptionValue(res, uo))
					}
					for k := 0; k < lc.Len(); k++ {
						uc := lc.Get(k).Message().Interface().(*descriptorpb.UninterpretedOption)
						if uc.AggregateValue == nil {
							continue
						}
						key := optName(uc) + "\x00" + uc.GetAggregateValue()
						if q := canon[key]; len(q) > 0 {
							uc.AggregateValue = proto.String(q[0])
							canon[key] = q[1:]
						}
					}
					continue
				}
				if fd.IsMap() {
					continue
				}
				for k := 0; k < lo.Len() && k < lc.Len(); k++ {
					walk(lo.Get(k).Message(), lc.Get(k).Message())
				}
				continue
			}
			walk(o.Get(fd).Message(), c.Get(fd).Message())
		}
	}
	walk(orig, clone)
}

func canonOptionValue(res parser.Result, uo *descriptorpb.UninterpretedOption) string {
	node := res.OptionNode(uo)
	if node == nil {
		return uo.GetAggregateValue()
	}
	val := node.GetValue()
	if val == nil {
		return uo.GetAggregateValue()
	}
	var sb strings.Builder
	canonValue(&sb, val)
	return sb.String()
}

func canonValue(sb *strings.Builder, v ast.ValueNode) {
	switch n := v.(type) {
	case *ast.MessageLiteralNode:
		sb.WriteString("{")
		for i, el := range n.Elements {
			if i > 0 {
				sb.WriteString(" ")
			}
			ref := el.Name
			if ref.Open != nil {
				sb.WriteString("[")
				if ref.URLPrefix != nil {
					sb.WriteString(string(ref.URLPrefix.AsIdentifier()) + "/")
				}
				sb.WriteString(string(ref.Name.AsIdentifier()) + "]")
			} else {
				sb.WriteString(string(ref.Name.AsIdentifier()))
			}
			sb.WriteString(":")
			canonValue(sb, el.Val)
		}
		sb.WriteString("}")
	case *ast.ArrayLiteralNode:
		sb.WriteString("[")
		for i, el := range n.Elements {
			if i > 0 {
				sb.WriteString(",")
			}
			canonValue(sb, el)
		}
		sb.WriteString("]")
	default:
		val := v.Value()
		fmt.Fprintf(sb, "%T(%#v)", val, val)
	}
}

// sameUpToFileOptionOrder: the two views differ only in the order of file-level options.
func sameUpToFileOptionOrder(a, b *descView) bool {
	if a.fd.GetOptions() == nil || b.fd.GetOptions() == nil {
		return false
	}
	ca := proto.Clone(a.fd).(*descriptorpb.FileDescriptorProto)
	cb := proto.Clone(b.fd).(*descriptorpb.FileDescriptorProto)
	for _, fd := range []*descriptorpb.FileDescriptorProto{ca, cb} {
		opts := fd.Options.UninterpretedOption
		key := func(o *descriptorpb.UninterpretedOption) string {
			b, _ := proto.MarshalOptions{Deterministic: true}.Marshal(o)
			return string(b)
		}
		sort.SliceStable(opts, func(i, j int) bool { return key(opts[i]) < key(opts[j]) })
	}
	return proto.Equal(ca, cb)
}

// firstDiff returns a field-name path (no indexes, so it is stable) to the first difference
// between two messages, plus the two differing values rendered.
func firstDiff(a, b protoreflect.Message) (string, string, string) {
	if proto.Equal(a.Interface(), b.Interface()) {
		return "", "", ""
	}
	fields := a.Descriptor().Fields()
	for i := 0; i < fields.Len(); i++ {
		fdesc := fields.Get(i)
		ha, hb := a.Has(fdesc), b.Has(fdesc)
		name := string(fdesc.Name())
		if ha != hb {
			return name, renderField(a, fdesc), renderField(b, fdesc)
		}
		if !ha {
			continue
		}
		va, vb := a.Get(fdesc), b.Get(fdesc)
		switch {
		case fdesc.IsList():
			la, lb := va.List(), vb.List()
			if la.Len() != lb.Len() {
				return name + "#len", fmt.Sprintf("%d: %s", la.Len(), renderField(a, fdesc)), fmt.Sprintf("%d: %s", lb.Len(), renderField(b, fdesc))
			}
			for k := 0; k < la.Len(); k++ {
				if fdesc.Message() != nil {
					if p, x, y := firstDiff(la.Get(k).Message(), lb.Get(k).Message()); p != "" {
						return name + "." + p, x, y
					}
				} else if !reflect.DeepEqual(la.Get(k).Interface(), lb.Get(k).Interface()) {
					return name, fmt.Sprint(la.Get(k).Interface()), fmt.Sprint(lb.Get(k).Interface())
				}
			}
		case fdesc.Message() != nil:
			if p, x, y := firstDiff(va.Message(), vb.Message()); p != "" {
				return name + "." + p, x, y
			}
		default:
			if !va.Equal(vb) {
				return name, fmt.Sprint(va.Interface()), fmt.Sprint(vb.Interface())
			}
		}
	}
	return "unknown-fields", "", ""
}

func renderField(m protoreflect.Message, fd protoreflect.FieldDescriptor) string {
	if !m.Has(fd) {
		return "<absent>"
	}
	s := fmt.Sprint(m.Get(fd).Interface())
	if len(s) > 300 {
		s = s[:300] + "…"
	}
	return s
}

// ---------------------------------------------------------------------------------------------
// Reference view 2: comments (lexical) and their attachment to declarations (source info rules of
// protoc as implemented by protocompile/sourceinfo, not by buf).
// ---------------------------------------------------------------------------------------------

// normComment strips the comment delimiters and collapses whitespace: the formatter may turn
// `//x` into `/* x */` and re-indent block comments; the words of the comment must survive.
func normComment(raw string) string {
	body := raw
	switch {
	case strings.HasPrefix(body, "//"):
		body = strings.TrimPrefix(body, "//")
	case strings.HasPrefix(body, "/*"):
		body = strings.TrimSuffix(strings.TrimPrefix(body, "/*"), "*/")
	}
	return strings.Join(strings.Fields(body), " ")
}

func commentsOf(file *ast.FileNode) []string {
	var out []string
	seq := file.Items()
	for it, ok := seq.First(); ok; it, ok = seq.Next(it) {
		if _, c := file.GetItem(it); c.IsValid() {
			out = append(out, normComment(c.RawText()))
		}
	}
	sort.Strings(out)
	return out
}

func multisetDiff(a, b []string) (missing, extra []string) {
	count := map[string]int{}
	for _, s := range a {
		count[s]++
	}
	for _, s := range b {
		count[s]--
	}
	keys := make([]string, 0, len(count))
	for k := range count {
		keys = append(keys, k)
	}
	sort.Strings(keys)
	for _, k := range keys {
		for n := count[k]; n > 0; n-- {
			missing = append(missing, k)
		}
		for n := count[k]; n < 0; n++ {
			extra = append(extra, k)
		}
	}
	return
}

type attachment struct {
	Text string // normalised comment
	Decl string // declaration key (names, not indexes)
	Role string // leading | trailing | detached
}

// declKey turns a source-info path into a key made of element names so that it survives the
// re-ordering of imports and file options.
func declKey(fd *descriptorpb.FileDescriptorProto, path []int32) string {
	var parts []string
	var m protoreflect.Message = fd.ProtoReflect()
	for i := 0; i < len(path); i++ {
		fdesc := m.Descriptor().Fields().ByNumber(protoreflect.FieldNumber(path[i]))
		if fdesc == nil {
			parts = append(parts, fmt.Sprintf("?%d", path[i]))
			break
		}
		name := string(fdesc.Name())
		if fdesc.IsList() {
			if i+1 >= len(path) {
				parts = append(parts, name)
				break
			}
			i++
			idx := int(path[i])
			list := m.Get(fdesc).List()
			if idx >= list.Len() {
				parts = append(parts, name+"[?]")
				break
			}
			if fdesc.Message() == nil {
				parts = append(parts, fmt.Sprintf("%s:%v", name, list.Get(idx).Interface()))
				break
			}
			m = list.Get(idx).Message()
			parts = append(parts, name+":"+elemName(m))
			continue
		}
		if fdesc.Message() == nil {
			parts = append(parts, name)
			break
		}
		parts = append(parts, name)
		if !m.Has(fdesc) {
			break
		}
		m = m.Get(fdesc).Message()
	}
	return strings.Join(parts, " > ")
}

func elemName(m protoreflect.Message) string {
	switch x := m.Interface().(type) {
	case *descriptorpb.UninterpretedOption:
		return optName(x)
	case *descriptorpb.DescriptorProto_ExtensionRange:
		return fmt.Sprintf("%d-%d", x.GetStart(), x.GetEnd())
	case *descriptorpb.DescriptorProto_ReservedRange:
		return fmt.Sprintf("%d-%d", x.GetStart(), x.GetEnd())
	case *descriptorpb.EnumDescriptorProto_EnumReservedRange:
		return fmt.Sprintf("%d-%d", x.GetStart(), x.GetEnd())
	}
	if nf := m.Descriptor().Fields().ByName("name"); nf != nil && nf.Kind() == protoreflect.StringKind && !nf.IsList() {
		return m.Get(nf).String()
	}
	return ""
}

func attachmentsOf(file *ast.FileNode, res parser.Result) []attachment {
	sci := sourceinfo.GenerateSourceInfo(file, nil)
	fd := res.FileDescriptorProto()
	var out []attachment
	for _, loc := range sci.GetLocation() {
		if loc.LeadingComments == nil && loc.TrailingComments == nil && len(loc.LeadingDetachedComments) == 0 {
			continue
		}
		key := declKey(fd, loc.GetPath())
		if loc.LeadingComments != nil {
			out = append(out, attachment{normSCI(loc.GetLeadingComments()), key, "leading"})
		}
		if loc.TrailingComments != nil {
			out = append(out, attachment{normSCI(loc.GetTrailingComments()), key, "trailing"})
		}
		for _, d := range loc.GetLeadingDetachedComments() {
			out = append(out, attachment{normSCI(d), key, "detached"})
		}
	}
	return out
}

// normSCI normalises a source-info comment string. Source info merges adjacent line comments
// into one string and strips delimiters and leading '*' of block comment lines, so it is not
// comparable 1:1 with lexical comments; attachments are compared word-wise instead.
func normSCI(s string) string {
	return strings.Join(strings.Fields(s), " ")
}

// Debug formats text and describes what the oracles see (used by `verif-c07 fmt <file>` during triage).
func Debug(text string) string {
	var sb strings.Builder
	in, err := parse("debug.proto", text)
	if err != nil {
		return "input does not parse: " + err.Error() + "\n"
	}
	out, ferr, p := format(in)
	fmt.Fprintf(&sb, "--- output (err=%v panic=%q)\n%s", ferr, p, out)
	if p != "" || ferr != nil {
		return sb.String()
	}
	outFile, err := parse("debug.proto", out)
	if err != nil {
		fmt.Fprintf(&sb, "--- output does not parse: %v\n", err)
		return sb.String()
	}
	out2, _, _ := format(outFile)
	if out2 != out {
		fmt.Fprintf(&sb, "--- second pass differs\n%s", out2)
	}
	iv, ir, _ := view(in)
	ov, or, _ := view(outFile)
	if !proto.Equal(iv.fd, ov.fd) {
		pth, a, b := firstDiff(iv.fd.ProtoReflect(), ov.fd.ProtoReflect())
		fmt.Fprintf(&sb, "--- descriptor differs at %s: %q vs %q\n", pth, a, b)
	}
	m, x := multisetDiff(commentsOf(in), commentsOf(outFile))
	fmt.Fprintf(&sb, "--- comments missing %q extra %q\n", m, x)
	fmt.Fprintf(&sb, "--- attachments in:  %v\n--- attachments out: %v\n", attachmentsOf(in, ir), attachmentsOf(outFile, or))
	return sb.String()
}
