package c07

// ownSeeds are hand-written texts that together contain every AST node kind the formatter prints,
// in the lexical forms the property quantifies over (both bracket styles, optional separators,
// compound strings, all numeric literal forms, empty statements, duplicate/unsorted imports and
// options, groups, maps, extensions, nested declarations). They only need to parse.
var ownSeeds = []struct{ Name, Text string }{
	{"proto2_all_nodes.proto", `syntax = "proto2";
package own.v1;
import "b.proto";
import public "a.proto";
import weak "c.proto";
option java_package = "x";
option (own.file_opt).sub.(own.ext) = 1;
option cc_enable_arenas = true;
message M {
  option deprecated = false;
  required int32 a = 1;
  optional string b = 2 [default = "x\n\001\x7f\"'", json_name = "B"];
  repeated .own.v1.M c = 3 [deprecated = true];
  optional group G = 4 [deprecated = true] { optional int32 ga = 1; }
  map<string, M> m = 5;
  oneof o { int32 oa = 6; group OG = 7 { optional bool x = 1; } option (oo) = 1; }
  extensions 100 to 199, 500, 1000 to max [(ext_opt) = "y"];
  reserved 8, 9 to 11, 20 to max;
  reserved "foo", "bar";
  message N { enum E { option allow_alias = true; A = 0; B = 0 [deprecated = true]; C = -1; reserved 5 to 7, 9; reserved "Z"; } }
  extend M { optional int32 me = 100; }
  optional double d1 = 12 [default = -1.5e3];
  optional float d2 = 13 [default = inf];
  optional float d3 = 14 [default = -inf];
  optional float d4 = 15 [default = nan];
  optional int32 d5 = 16 [default = 0x1F];
  optional int32 d6 = 17 [default = 017];
  optional double d7 = 18 [default = .5];
  optional double d8 = 19 [default = 1.];
  optional N.E e = 21 [default = A];
  ;
}
extend M { optional string fe = 101; repeated M fm = 102; }
enum TopE { T0 = 0; T1 = 1; ; }
service S {
  option deprecated = true;
  rpc A(M) returns (M);
  rpc B(stream M) returns (stream .own.v1.M) { option idempotency_level = IDEMPOTENT; ; }
  rpc C(M) returns (M) {}
  ;
}
;
`},
	{"option_values.proto", `syntax = "proto3";
package own.v2;
import "z.proto";
import "a.proto";
import "a.proto";
option (o1) = { a: 1, b: 2; c: 3 d: "s" };
option (o2) = { a: 1 b < c: 2 > d { e: 3 } bb: < > };
option (o3) = { r: [1, 2, 3] s: [] t: [{ a: 1 }, { a: 2 }] u: [ < a: 1 > ] };
option (o4) = { [type.googleapis.com/own.v2.M]: { a: 1 } [own.v2.ext]: 5 };
option (o5) = "a" "b"
  'c';
option (o6) = -5;
option (o7) = - 1.5;
option (o8) = { f: -inf g: nan h: -nan i: 1e10 j: 0x10 k: 010 l: true m: FOO n: "x" "y" };
option (o9).a.(b.c).d = IDENT;
option (o3) = { r: [ -1, -2.5, "p" "q", { z: 1 } ] };
message M {
  string a = 1 [(fo) = { x: 1 }, json_name = "A", (fo3) = "l" "m"];
  int32 b = 2 [(fo) = {}];
  repeated int32 c = 3 [packed = true, (fo) = { }];
}
`},
	{"editions_features.proto", `edition = "2023";
package own.v3;
option features.field_presence = IMPLICIT;
message M {
  int32 a = 1 [features.field_presence = EXPLICIT];
  M b = 2 [features.message_encoding = DELIMITED];
  reserved foo, bar;
  extensions 10 to 20 [declaration = { number: 10, full_name: ".own.v3.x", type: "int32" }, verification = DECLARATION];
  enum E { option features.enum_type = CLOSED; Z = 0; reserved X, Y; }
}
`},
	{"many_file_options.proto", `syntax = "proto2";
option (rep) = 1;
option (rep) = 2;
option java_package = "p";
option (rep) = 3;
option (aaa) = 1;
option (rep) = 4;
option go_package = "g";
option (rep) = 5;
option (zzz) = 1;
option (rep) = 6;
option (rep) = 7;
option cc_enable_arenas = true;
option (rep) = 8;
option (rep) = 9;
option (bbb) = 2;
option (rep) = 10;
option (rep) = 11;
option (rep) = 12;
option (rep) = 13;
option (rep) = 14;
`},
	{"comments_everywhere.proto", `// license

// detached

// leading syntax
syntax = "proto3"; // trailing syntax

/* leading package */
package own.v4; /* trailing package */

// leading import
import "a.proto"; // trailing import

// leading option
option java_package = "x"; // trailing option

// leading M
message M { // trailing open M
  // leading a
  int32 a = 1; // trailing a
  /* leading b */ int32 b = 2; /* trailing b */

  // detached in M

  // leading o
  oneof o { // trailing open o
    // leading oa
    int32 oa = 3; // trailing oa
    // leading close o
  } // trailing close o
  // leading close M
} // trailing close M

// leading E
enum E {
  // leading Z
  Z = 0; // trailing Z
}

// leading S
service S {
  // leading R
  rpc R(M) returns (M); // trailing R
  // leading R2
  rpc R2(M) returns (M) { // trailing open R2
    // leading opt
    option deprecated = true; // trailing opt
  } // trailing close R2
}
// trailing file
`},
	{"no_syntax_compact.proto", `message A{optional int32 a=1;message B{}enum C{D=0;}}extend A{optional int32 x=100;}service S{rpc R(A)returns(A);}`},
}
