// Package c07 is the check for property C07 (see DESIGN.md section 3).
package c07
