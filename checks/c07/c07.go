// Package c07 is the check for property C07: formatting preserves meaning and comments and is
// idempotent.
//
// Bounded-exhaustive exploration of the real formatter (parser.Parse -> bufformat.FormatFileNode):
// every seed text (all inputs under /repo/private/buf/bufformat/testdata plus hand-written texts that
// cover every node kind) is tokenised; for EVERY token gap and EVERY decoration of a fixed alphabet
// (comments of both styles in several placements, blank line, line break, ';', whitespace removal)
// the decorated text is formatted, and the thorough tier does the same for every pair of decorations
// in every pair of adjacent gaps. Oracles are independent of bufformat: the unlinked descriptor
// produced by protocompile for input and output, the lexical comment multiset, protoc's comment
// attribution (protocompile/sourceinfo) and a second formatting pass.
package c07

import (
	"context"
	"encoding/json"
	"fmt"
	"hash/fnv"
	"os"
	"path/filepath"
	"reflect"
	"sort"
	"strings"
	"sync"
	"sync/atomic"
	"time"

	"github.com/bufbuild/bufverif/internal/bufx"
	"github.com/bufbuild/bufverif/internal/evid"
	"github.com/bufbuild/protocompile/ast"
	"google.golang.org/protobuf/proto"
)

func init() {
	evid.Register(&evid.Check{ID: "C07", Level: "exploration", Run: run,
		QuickBudget: 5 * time.Minute, ThoroughBudget: 14 * time.Minute})
	evid.RegisterReplay("C07", replay)
}

// replay re-runs all library-level oracles on the recorded input text of one case.
func replay(raw json.RawMessage) (string, bool) {
	var c Case
	if err := json.Unmarshal(raw, &c); err != nil {
		return err.Error(), false
	}
	c.hint, c.site = -1, "replay"
	e := &explorer{r: evid.NewRun("C07", "replay", "exploration", time.Minute)}
	var found []string
	parsed := e.check1(c, nil, func(oracle, key, detail, out, sig string) {
		if sig == "" {
			sig = oracle
		}
		found = append(found, sig+": "+detail)
	})
	if !parsed {
		return "input does not parse", false
	}
	if len(found) == 0 {
		return "all oracles hold", false
	}
	return strings.Join(found, "\n"), true
}

var traceSig = os.Getenv("VERIF_C07_TRACE")

const testdataDir = "/repo/private/buf/bufformat/testdata"

type seed struct {
	Name string
	Text string
	toks []token
}

// token is a non-comment lexical token of a seed (the last one is the zero-length EOF token).
type token struct {
	start, end int
	role       string // parent AST node type + token class
}

// Case is what is written to evidence / replays for one explored input.
type Case struct {
	Seed        string   `json:"seed"`
	Gaps        []int    `json:"gaps,omitempty"`
	Decorations []string `json:"decorations,omitempty"`
	Context     string   `json:"context,omitempty"`
	Input       string   `json:"input"`
	Output      string   `json:"output,omitempty"`
	Detail      string   `json:"detail,omitempty"`
	hint        int      // offset of the (first) decoration in Input, -1 for none
	site        string   // roles of the tokens around the (first) decorated gap, without the decoration
	// formatter to drive; nil = bufformat.FormatFileNode on the parsed input
	fmtFn func(text string) (out string, err error, panicked string)
}

func loadSeeds() ([]seed, error) {
	var seeds []seed
	err := filepath.Walk(testdataDir, func(p string, info os.FileInfo, err error) error {
		if err != nil {
			return err
		}
		if info.IsDir() || !strings.HasSuffix(p, ".proto") || strings.HasSuffix(p, ".golden.proto") {
			return nil
		}
		b, err := os.ReadFile(p)
		if err != nil {
			return err
		}
		rel, _ := filepath.Rel(testdataDir, p)
		seeds = append(seeds, seed{Name: "testdata/" + filepath.ToSlash(rel), Text: string(b)})
		return nil
	})
	if err != nil {
		return nil, err
	}
	sort.Slice(seeds, func(i, j int) bool { return seeds[i].Name < seeds[j].Name })
	for _, s := range ownSeeds {
		seeds = append(seeds, seed{Name: "own/" + s.Name, Text: s.Text})
	}
	for _, s := range shapeSeeds() {
		seeds = append(seeds, seed{Name: "own/" + s.Name, Text: s.Text})
	}
	for _, s := range typeRefSeeds() {
		seeds = append(seeds, seed{Name: "own/" + s.Name, Text: s.Text})
	}
	return seeds, nil
}

func typeName(n ast.Node) string {
	if n == nil {
		return "nil"
	}
	t := reflect.TypeOf(n)
	for t.Kind() == reflect.Ptr {
		t = t.Elem()
	}
	return strings.TrimSuffix(t.Name(), "Node")
}

func tokenClass(n ast.Node) string {
	switch x := n.(type) {
	case *ast.RuneNode:
		if x.Rune == 0 {
			return "EOF"
		}
		return "'" + string(x.Rune) + "'"
	case *ast.KeywordNode:
		return x.Val
	case *ast.IdentNode:
		return "ident"
	case *ast.StringLiteralNode:
		return "string"
	case *ast.UintLiteralNode:
		return "int"
	case *ast.FloatLiteralNode:
		return "float"
	case *ast.SpecialFloatLiteralNode:
		return x.KeywordNode.Val
	}
	return typeName(n)
}

// rolesOf gives every token of a parsed file a structural role: parent AST node type + token class.
func rolesOf(file *ast.FileNode) map[ast.Token]string {
	roles := map[ast.Token]string{}
	tracker := &ast.AncestorTracker{}
	visitor := &ast.SimpleVisitor{
		DoVisitTerminalNode: func(n ast.TerminalNode) error {
			parent := tracker.Parent()
			role := typeName(parent) + "." + tokenClass(n)
			if path := tracker.Path(); len(path) >= 3 {
				switch parent.(type) {
				case *ast.CompoundIdentNode, *ast.FieldReferenceNode, *ast.OptionNameNode, *ast.RangeNode,
					*ast.NegativeIntLiteralNode, *ast.SignedFloatLiteralNode, *ast.CompoundStringLiteralNode:
					role = typeName(path[len(path)-3]) + "." + role
				}
			}
			roles[n.Token()] = role
			return nil
		},
	}
	_ = ast.Walk(file, visitor, tracker.AsWalkOptions()...)
	if file.EOF != nil {
		roles[file.EOF.Token()] = "File.EOF"
	}
	return roles
}

// attributionOf finds the token to which protocompile's lexer attributed the comment with the given
// normalised text: "leading-of-<role>" or "trailing-of-<role>".
// When several comments have that text, the one closest to offset hint is taken.
func attributionOf(file *ast.FileNode, norm string, hint int) string {
	roles := rolesOf(file)
	seq := file.Tokens()
	best, bestDist := "unattributed", -1
	consider := func(c ast.Comment, what string) {
		if normComment(c.RawText()) != norm {
			return
		}
		d := 0
		if hint >= 0 {
			d = c.Start().Offset - hint
			if d < 0 {
				d = -d
			}
		}
		if bestDist < 0 || d < bestDist {
			best, bestDist = what, d
		}
	}
	prevHasTrailing := false
	var sepClasses map[ast.Token]string
	for t, ok := seq.First(); ok; t, ok = seq.Next(t) {
		info := file.TokenInfo(t)
		role := roles[t]
		if role == "" {
			role = "?"
		}
		lc := info.LeadingComments()
		for i := 0; i < lc.Len(); i++ {
			consider(lc.Index(i), "leading-of-"+role)
		}
		tc := info.TrailingComments()
		for i := 0; i < tc.Len(); i++ {
			what := "trailing-of-" + role
			if role == "MessageLiteral.','" || role == "MessageLiteral.';'" {
				// the printer drops the separator and moves its trailing comments to the value,
				// unless the value has trailing comments of its own
				if prevHasTrailing {
					what += "/value-has-own-trailing-comment"
				} else {
					// where the comment has to go depends on the kind of value: a token carries it
					// itself, a message literal hands it on to its closing bracket, ...
					if sepClasses == nil {
						sepClasses = sepValueClasses(file)
					}
					what += "/value-without-trailing-comment" + sepClasses[t]
				}
			}
			consider(tc.Index(i), what)
		}
		prevHasTrailing = tc.Len() > 0
	}
	return normAttribution(best)
}

// sepValueClasses maps every optional message-literal separator that follows a value which is not a
// single token to "/after-<class of that value>" (the printer moves the comments of the dropped
// separator to the value; each class of composite value has its own way of printing them).
func sepValueClasses(file *ast.FileNode) map[ast.Token]string {
	m := map[ast.Token]string{}
	_ = ast.Walk(file, &ast.SimpleVisitor{
		DoVisitMessageLiteralNode: func(n *ast.MessageLiteralNode) error {
			for i, sep := range n.Seps {
				if sep == nil || i >= len(n.Elements) {
					continue
				}
				switch v := n.Elements[i].Val.(type) {
				case *ast.MessageLiteralNode:
					if v.Open != nil && v.Open.Rune == '<' {
						m[sep.Token()] = "/after-angle-message-literal"
					} else {
						m[sep.Token()] = "/after-brace-message-literal"
					}
				case *ast.ArrayLiteralNode:
					m[sep.Token()] = "/after-array-literal"
				case ast.TerminalNode:
				default:
					// signed numbers, -inf/-nan, adjacent string literals
					m[sep.Token()] = "/after-composite-scalar"
				}
			}
			return nil
		},
	})
	return m
}

// normAttribution merges attributions that are one code path in the printer.
func normAttribution(a string) string {
	kind, role, ok := strings.Cut(a, "-of-")
	if !ok {
		return a
	}
	role, suffix, _ := strings.Cut(role, "/")
	if suffix != "" {
		suffix = "/" + suffix
	}
	switch {
	case role == "EmptyDecl.';'":
		return "on-empty-statement" // EmptyDeclNode is never printed: leading and trailing alike
	case role == "MessageLiteral.','" || role == "MessageLiteral.';'":
		return kind + "-of-MessageLiteral-separator" + suffix
	case strings.HasPrefix(role, "OptionName.FieldReference."):
		return kind + "-of-OptionName-token"
	}
	return a
}

type commentAt struct {
	norm   string
	offset int
}

func commentsRaw(file *ast.FileNode) []string {
	var out []string
	seq := file.Items()
	for it, ok := seq.First(); ok; it, ok = seq.Next(it) {
		if _, c := file.GetItem(it); c.IsValid() {
			out = append(out, c.RawText())
		}
	}
	return out
}

func commentsInOrder(file *ast.FileNode) []commentAt {
	var out []commentAt
	seq := file.Items()
	for it, ok := seq.First(); ok; it, ok = seq.Next(it) {
		if _, c := file.GetItem(it); c.IsValid() {
			out = append(out, commentAt{normComment(c.RawText()), c.Start().Offset})
		}
	}
	return out
}

// lostInstanceOffset aligns the comment sequences of input and output (longest common subsequence)
// and returns the offset of the first unmatched input comment with the given text (or fallback).
func lostInstanceOffset(in, out *ast.FileNode, text string, fallback int) int {
	a, b := commentsInOrder(in), commentsInOrder(out)
	n, m := len(a), len(b)
	if n*m > 4_000_000 {
		return fallback
	}
	l := make([][]int32, n+1)
	for i := range l {
		l[i] = make([]int32, m+1)
	}
	for i := n - 1; i >= 0; i-- {
		for j := m - 1; j >= 0; j-- {
			if a[i].norm == b[j].norm {
				l[i][j] = l[i+1][j+1] + 1
			} else if l[i+1][j] >= l[i][j+1] {
				l[i][j] = l[i+1][j]
			} else {
				l[i][j] = l[i][j+1]
			}
		}
	}
	// Two extreme alignments: match equal heads eagerly (the unmatched instance is the latest possible)
	// or skip an input comment whenever that costs nothing (the earliest possible).
	walk := func(eagerSkip bool) int {
		i, j := 0, 0
		for i < n {
			switch {
			case eagerSkip && l[i+1][j] == l[i][j]:
				if a[i].norm == text {
					return a[i].offset
				}
				i++
			case j < m && a[i].norm == b[j].norm:
				i++
				j++
			case j < m && l[i][j+1] > l[i+1][j]:
				j++
			default:
				if a[i].norm == text {
					return a[i].offset
				}
				i++
			}
		}
		return fallback
	}
	late, early := walk(false), walk(true)
	if late != early {
		// ambiguous (same text twice with nothing pinned in between): a comment on a token that the
		// printer never prints is the lost one
		for _, off := range []int{early, late} {
			at := attributionOf(in, text, off)
			if at == "on-empty-statement" || strings.Contains(at, "MessageLiteral-separator") {
				return off
			}
		}
	}
	return late
}

// tokenise parses the seed with protocompile (not the code under test) and returns all tokens
// with offsets and structural roles.
func tokenise(s *seed) error {
	file, err := parse(s.Name, s.Text)
	if err != nil {
		return err
	}
	roles := rolesOf(file)
	seq := file.Tokens()
	for t, ok := seq.First(); ok; t, ok = seq.Next(t) {
		info := file.TokenInfo(t)
		start := info.Start().Offset
		raw := info.RawText()
		role := roles[t]
		if role == "" {
			role = "?." + raw
		}
		s.toks = append(s.toks, token{start: start, end: start + len(raw), role: role})
	}
	if len(s.toks) == 0 {
		return fmt.Errorf("no tokens")
	}
	return nil
}

// ---------------------------------------------------------------------------------------------
// Decoration alphabet
// ---------------------------------------------------------------------------------------------

type decoration struct {
	name string
	// apply returns the replacement for the gap text (between the end of the previous token and the
	// start of the next token) or ok=false when not applicable; tag is the unique comment word.
	apply func(gap string, tag string) (string, bool)
}

func isSpaceOnly(s string) bool { return strings.TrimSpace(s) == "" }

var decorations = []decoration{
	{"blk-after", func(g, t string) (string, bool) { return "/*" + t + "*/" + g, true }},
	{"line-after", func(g, t string) (string, bool) { return " //" + t + "\n" + g, true }},
	// a line comment whose text contains the block-comment terminator (e.g. "// see /* x */")
	{"line-after-blockend", func(g, t string) (string, bool) { return " //" + t + " */\n" + g, true }},
	// a block comment spanning two lines, in inline position
	{"blk-multiline-after", func(g, t string) (string, bool) { return "/*" + t + "\n   more " + t + "*/" + g, true }},
	{"blk-ownline", func(g, t string) (string, bool) { return g + "\n/*" + t + "*/\n", true }},
	{"line-ownline", func(g, t string) (string, bool) { return g + "\n//" + t + "\n", true }},
	{"blk-before", func(g, t string) (string, bool) { return g + "/*" + t + "*/", true }},
	{"line-detached", func(g, t string) (string, bool) { return g + "\n\n//" + t + "\n\n", true }},
	{"blank", func(g, t string) (string, bool) { return "\n\n" + g, true }},
	{"newline", func(g, t string) (string, bool) { return "\n" + g, true }},
	{"semicolon", func(g, t string) (string, bool) { return g + ";", true }},
	{"strip-ws", func(g, t string) (string, bool) {
		if g == "" || !isSpaceOnly(g) {
			return "", false
		}
		return "", true
	}},
}

func hasTag(d string) bool {
	switch d {
	case "blank", "newline", "semicolon", "strip-ws":
		return false
	}
	return true
}

// variant builds the decorated text: decs[i] applied to gap gaps[i] (gaps ascending, distinct).
func gapOffset(s *seed, g int) int {
	if g > 0 {
		return s.toks[g-1].end
	}
	return 0
}

func variant(s *seed, gaps []int, decs []int) (string, []string, bool) {
	var sb strings.Builder
	var tags []string
	prev := 0
	for k, g := range gaps {
		gs, ge := 0, s.toks[g].start
		if g > 0 {
			gs = s.toks[g-1].end
		}
		tag := fmt.Sprintf("zq%dx%d", g, decs[k])
		rep, ok := decorations[decs[k]].apply(s.Text[gs:ge], tag)
		if !ok {
			return "", nil, false
		}
		if hasTag(decorations[decs[k]].name) {
			switch decorations[decs[k]].name {
			case "line-after-blockend":
				tag += " */"
			case "blk-multiline-after":
				tag += " more " + tag
			}
			tags = append(tags, tag)
		}
		sb.WriteString(s.Text[prev:gs])
		sb.WriteString(rep)
		prev = ge
	}
	sb.WriteString(s.Text[prev:])
	return sb.String(), tags, true
}

// gapSite is gapContext with the two message-literal bracket styles unified.
func gapSite(s *seed, g int) string {
	return strings.NewReplacer("'<'", "'{'", "'>'", "'}'").Replace(gapContext(s, g))
}

func gapContext(s *seed, g int) string {
	prev := "BOF"
	if g > 0 {
		prev = s.toks[g-1].role
	}
	return prev + "|" + s.toks[g].role
}

// ---------------------------------------------------------------------------------------------
// One explored case
// ---------------------------------------------------------------------------------------------

type stats struct {
	variants, notApplicable, duplicateText, unparseable, formatted atomic.Int64
	descCompared, flagsSkippedDupImports                           atomic.Int64
	importsReordered, importsDeduped, fileOptsReordered            atomic.Int64
	commentsCompared, tagsTracked                                  atomic.Int64
	attachEligible, attachDemanded, tagAttachedInInput             atomic.Int64
	roleChanged, detachedNotDemanded, inheritedFromSeed            atomic.Int64
	idemChecked, outputDiffersFromInput                            atomic.Int64
	pairCases, cliCases, cliExitChecked, cliChanged                atomic.Int64
	cliOutChecked, cliOutPreexisting                               atomic.Int64
	cliOutOverLonger, cliOutOverShorter                            atomic.Int64
	parserPanics                                                   atomic.Int64
	perDecoration                                                  [16]atomic.Int64
}

type explorer struct {
	r  *evid.Run
	st stats
	// base[seed] = keys of violations already present on the undecorated seed; a variant that
	// merely inherits one of them is not reported again under the decoration's context.
	base sync.Map
}

type finding struct {
	oracle, key, detail, out string
	sig                      string // structural signature; "" = oracle + decoration context
}

func hashText(s string) uint64 {
	h := fnv.New64a()
	h.Write([]byte(s))
	return h.Sum64()
}

// check runs all oracles on one input text. ctx describes the decoration site for signatures.
func (e *explorer) check(c Case, tags []string, isBase bool) (parsed bool) {
	var found []finding
	parsed = e.check1(c, tags, func(oracle, key, detail, out, sig string) {
		found = append(found, finding{oracle, key, detail, out, sig})
	})
	if isBase {
		m := map[string]bool{}
		for _, f := range found {
			m[f.oracle+"\x00"+f.key] = true
		}
		e.base.Store(c.Seed, m)
	}
	var inherited map[string]bool
	if !isBase {
		if v, ok := e.base.Load(c.Seed); ok {
			inherited = v.(map[string]bool)
		}
	}
	for _, f := range found {
		if inherited[f.oracle+"\x00"+f.key] {
			e.st.inheritedFromSeed.Add(1)
			continue
		}
		cc := c
		cc.Output = f.out
		cc.Detail = f.detail
		sig := f.sig
		if sig == "" {
			sig = f.oracle + "/at/" + c.site
		}
		if traceSig != "" && strings.Contains(sig, traceSig) {
			// triage aid (VERIF_C07_TRACE=<part of a signature>): one line per failing case
			fmt.Fprintf(os.Stderr, "TRACE %s\t%s\t%v\t%s\n", sig, c.Seed, c.Gaps, c.Context)
		}
		e.r.Violate(sig, f.oracle+": "+f.detail, cc)
	}
	return parsed
}

func (e *explorer) check1(c Case, tags []string, violate func(oracle, key, detail, out, sig string)) (parsed bool) {
	r := e.r
	st := &e.st
	inFile, err := parse(c.Seed, c.Input)
	if err != nil {
		st.unparseable.Add(1)
		if strings.HasPrefix(err.Error(), "parser panic") {
			st.parserPanics.Add(1)
		}
		return false
	}
	r.Eval(1)
	st.formatted.Add(1)

	var out string
	var ferr error
	var panicked string
	if c.fmtFn != nil {
		out, ferr, panicked = c.fmtFn(c.Input)
	} else {
		out, ferr, panicked = format(inFile)
	}
	if panicked != "" {
		violate("panic", panicked, panicked, "", "panic/"+panicClass(inFile, c.Context))
		return true
	}
	if ferr != nil {
		violate("format-error", ferr.Error(), ferr.Error(), out, "")
		return true
	}
	if out != c.Input {
		st.outputDiffersFromInput.Add(1)
	}

	// (1) the output parses
	outFile, err := parse(c.Seed, out)
	if err != nil {
		sig := ""
		for _, cm := range commentsRaw(inFile) {
			if strings.HasPrefix(cm, "//") && strings.Contains(cm, "*/") {
				sig = "output-unparseable/line-comment-containing-block-comment-end"
			}
		}
		violate("output-unparseable", stripPos(err.Error()), err.Error(), out, sig)
		return true
	}

	// (2) same descriptors
	inView, inRes, err1 := view(inFile)
	outView, outRes, err2 := view(outFile)
	if err1 != nil || err2 != nil {
		r.Incomplete(fmt.Sprintf("no descriptor for %s: %v %v", c.Seed, err1, err2))
		return true
	}
	st.descCompared.Add(1)
	if !proto.Equal(inView.fd, outView.fd) {
		p, a, b := firstDiff(inView.fd.ProtoReflect(), outView.fd.ProtoReflect())
		if sameUpToFileOptionOrder(inView, outView) {
			p = "file-options-with-same-name-reordered"
		}
		violate("descriptor-changed:"+p, a+"\x00"+b, fmt.Sprintf("%s: input %q, output %q", p, a, b), out, "descriptor-changed/"+p)
	}
	if !reflect.DeepEqual(inView.deps, outView.deps) {
		violate("descriptor-changed:dependency", "", fmt.Sprintf("imports %v -> %v", inView.deps, outView.deps), out, "descriptor-changed/dependency")
	}
	if inView.dupImports {
		// A file that imports one path twice is rejected by the compiler (protocompile
		// validateImports, protoc): it has no descriptors, and the formatter's documented
		// de-duplication keeps one import per path. Only the path set is compared.
		st.flagsSkippedDupImports.Add(1)
		if len(outView.rawDeps) < len(inView.rawDeps) {
			st.importsDeduped.Add(1)
		}
	} else {
		if !reflect.DeepEqual(inView.public, outView.public) {
			violate("descriptor-changed:public_dependency", "", fmt.Sprintf("public imports %v -> %v", inView.public, outView.public), out, "descriptor-changed/public_dependency")
		}
		if !reflect.DeepEqual(inView.weak, outView.weak) {
			violate("descriptor-changed:weak_dependency", "", fmt.Sprintf("weak imports %v -> %v", inView.weak, outView.weak), out, "descriptor-changed/weak_dependency")
		}
	}
	if !reflect.DeepEqual(inView.rawDeps, outView.rawDeps) {
		st.importsReordered.Add(1)
	}
	if !reflect.DeepEqual(inView.fileOpts, outView.fileOpts) {
		st.fileOptsReordered.Add(1)
	}

	// (3) every comment is still present (multiset of normalised comment texts)
	inComments, outComments := commentsOf(inFile), commentsOf(outFile)
	st.commentsCompared.Add(int64(len(inComments)))
	st.tagsTracked.Add(int64(len(tags)))
	missing, extra := multisetDiff(inComments, outComments)
	for _, m := range missing {
		// find which instance went missing (texts can repeat): align the comment sequences
		c := c
		c.hint = lostInstanceOffset(inFile, outFile, m, c.hint)
		violate("comment-lost", m, fmt.Sprintf("comment %q of the input is not in the output (all missing %q, extra %q)", m, missing, extra), out, "comment-lost/"+attributionOf(inFile, m, c.hint))
	}
	for _, x := range extra {
		violate("comment-added", x, fmt.Sprintf("comment %q occurs more often in the output than in the input (all missing %q, extra %q)", x, missing, extra), out, "comment-added/"+attributionOf(inFile, x, c.hint))
	}

	// (4) attached to the same declaration
	inAtt, outAtt := attachmentsOf(inFile, inRes), attachmentsOf(outFile, outRes)
	lost := map[string]bool{}
	for _, m := range missing {
		lost[m] = true // already reported as lost: not also as re-attached
	}
	e.checkAttachments(inFile, c.hint, lost, out, inComments, inAtt, outAtt, tags, violate)

	// (5) idempotence
	var out2 string
	var ferr2 error
	var panicked2 string
	if c.fmtFn != nil {
		out2, ferr2, panicked2 = c.fmtFn(out)
	} else {
		out2, ferr2, panicked2 = format(outFile)
	}
	st.idemChecked.Add(1)
	switch {
	case panicked2 != "":
		violate("panic-second-pass", panicked2, panicked2, out, "")
	case ferr2 != nil:
		violate("format-error-second-pass", ferr2.Error(), ferr2.Error(), out, "")
	case out2 != out:
		d := firstLineDiff(out, out2)
		sig := ""
		if cl := idemClass(out, out2); cl != "" {
			sig = "not-idempotent/" + cl
		}
		violate("not-idempotent", d[strings.Index(d, ":")+1:], "format(format(x)) != format(x): "+d, out, sig)
	}
	return true
}

// declKind is the kind of the last element of a declaration key ("field", "dependency", ...).
func declKind(key string) string {
	last := key[strings.LastIndex(key, " > ")+1:]
	last = strings.TrimPrefix(last, "> ")
	if i := strings.Index(last, ":"); i >= 0 {
		last = last[:i]
	}
	return last
}

// reattachClass: a comment that protoc attaches as trailing comment to a header declaration
// (it sits on the line(s) below it and is followed by a blank line) but that the AST gives to the
// next token travels with that next declaration when the header is sorted: one defect.
func reattachClass(role, kind, attribution string) string {
	header := map[string]bool{"syntax": true, "edition": true, "package": true, "dependency": true, "uninterpreted_option": true}
	if role == "trailing" && header[kind] && strings.HasPrefix(attribution, "leading-of-") {
		return "trailing-of-header-declaration/attributed-to-next-token"
	}
	return role + "-of-" + kind + "/" + attribution
}

// panicClass names the structural peculiarity of the input that goes with a formatter panic.
func panicClass(file *ast.FileNode, ctx string) string {
	class := ""
	_ = ast.Walk(file, &ast.SimpleVisitor{
		DoVisitFieldNode: func(n *ast.FieldNode) error {
			if n.Tag == nil {
				class = "field-without-tag"
			}
			return nil
		},
	})
	if class != "" {
		return class
	}
	return ctx
}

func charClass(b byte) string {
	switch {
	case b == ' ' || b == '\t':
		return "space"
	case b == '_' || b >= '0' && b <= '9' || b >= 'a' && b <= 'z' || b >= 'A' && b <= 'Z':
		return "word"
	}
	return string(b)
}

// idemClass classifies the shape of the difference between the first and the second pass.
func idemClass(out, out2 string) string {
	if strings.HasPrefix(out, "\n") && !strings.HasPrefix(out2, "\n") {
		return "blank-line-at-file-start"
	}
	la, lb := strings.Split(out, "\n"), strings.Split(out2, "\n")
	for i := 0; i < len(la) && i < len(lb); i++ {
		x, y := la[i], lb[i]
		if x == y {
			continue
		}
		nospace := func(s string) string { return strings.NewReplacer(" ", "", "\t", "").Replace(s) }
		beforeComment := func(s string) string {
			s = nospace(s)
			for {
				k := strings.Index(s, "/*")
				if k < 0 {
					break
				}
				e := strings.Index(s[k+2:], "*/")
				if e < 0 {
					s = s[:k]
					break
				}
				s = s[:k] + s[k+2+e+2:]
			}
			if k := strings.Index(s, "//"); k >= 0 {
				s = s[:k]
			}
			return strings.TrimSuffix(s, "]")
		}
		switch {
		case strings.HasSuffix(x, "{") && strings.HasPrefix(nospace(y), nospace(x)+"}"):
			return "body-with-only-empty-statements"
		case nospace(x) == nospace(y):
			k := 0
			for k < len(x) && k < len(y) && x[k] == y[k] {
				k++
			}
			prev := "BOL"
			if k > 0 {
				prev = charClass(x[k-1])
			}
			if k < len(x) && (x[k] == ' ' || x[k] == '\t') {
				next := "EOL"
				if k < len(y) {
					next = charClass(y[k])
				}
				if prev == "(" || prev == "[" {
					prev = "open-bracket"
				}
				return "second-pass-removes-space/" + prev + "_" + next
			}
			next := "EOL"
			if k < len(x) {
				next = charClass(x[k])
			}
			if next == "/" {
				return "second-pass-adds-space-before-comment"
			}
			return "second-pass-adds-space/" + prev + "_" + next
		case beforeComment(x) == beforeComment(y) && strings.HasSuffix(beforeComment(x), "}") && strings.HasPrefix(beforeComment(x), "{"):
			// (the literal may have a leading comment of its own in front of the '{')
			return "comment-after-last-message-literal-of-array"
		case y == "" && x != "":
			return "second-pass-adds-blank-line"
		case x == "" && y != "":
			return "second-pass-removes-blank-line"
		}
		return ""
	}
	return ""
}

// stripPos removes the file:line:col prefix of a parser error.
func stripPos(s string) string {
	if i := strings.Index(s, ": "); i >= 0 {
		return s[i+2:]
	}
	return s
}

func firstLineDiff(a, b string) string {
	la, lb := strings.Split(a, "\n"), strings.Split(b, "\n")
	for i := 0; i < len(la) || i < len(lb); i++ {
		var x, y string
		if i < len(la) {
			x = la[i]
		}
		if i < len(lb) {
			y = lb[i]
		}
		if x != y {
			return fmt.Sprintf("line %d: first pass %q, second pass %q", i+1, x, y)
		}
	}
	return ""
}

func wordContains(hay, needle string) bool {
	return strings.Contains(" "+hay+" ", " "+needle+" ")
}

// checkAttachments: a lexical comment that protoc's rules attach to a declaration of the input must
// be attached (in any role) to the declaration with the same name in the output.
func (e *explorer) checkAttachments(inFile *ast.FileNode, hint int, lost map[string]bool, out string, inComments []string, inAtt, outAtt []attachment, tags []string, violate func(string, string, string, string, string)) {
	st := &e.st
	isTag := map[string]bool{}
	for _, t := range tags {
		isTag[t] = true
	}
	for i, cm := range inComments {
		if cm == "" || lost[cm] || (i > 0 && inComments[i-1] == cm) || (i+1 < len(inComments) && inComments[i+1] == cm) {
			continue // empty or not unique
		}
		// not contained in another comment of the input (source info merges adjacent comments)
		ambiguous := false
		for j, other := range inComments {
			if j != i && wordContains(other, cm) {
				ambiguous = true
				break
			}
		}
		if ambiguous {
			continue
		}
		st.attachEligible.Add(1)
		din := map[string]string{}
		for _, a := range inAtt {
			if wordContains(a.Text, cm) {
				if a.Role == "detached" {
					// protoc: detached comments "appear before (but not connected to)" the element
					st.detachedNotDemanded.Add(1)
					continue
				}
				din[a.Decl] = a.Role
			}
		}
		if len(din) == 0 {
			continue // not attached to any declaration: only presence is demanded
		}
		if isTag[cm] {
			st.tagAttachedInInput.Add(1)
		}
		dout := map[string]string{}
		for _, a := range outAtt {
			if wordContains(a.Text, cm) {
				dout[a.Decl] = a.Role
			}
		}
		decls := make([]string, 0, len(din))
		for d := range din {
			decls = append(decls, d)
		}
		sort.Strings(decls)
		for _, d := range decls {
			st.attachDemanded.Add(1)
			role, ok := dout[d]
			if !ok {
				var now []string
				for d2, r2 := range dout {
					now = append(now, r2+" of "+d2)
				}
				sort.Strings(now)
				if len(now) == 0 {
					now = []string{"no declaration"}
				}
				violate("comment-reattached:"+din[d], cm+"\x00"+d, fmt.Sprintf("comment %q is the %s comment of %s in the input but of %s in the output", cm, din[d], d, strings.Join(now, ", ")), out,
					"comment-reattached/"+reattachClass(din[d], declKind(d), attributionOf(inFile, cm, hint)))
				continue
			}
			if role != din[d] {
				st.roleChanged.Add(1)
			}
		}
	}
}

// ---------------------------------------------------------------------------------------------
// CLI observation point: `buf format <file>`, `buf format -d --exit-code <file>`, `buf format -w`
// ---------------------------------------------------------------------------------------------

const exitCodeFileAnnotation = 100

// cliPhase runs every undecorated seed through the in-process CLI: the text printed by
// `buf format <file>` goes through the same oracles as the library output (and is formatted a second
// time through the CLI), `-d --exit-code` must exit 100 exactly when that text differs from the
// input and 0 otherwise, and after `-w` the file holds that text and `--exit-code` exits 0 iff the
// second pass changed nothing.
func (e *explorer) cliPhase(seeds []*seed) {
	r := e.r
	scratch, err := os.MkdirTemp("", "verif-c07-")
	if err != nil {
		r.Incomplete("cannot create scratch dir: " + err.Error())
		return
	}
	defer os.RemoveAll(scratch)
	var cliSeeds []*seed
	for _, s := range seeds {
		if v, ok := e.base.Load(s.Name); ok {
			skip := false
			for k := range v.(map[string]bool) {
				if strings.HasPrefix(k, "panic") {
					skip = true // a panic inside the CLI's worker goroutine would kill the harness
				}
			}
			if skip {
				continue
			}
		}
		cliSeeds = append(cliSeeds, s)
	}
	r.ParallelFor(len(cliSeeds), 4, func(i int) {
		s := cliSeeds[i]
		dir := filepath.Join(scratch, fmt.Sprint(i))
		if err := os.MkdirAll(dir, 0o755); err != nil {
			r.Incomplete(err.Error())
			return
		}
		path := filepath.Join(dir, "f.proto")
		n := 0
		cliFormat := func(text string) (string, error, string) {
			n++
			p := filepath.Join(dir, fmt.Sprintf("pass%d", n), "f.proto")
			_ = os.MkdirAll(filepath.Dir(p), 0o755)
			if err := os.WriteFile(p, []byte(text), 0o644); err != nil {
				return "", err, ""
			}
			res := bufx.RunCLI(context.Background(), nil, "", "format", p)
			if res.ExitCode != 0 {
				return res.Stdout, fmt.Errorf("buf format exit %d: %s", res.ExitCode, stripScratch(res.Stderr, scratch)), ""
			}
			return res.Stdout, nil, ""
		}
		e.st.cliCases.Add(1)
		e.check(Case{Seed: s.Name, Context: "cli", Input: s.Text, hint: -1, site: "cli", fmtFn: cliFormat}, nil, false)

		if err := os.WriteFile(path, []byte(s.Text), 0o644); err != nil {
			r.Incomplete(err.Error())
			return
		}
		plain := bufx.RunCLI(context.Background(), nil, "", "format", path)
		diff := bufx.RunCLI(context.Background(), nil, "", "format", "-d", "--exit-code", path)
		if plain.ExitCode != 0 {
			return // reported by the oracle run above
		}
		changed := plain.Stdout != s.Text
		want := 0
		if changed {
			want = exitCodeFileAnnotation
			e.st.cliChanged.Add(1)
		}
		e.st.cliExitChecked.Add(1)
		if diff.ExitCode != want || (diff.Stdout != "") != changed {
			r.Violate("cli-exit-code/diff", fmt.Sprintf("buf format -d --exit-code: exit %d, diff printed %v, but formatted text differs from input: %v",
				diff.ExitCode, diff.Stdout != "", changed), Case{Seed: s.Name, Context: "cli", Input: s.Text, Output: plain.Stdout, Detail: stripScratch(diff.Stderr, scratch)})
		}
		w := bufx.RunCLI(context.Background(), nil, "", "format", "-w", path)
		after, _ := os.ReadFile(path)
		if w.ExitCode != 0 || string(after) != plain.Stdout {
			r.Violate("cli-write/content", fmt.Sprintf("buf format -w: exit %d, file content equals `buf format` output: %v", w.ExitCode, string(after) == plain.Stdout),
				Case{Seed: s.Name, Context: "cli", Input: s.Text, Output: string(after), Detail: stripScratch(w.Stderr, scratch)})
		}
		e.cliOutputTargets(s, dir, scratch, plain.Stdout)
	})
	r.Set("cli_seeds_formatted", e.st.cliCases.Load())
	r.Set("cli_exit_code_checked", e.st.cliExitChecked.Load())
	r.Set("cli_seeds_changed_by_format", e.st.cliChanged.Load())
	r.Set("cli_output_targets", func() []string {
		var n []string
		for _, k := range []string{"file", "dir"} {
			for _, st := range outputStates {
				n = append(n, k+":"+st.name)
			}
		}
		return n
	}())
	r.Set("cli_output_runs_checked", e.st.cliOutChecked.Load())
	r.Set("cli_output_runs_over_existing_file", e.st.cliOutPreexisting.Load())
	r.Set("cli_output_runs_over_longer_file", e.st.cliOutOverLonger.Load())
	r.Set("cli_output_runs_over_shorter_file", e.st.cliOutOverShorter.Load())
	if e.st.cliOutOverLonger.Load() == 0 || e.st.cliOutOverShorter.Load() == 0 {
		r.Incomplete("cli -o clause never wrote over a longer / over a shorter pre-existing file")
	}
	if e.st.cliChanged.Load() == 0 || e.st.cliChanged.Load() == e.st.cliExitChecked.Load() {
		r.Incomplete("cli exit-code clause saw only one outcome")
	}
}

// outputStates is the state of the target of `buf format <file> -o <target>` before the command runs.
// The property speaks about the file that formatting yields, so whatever was at the target before,
// afterwards it must hold exactly the formatted text (the text `buf format <file>` prints, which goes
// through all other oracles).
var outputStates = []struct {
	name string
	// content of the pre-existing target file; exists=false: nothing there yet
	content func(input, formatted string) (content string, exists bool)
}{
	{"absent", func(in, f string) (string, bool) { return "", false }},
	{"holds-formatted-text", func(in, f string) (string, bool) { return f, true }},
	{"holds-shorter-text", func(in, f string) (string, bool) { return f[:len(f)/2], true }},
	{"holds-longer-text", func(in, f string) (string, bool) {
		return f + "\n// left over from an earlier run\nmessage LeftOver {}\n", true
	}},
	{"holds-unformatted-input", func(in, f string) (string, bool) { return in, true }},
	// the target is the input file itself: `buf format x.proto -o x.proto`, `buf format dir/x.proto -o dir`
	{"is-the-input-file", nil},
}

func (e *explorer) cliOutputTargets(s *seed, dir, scratch, formatted string) {
	r := e.r
	for _, kind := range []string{"file", "dir"} {
		for si, state := range outputStates {
			caseDir := filepath.Join(dir, fmt.Sprintf("o-%s-%d", kind, si))
			src := filepath.Join(caseDir, "src", "f.proto")
			target := filepath.Join(caseDir, "out", "g.proto") // kind file: -o <target>
			outArg := target
			if kind == "dir" {
				target = filepath.Join(caseDir, "out", "f.proto") // -o <dir>: the file keeps its name
				outArg = filepath.Dir(target)
			}
			if err := os.MkdirAll(filepath.Dir(src), 0o755); err != nil {
				r.Incomplete(err.Error())
				return
			}
			if err := os.WriteFile(src, []byte(s.Text), 0o644); err != nil {
				r.Incomplete(err.Error())
				return
			}
			before, exists := s.Text, true
			if state.content == nil {
				target = src
				outArg = src
				if kind == "dir" {
					outArg = filepath.Dir(src)
				}
			} else if before, exists = state.content(s.Text, formatted); exists {
				if err := os.MkdirAll(filepath.Dir(target), 0o755); err != nil {
					r.Incomplete(err.Error())
					return
				}
				if err := os.WriteFile(target, []byte(before), 0o644); err != nil {
					r.Incomplete(err.Error())
					return
				}
			}
			res := bufx.RunCLI(context.Background(), nil, "", "format", src, "-o", outArg)
			afterBytes, readErr := os.ReadFile(target)
			after := string(afterBytes)
			e.st.cliOutChecked.Add(1)
			r.Eval(1)
			r.Distinct(s.Name + "\x00cli -o " + kind + " " + state.name)
			if exists {
				e.st.cliOutPreexisting.Add(1)
				switch {
				case len(before) > len(formatted):
					e.st.cliOutOverLonger.Add(1)
				case len(before) < len(formatted):
					e.st.cliOutOverShorter.Add(1)
				}
			}
			class := ""
			switch {
			case res.ExitCode != 0:
				class = fmt.Sprintf("exit-%d", res.ExitCode)
			case readErr != nil:
				class = "no-file-written"
			case after == formatted:
			case len(after) > len(formatted) && strings.HasPrefix(after, formatted):
				class = "stale-bytes-after-formatted-text"
			case len(after) < len(formatted) && strings.HasPrefix(formatted, after):
				class = "formatted-text-truncated"
			default:
				class = "content-differs"
			}
			if class != "" {
				r.Violate("cli-output/"+kind+"/"+class,
					fmt.Sprintf("buf format f.proto -o <%s>, target %s before the run: exit %d; afterwards the target holds %d bytes, `buf format f.proto` prints %d bytes, equal: %v",
						kind, state.name, res.ExitCode, len(after), len(formatted), after == formatted),
					Case{Seed: s.Name, Context: "cli -o " + kind + " " + state.name, Input: s.Text, Output: after, Detail: stripScratch(res.Stderr, scratch)})
			}
		}
	}
}

func stripScratch(s, scratch string) string { return strings.ReplaceAll(s, scratch, "<scratch>") }

// ---------------------------------------------------------------------------------------------
// Enumeration
// ---------------------------------------------------------------------------------------------

func run(r *evid.Run) {
	r.Rule("seeds = every non-golden .proto under bufformat/testdata + hand-written texts covering every AST node kind + generated option-value shape files " +
		"(enclosing construct {top-level {} literal, nested <> literal, compact field options, array} x 19 value kinds (scalars, arrays, {} and <> literals: empty, 1 field, 2 fields, nested, inner separators) " +
		"x ':' present/absent x separator {none, ',', ';'}) + generated type-reference files (syntax {proto2, proto3, editions} x spelling {T, refs.T.U, .refs.T.U, .T} " +
		"x position {field with each label, field without label, oneof member, group member, extension field, map value, extendee, rpc request/response with/without stream, " +
		"extension name in option names: first/later part, plain/first compact/later compact option, message-literal key}); " +
		"every undecorated seed also through the CLI: stdout, -d --exit-code, -w, and -o x {file, dir} x state of the target before the run {absent, formatted text, shorter, longer, unformatted input, is the input file}; " +
		"for every seed: the undecorated text, and for EVERY token gap (before each token incl. EOF) x EVERY decoration of the " +
		"alphabet {/*c*/ after prev token, //c after prev token, '//c */' after prev token, two-line /*c*/ after prev token, /*c*/ on own line, //c on own line, /*c*/ glued before next token, " +
		"detached //c between blank lines, blank line, line break, ';', removal of the gap's whitespace} one variant; thorough adds every " +
		"pair of decorations (of the 8 basic ones) in every two gaps at distance 1 and 2. A case is counted (distinct, by text hash) when the variant parses; " +
		"variants that do not parse are skipped and counted. Inserted comment words are unique per (gap, decoration).")
	r.Assume("lexical variety is the decoration alphabet applied to the seed corpus, not arbitrary text")
	r.Assume("descriptor equality is checked on the unlinked descriptor (parser.ResultFromAST, validate=false, SourceCodeInfo cleared); " +
		"imports compared as a set; file-level options compared after a stable sort by option name (same-name options must keep their order)")
	r.Assume("inputs that import one path more than once do not compile (protocompile validateImports rejects them): for those only the set of import paths is compared, not public/weak flags")
	r.Assume("comment identity = comment text without delimiters, whitespace-collapsed (the formatter may turn //x into /* x */ and re-indent block comments)")
	r.Assume("attachment oracle uses protoc's attribution rules as implemented by protocompile/sourceinfo and is only demanded for comments that those rules attach to a declaration in the input, matched by element names; role changes (leading/trailing/detached) on the same declaration are counted, not reported")

	seeds, err := loadSeeds()
	if err != nil {
		r.Incomplete("cannot load seeds: " + err.Error())
		return
	}
	var usable []*seed
	seedsUnparseable := 0
	for i := range seeds {
		s := &seeds[i]
		if s.Text == "" {
			// the empty file: checked as a plain case below, no gaps
			s.toks = nil
			usable = append(usable, s)
			continue
		}
		if err := tokenise(s); err != nil {
			seedsUnparseable++
			if strings.HasPrefix(s.Name, "own/") {
				r.Incomplete("own seed does not parse: " + s.Name + ": " + err.Error())
			}
			continue
		}
		usable = append(usable, s)
	}
	e := &explorer{r: r}

	// census of type references (position x spelling) over the usable seeds: non-vacuity of the
	// "type reference" dimension is measured on the parsed corpus, not assumed from the generator
	refCells := map[string]int{}
	for _, s := range usable {
		if s.Text == "" {
			continue
		}
		if f, err := parse(s.Name, s.Text); err == nil {
			refCensus(f, refCells)
		}
	}
	r.Set("typeref_position_x_spelling_in_seeds", refCells)
	r.Set("typeref_positions_demanded", refPositions)
	r.Set("typeref_spellings_demanded", refSpellingClasses)
	if miss := missingRefCells(refCells); len(miss) > 0 {
		r.Incomplete("type-reference position x spelling cells without a seed: " + strings.Join(miss, ", "))
	}

	type work struct {
		s *seed
		g int
	}
	var items []work
	totalGaps := 0
	var seen sync.Map // per-seed text hash de-duplication
	dedup := func(s *seed, text string) bool {
		key := s.Name + "\x00" + fmt.Sprint(hashText(text))
		_, loaded := seen.LoadOrStore(key, true)
		return loaded
	}
	// phase 1: the undecorated seeds (their violations are the baseline for the variants)
	r.ParallelFor(len(usable), 0, func(i int) {
		s := usable[i]
		defer func() {
			if p := recover(); p != nil {
				r.Incomplete(fmt.Sprintf("harness panic on seed %s: %v", s.Name, p))
			}
		}()
		e.st.variants.Add(1)
		dedup(s, s.Text)
		r.Distinct(s.Name + "\x00" + s.Text)
		e.check(Case{Seed: s.Name, Context: "seed", Input: s.Text, hint: -1, site: "seed"}, nil, true)
	})
	for _, s := range usable {
		for g := range s.toks {
			items = append(items, work{s, g})
		}
		totalGaps += len(s.toks)
	}
	e.cliPhase(usable)

	pairs := !r.Quick()
	nd := len(decorations)
	// phase 2: every gap x every decoration
	r.ParallelFor(len(items), 0, func(i int) {
		w := items[i]
		defer func() {
			if p := recover(); p != nil {
				r.Incomplete(fmt.Sprintf("harness panic on seed %s gap %d: %v", w.s.Name, w.g, p))
			}
		}()
		for d := 0; d < nd; d++ {
			e.st.variants.Add(1)
			text, tags, ok := variant(w.s, []int{w.g}, []int{d})
			if !ok {
				e.st.notApplicable.Add(1)
				continue
			}
			if dedup(w.s, text) {
				e.st.duplicateText.Add(1)
				continue
			}
			c := Case{Seed: w.s.Name, Gaps: []int{w.g}, Decorations: []string{decorations[d].name},
				Context: decorations[d].name + "@" + gapContext(w.s, w.g), Input: text, hint: gapOffset(w.s, w.g), site: gapSite(w.s, w.g)}
			if !e.check(c, tags, false) {
				continue
			}
			e.st.perDecoration[d].Add(1)
			r.Distinct(w.s.Name + "\x00" + text)
			r.SampleEvery(i*nd+d, 7919, func() any {
				return map[string]any{"seed": w.s.Name, "gap": w.g, "decoration": decorations[d].name, "context": c.Context}
			})
		}
	})
	// phases 3, 4 (thorough): every pair of decorations in gaps (g, g+1), then in gaps (g, g+2)
	var pairAlphabet []int
	for i, d := range decorations {
		switch d.name {
		case "blk-after", "line-after", "blk-ownline", "line-ownline", "blk-before", "blank", "semicolon", "strip-ws":
			pairAlphabet = append(pairAlphabet, i)
		}
	}
	maxDist := 0
	if pairs {
		maxDist = 2
	}
	for dist := 1; dist <= maxDist && !r.Expired(); dist++ {
		r.ParallelFor(len(items), 0, func(i int) {
			w := items[i]
			defer func() {
				if p := recover(); p != nil {
					r.Incomplete(fmt.Sprintf("harness panic on seed %s gaps %d,%d: %v", w.s.Name, w.g, w.g+dist, p))
				}
			}()
			if w.g+dist >= len(w.s.toks) {
				return
			}
			for _, d1 := range pairAlphabet {
				for _, d2 := range pairAlphabet {
					e.st.variants.Add(1)
					text, tags, ok := variant(w.s, []int{w.g, w.g + dist}, []int{d1, d2})
					if !ok {
						e.st.notApplicable.Add(1)
						continue
					}
					if dedup(w.s, text) {
						e.st.duplicateText.Add(1)
						continue
					}
					c := Case{Seed: w.s.Name, Gaps: []int{w.g, w.g + dist},
						Decorations: []string{decorations[d1].name, decorations[d2].name},
						Context: "pair:" + decorations[d1].name + "@" + gapContext(w.s, w.g) + "+" +
							decorations[d2].name + "@" + gapContext(w.s, w.g+dist),
						Input: text, hint: gapOffset(w.s, w.g), site: gapSite(w.s, w.g)}
					if !e.check(c, tags, false) {
						continue
					}
					e.st.pairCases.Add(1)
					r.Distinct(w.s.Name + "\x00" + text)
				}
			}
		})
	}

	st := &e.st
	r.Set("seeds_total", len(seeds))
	r.Set("seeds_usable", len(usable))
	r.Set("seeds_unparseable", seedsUnparseable)
	r.Set("token_gaps", totalGaps)
	r.Set("decoration_alphabet", func() []string {
		var n []string
		for _, d := range decorations {
			n = append(n, d.name)
		}
		return n
	}())
	r.Set("pair_gap_distances", maxDist)
	r.Set("pair_variants_formatted", st.pairCases.Load())
	r.Set("variants_generated", st.variants.Load())
	r.Set("variants_not_applicable", st.notApplicable.Load())
	r.Set("variants_duplicate_text", st.duplicateText.Load())
	r.Set("variants_unparseable_skipped", st.unparseable.Load())
	r.Set("variants_unparseable_protocompile_parser_panicked", st.parserPanics.Load())
	r.Set("variants_formatted", st.formatted.Load())
	r.Set("clause_output_differs_from_input", st.outputDiffersFromInput.Load())
	r.Set("clause_descriptor_compared", st.descCompared.Load())
	r.Set("clause_imports_reordered_by_formatter", st.importsReordered.Load())
	r.Set("clause_imports_deduplicated_by_formatter", st.importsDeduped.Load())
	r.Set("clause_import_flags_skipped_duplicate_imports", st.flagsSkippedDupImports.Load())
	r.Set("clause_file_options_reordered_by_formatter", st.fileOptsReordered.Load())
	r.Set("clause_comments_compared", st.commentsCompared.Load())
	r.Set("clause_inserted_comments_tracked", st.tagsTracked.Load())
	r.Set("clause_attachment_eligible_comments", st.attachEligible.Load())
	r.Set("clause_attachment_demanded", st.attachDemanded.Load())
	r.Set("clause_inserted_comment_attached_to_declaration", st.tagAttachedInInput.Load())
	r.Set("clause_attachment_role_changed_same_declaration", st.roleChanged.Load())
	r.Set("clause_detached_comments_not_demanded", st.detachedNotDemanded.Load())
	r.Set("violations_inherited_from_seed_not_rereported", st.inheritedFromSeed.Load())
	r.Set("clause_idempotence_checked", st.idemChecked.Load())
	per := map[string]int64{}
	for i, d := range decorations {
		per[d.name] = st.perDecoration[i].Load()
	}
	r.Set("formatted_per_decoration", per)

	// vacuity guards
	for name, n := range map[string]int64{
		"descriptor comparison":            st.descCompared.Load(),
		"imports reordered":                st.importsReordered.Load(),
		"file options reordered":           st.fileOptsReordered.Load(),
		"inserted comments tracked":        st.tagsTracked.Load(),
		"inserted comment attached":        st.tagAttachedInInput.Load(),
		"idempotence":                      st.idemChecked.Load(),
		"formatter changed the input text": st.outputDiffersFromInput.Load(),
	} {
		if n == 0 {
			r.Incomplete("clause never exercised: " + name)
		}
	}
	for i, d := range decorations {
		if st.perDecoration[i].Load() == 0 {
			r.Incomplete("decoration never produced a parseable variant: " + d.name)
		}
	}
}
