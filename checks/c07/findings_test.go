package c07

import (
	"context"
	"fmt"
	"strings"
	"testing"

	"github.com/bufbuild/protocompile"
	"google.golang.org/protobuf/proto"
	"google.golang.org/protobuf/reflect/protoreflect"
	"google.golang.org/protobuf/types/descriptorpb"
)

// compileOptions links text with protocompile (WKTs from its standard imports) and returns the
// values of the repeated custom file option (rep) in the compiled descriptor.
func compileRep(t *testing.T, text string) []int32 {
	t.Helper()
	comp := protocompile.Compiler{Resolver: protocompile.WithStandardImports(&protocompile.SourceResolver{
		Accessor: protocompile.SourceAccessorFromMap(map[string]string{"f.proto": text}),
	})}
	files, err := comp.Compile(context.Background(), "f.proto")
	if err != nil {
		t.Fatalf("compile: %v", err)
	}
	fd := files[0]
	ext := fd.Extensions().ByName("rep")
	if ext == nil {
		t.Fatal("no extension rep")
	}
	opts := fd.Options().(*descriptorpb.FileOptions)
	// the option is an unknown/dynamic extension: re-parse with a resolver-free approach via reflection
	var out []int32
	opts.ProtoReflect().Range(func(f protoreflect.FieldDescriptor, v protoreflect.Value) bool {
		if f.Number() == 50000 {
			l := v.List()
			for i := 0; i < l.Len(); i++ {
				out = append(out, int32(l.Get(i).Int()))
			}
		}
		return true
	})
	if out == nil {
		// fall back to unknown fields (varints, tag 50000)
		b := opts.ProtoReflect().GetUnknown()
		_ = b
		bb, _ := proto.Marshal(opts)
		out = decodeVarintField(bb, 50000)
	}
	return out
}

func decodeVarintField(b []byte, num int) []int32 {
	var out []int32
	for len(b) > 0 {
		tag, n := uvarint(b)
		b = b[n:]
		switch tag & 7 {
		case 0:
			v, n := uvarint(b)
			b = b[n:]
			if int(tag>>3) == num {
				out = append(out, int32(v))
			}
		case 2:
			l, n := uvarint(b)
			b = b[n:]
			payload := b[:l]
			b = b[l:]
			if int(tag>>3) == num {
				for len(payload) > 0 {
					v, n := uvarint(payload)
					payload = payload[n:]
					out = append(out, int32(v))
				}
			}
		case 1:
			b = b[8:]
		case 5:
			b = b[4:]
		}
	}
	return out
}

func uvarint(b []byte) (uint64, int) {
	var x uint64
	var s uint
	for i, c := range b {
		if c < 0x80 {
			return x | uint64(c)<<s, i + 1
		}
		x |= uint64(c&0x7f) << s
		s += 7
	}
	return 0, len(b)
}

// TestFindingRepeatedFileOptionOrder demonstrates finding "descriptor-changed/options...": with more
// than 12 file options, options that set the same repeated custom option are re-ordered, which
// changes the compiled (linked) descriptor.
func TestFindingRepeatedFileOptionOrder(t *testing.T) {
	var sb strings.Builder
	for _, os := range ownSeeds {
		if os.Name == "many_file_options.proto" {
			sb.WriteString(os.Text)
		}
	}
	sb.WriteString("import \"google/protobuf/descriptor.proto\";\n")
	sb.WriteString("extend google.protobuf.FileOptions { repeated int32 rep = 50000; optional int32 aaa = 50001; optional int32 bbb = 50002; optional int32 zzz = 50003; }\n")
	in := sb.String()
	file, err := parse("f.proto", in)
	if err != nil {
		t.Fatal(err)
	}
	out, ferr, p := format(file)
	if ferr != nil || p != "" {
		t.Fatal(ferr, p)
	}
	a, b := compileRep(t, in), compileRep(t, out)
	t.Logf("input  (rep) = %v", a)
	t.Logf("output (rep) = %v", b)
	t.Logf("formatted:\n%s", out)
	if fmt.Sprint(a) == fmt.Sprint(b) {
		t.Log("not reproduced on this tree (fixed?)")
	} else {
		t.Log("REPRODUCED: compiled value of the repeated file option changes")
	}
}

// TestReplay checks that the registered replayer reproduces a finding from a recorded case and is
// silent on a harmless one.
func TestReplay(t *testing.T) {
	bad := `{"seed":"x.proto","input":"syntax = \"proto3\";\nmessage M {\n  int32 // see a */ b\n  a = 1;\n}\n"}`
	what, violated := replay([]byte(bad))
	t.Log(what)
	if !violated || !strings.Contains(what, "output-unparseable/line-comment-containing-block-comment-end") {
		t.Fatalf("expected the unparseable-output finding, got %v %q", violated, what)
	}
	good := `{"seed":"x.proto","input":"syntax = \"proto3\";\n\n// M\nmessage M {\n  int32 a = 1; // a\n}\n"}`
	what, violated = replay([]byte(good))
	if violated {
		t.Fatalf("unexpected violation: %s", what)
	}
}
