package c07

import (
	"fmt"
	"strings"
)

// Generated seeds: the "element shape" dimension of option values.
//
// The hand-written seeds contain every node kind, but only a handful of the combinations
// value kind x bracket style x optional separator x enclosing construct. The printer treats exactly
// these combinations differently: the optional ','/';' after an element is dropped and its comments
// travel separator -> value -> closing bracket (overrideTrailingComments, keyed by node pointer);
// '<' '>' are rewritten to '{' '}' through synthetic nodes; 0/1-element literals are printed compact,
// others multi-line; array elements keep their commas; message literals inside arrays have their own
// writer. The files below are the full product
//
//	enclosing construct {top-level '{}' literal, nested '<>' literal, compact field options, array}
//	x value kind        {5 scalars, 4 arrays, 5 '{}' literals, 5 '<>' literals:
//	                     empty, one scalar, two scalars, nested literal, inner separators}
//	x ':' after the key {present, absent (where the grammar allows it)}
//	x separator         {none, ',', ';'}            (one file per enclosing construct x separator)
//
// and every token gap of every file then gets every decoration, like any other seed: a comment or
// blank line in every position relative to every bracket and every separator of every shape.

type valueKind struct {
	text          string
	colonOptional bool // message literals and lists of message literals may follow the key directly
	message       bool
}

var valueKinds = []valueKind{
	{"1", false, false},
	{"-2.5", false, false},
	{`"s" "t"`, false, false},
	{"IDENT", false, false},
	{"-inf", false, false},
	{"[]", true, false},
	{"[1, 2]", false, false},
	{"[{p: 1}, <q: 2>]", true, false},
	{"[<p: 1 q: 2>, {r: 3 s: 4}]", true, false},
	{"{}", true, true},
	{"{p: 1}", true, true},
	{"{p: 1 q: 2}", true, true},
	{"{p: {q: 1}}", true, true},
	{"{p: 1, q: 2;}", true, true},
	{"<>", true, true},
	{"<p: 1>", true, true},
	{"<p: 1 q: 2>", true, true},
	{"<p: <q: 1>>", true, true},
	{"<p: 1, q: 2;>", true, true},
}

var shapeSeparators = []struct{ name, text string }{{"nosep", ""}, {"comma", ","}, {"semicolon", ";"}}

// shapeElements renders one element per (value kind, colon) with the given separator after each,
// one element per line (so that "the next token was on a later line" holds as in ordinary files).
func shapeElements(sep, indent string) string {
	var sb strings.Builder
	n := 0
	for _, k := range valueKinds {
		colons := []string{": "}
		if k.colonOptional {
			colons = append(colons, " ")
		}
		for _, c := range colons {
			fmt.Fprintf(&sb, "%sk%d%s%s%s\n", indent, n, c, k.text, sep)
			n++
		}
	}
	return sb.String()
}

func shapeSeeds() []struct{ Name, Text string } {
	var out []struct{ Name, Text string }
	add := func(name, text string) {
		out = append(out, struct{ Name, Text string }{"shapes/" + name + ".proto", text})
	}
	const head = "syntax = \"proto2\";\npackage own.shapes;\n"
	for _, sep := range shapeSeparators {
		add("in_brace_"+sep.name, head+"option (s) = {\n"+shapeElements(sep.text, "  ")+"};\n")
		add("in_angle_"+sep.name, head+"option (s) = {\n  w <\n"+shapeElements(sep.text, "    ")+"  >"+sep.text+"\n};\n")
		add("in_field_options_"+sep.name, head+"message M {\n  optional int32 f = 1 [(fo) = {\n"+shapeElements(sep.text, "    ")+"  }, deprecated = true];\n}\n")
	}
	// array elements: every message-literal kind as only element, as non-last and as last element
	var sb strings.Builder
	sb.WriteString(head + "option (s) = {\n")
	var all []string
	n := 0
	for _, k := range valueKinds {
		if !k.message {
			continue
		}
		fmt.Fprintf(&sb, "  a%d: [%s]\n", n, k.text)
		n++
		all = append(all, k.text)
	}
	fmt.Fprintf(&sb, "  all: [\n    %s\n  ]\n", strings.Join(all, ",\n    "))
	// the same list in reverse, so that every kind is also next to the other neighbours / last
	rev := make([]string, len(all))
	for i, v := range all {
		rev[len(all)-1-i] = v
	}
	fmt.Fprintf(&sb, "  rev [%s]\n};\n", strings.Join(rev, ", "))
	add("in_array", sb.String())
	return out
}
