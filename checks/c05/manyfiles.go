package c05

import (
	"fmt"
	"sort"
	"strings"
	"sync"

	"github.com/bufbuild/buf/private/pkg/thread"
	"github.com/bufbuild/bufverif/internal/bufx"
)

// ---------------------------------------------------------------------------------------------
// Module size dimension (round 5): modules of many files.
//
// "for all generated workspaces (multiple files/packages ...)": the workspaces of the family have 3-14
// files. buf converts the files of an image with bufprotosource.NewFiles, which switches to parallel
// chunks once there are at least 8 files per unit of thread.Parallelism() (chunk size = files /
// parallelism, the remainder forms an extra chunk). The cases below are modules of n small files - every
// file is clean by construction except for one planted violation (six kinds, cycling with the file index;
// one of them a cross-file PACKAGE_SAME_* difference) - for every n around the switch-over and for every
// remainder n mod parallelism, under several values of the (process-global) parallelism. Every file's
// violation must be reported at its token and nothing else.
// ---------------------------------------------------------------------------------------------

// ManyFilesLayouts: "own" = every file is a package of its own; "shared" = packages of three files.
var ManyFilesLayouts = []string{"own", "shared"}

const manyFilesKinds = 6

// letterTag is the file index written in letters (names with digits have their own palette; here the
// words must stay unambiguous).
func letterTag(i int) string {
	return string([]byte{byte('a' + (i/26)%26), byte('a' + i%26)})
}

// ManyFilesSpec builds a module of n files and the expected annotations.
func ManyFilesSpec(n int, layout string) (*Spec, []Expect) {
	s := &Spec{}
	var expects []Expect
	const doc = "line"
	groupOf := func(i int) (string, int) {
		if layout == "shared" {
			size := 3
			if rest := n - (i/3)*3; rest < 3 {
				size = rest
			}
			return "g" + letterTag(i/3), size
		}
		return "p" + letterTag(i), 1
	}
	for i := 0; i < n; i++ {
		tag := letterTag(i)
		grp, groupSize := groupOf(i)
		goPkg := `"example.com/big/` + grp + `;` + grp + `pb"`
		f := &File{Dir: "big/" + grp + "/v1", Base: "part_" + tag + ".proto", Syntax: "proto3",
			Pkg: &PkgStmt{"big." + grp + ".v1"}, Options: []*FileOption{{"go_package", goPkg}}}
		up := "KIND" + strings.ToUpper(tag)
		enum := &Enum{Name: "Kind" + tag, Doc: doc, Values: []*EnumValue{
			{Name: up + "_UNSPECIFIED", Number: 0, Doc: doc},
			{Name: up + "_FIRST", Number: 1, Doc: doc},
		}}
		f.Enums = append(f.Enums, enum)
		fld := func(name string, t Type, num int) *Field { return &Field{Name: name, Doc: doc, Type: t, Number: num} }
		item := &Message{Name: "Item" + tag, Doc: doc, Fields: []*Field{
			fld("id", scalar("string"), 1),
			fld("item_count", scalar("int32"), 2),
			fld("kind", Type{Enum: enum}, 3),
		}}
		req := &Message{Name: "Fetch" + tag + "Request", Doc: doc, Fields: []*Field{fld("id", scalar("string"), 1)}}
		resp := &Message{Name: "Fetch" + tag + "Response", Doc: doc, Fields: []*Field{fld("item", Type{Msg: item}, 1)}}
		f.Messages = append(f.Messages, item, req, resp)
		rpc := &Method{Name: "Fetch" + tag, Doc: doc, Req: Type{Msg: req}, Resp: Type{Msg: resp}}
		svc := &Service{Name: "Desk" + tag + "Service", Doc: doc, Methods: []*Method{rpc}}
		f.Services = append(f.Services, svc)
		s.Files = append(s.Files, f)
		switch i % manyFilesKinds {
		case 0:
			item.Name = lowerFirst(item.Name)
			expects = append(expects, must("MESSAGE_PASCAL_CASE", item, "name"))
		case 1:
			item.Fields[1].Doc = "none"
			expects = append(expects, must("COMMENT_FIELD", item.Fields[1], "decl"))
		case 2:
			enum.Values[1].Name = "OTHER_FIRST"
			expects = append(expects, must("ENUM_VALUE_PREFIX", enum.Values[1], "name"))
		case 3:
			rpc.ServerStream = true
			expects = append(expects, must("RPC_NO_SERVER_STREAMING", rpc, "decl"))
		case 4:
			if groupSize >= 2 {
				// a cross-file rule: every file of the package is reported (added below, per package)
				f.Options[0].Value = `"example.com/elsewhere/` + grp + `;` + grp + `pb"`
			} else {
				svc.Name = "Desk" + tag + "Svc"
				expects = append(expects, must("SERVICE_SUFFIX", svc, "name"))
			}
		case 5:
			item.Fields[1].Name = "itemCount"
			expects = append(expects, must("FIELD_LOWER_SNAKE_CASE", item.Fields[1], "name"))
		}
	}
	// packages whose files differ in go_package: the option statement of every file of the package
	byPkg := map[string][]*File{}
	for _, f := range s.Files {
		byPkg[f.Package()] = append(byPkg[f.Package()], f)
	}
	for _, f := range s.Files {
		files := byPkg[f.Package()]
		differs := false
		for _, g := range files {
			if g.Options[0].Value != files[0].Options[0].Value {
				differs = true
			}
		}
		if differs {
			expects = append(expects, must("PACKAGE_SAME_GO_PACKAGE", f.Options[0], "decl"))
		}
	}
	return s, expects
}

type manyFilesCase struct {
	Parallelism int    `json:"parallelism"`
	Files       int    `json:"files"`
	Layout      string `json:"layout"`
}

func (c manyFilesCase) String() string {
	return fmt.Sprintf("many-files/parallelism%d/files%d/%s", c.Parallelism, c.Files, c.Layout)
}

// manyFilesCounts lists the file counts run under a parallelism: one below the switch-over to parallel
// chunks (8 files per unit), every count from there to one past the next multiple (every remainder, two
// exact multiples), and counts with two / three full rounds of chunks plus a remainder.
func manyFilesCounts(par int, full bool) []int {
	var out []int
	for n := 8*par - 1; n <= 9*par+1; n++ {
		out = append(out, n)
	}
	out = append(out, 16*par+1)
	if full {
		out = append(out, 17*par-1, 24*par+par/2+1)
	}
	return out
}

// manyFilesPart runs the many-files cases. thread.SetParallelism is process-global: it is only changed
// here, between parallel sections, and restored before returning.
func (rn *runner) manyFilesPart() {
	r := rn.r
	def := thread.Parallelism()
	defer thread.SetParallelism(def)
	full := !r.Quick()
	pars := []int{2, 3}
	if full {
		pars = append(pars, 4, 5, 8)
	}
	var mu sync.Mutex
	cases, chunked, remainder, evals, met := 0, 0, 0, 0, 0
	perPar := map[string]int{}
	runAll := func(par int, counts []int, layouts []string) {
		var jobs []manyFilesCase
		for _, n := range counts {
			for _, l := range layouts {
				jobs = append(jobs, manyFilesCase{par, n, l})
			}
		}
		thread.SetParallelism(par)
		r.ParallelFor(len(jobs), 0, func(i int) {
			c := jobs[i]
			spec, expects := ManyFilesSpec(c.Files, c.Layout)
			rd := spec.Render()
			image, err := buildImage(rn.ctx, rd)
			if err != nil {
				r.Incomplete("harness: " + c.String() + " does not build: " + oneLine(err.Error()))
				return
			}
			if got := len(image.Files()); got != c.Files {
				r.Incomplete(fmt.Sprintf("harness: %s: the image has %d files", c, got))
				return
			}
			for _, t := range rn.tables {
				if t.Version == "v1beta1" {
					continue
				}
				cfg, err := newConfig(t, "ALL", LintOpts{})
				if err != nil {
					r.Incomplete(err.Error())
					continue
				}
				anns, err := bufx.Lint(rn.ctx, cfg.lint, image)
				r.Eval(1)
				if err != nil {
					r.Incomplete(fmt.Sprintf("lint returned a non-annotation error for %s %s: %v", c, cfg, err))
					continue
				}
				annsPerFile := map[string]int{}
				for _, a := range anns {
					annsPerFile[a.Path]++
				}
				// A file with no annotation at all although something is expected in it was not looked at
				// as a whole: one signature for that, whatever the rules.
				expPerFile := map[string][]Expect{}
				for _, e := range expects {
					if cfg.Active[e.Rule] {
						path := rd.Anchors[e.Elem].File
						expPerFile[path] = append(expPerFile[path], e)
					}
				}
				var unseen []string
				for path := range expPerFile {
					if annsPerFile[path] == 0 {
						unseen = append(unseen, path)
					}
				}
				sort.Strings(unseen)
				info := CaseInfo{Base: c.String(), Op: "many-files", Config: cfg.String(), Opts: cfg.Opts}
				if len(unseen) > 0 {
					ci := info
					ci.Note = fmt.Sprintf("%d of the %d files got no annotation at all: %s", len(unseen), c.Files, strings.Join(unseen, ", "))
					ci.Got = anns
					ci.Files = map[string]string{unseen[0]: rd.Files[unseen[0]]}
					ci.Expected = expectStrings(rd, expPerFile[unseen[0]])
					r.Violate("missing/many-files/whole-file/no-annotation-at-all",
						fmt.Sprintf("%s under %s: %d file(s) with a planted violation got no annotation of any rule (first: %s, expected %s); %d annotations over all files",
							c, cfg, len(unseen), unseen[0], strings.Join(ci.Expected, "; "), len(anns)), ci)
				}
				var rest []Expect
				for _, e := range expects {
					if annsPerFile[rd.Anchors[e.Elem].File] > 0 || !cfg.Active[e.Rule] {
						rest = append(rest, e)
					}
				}
				problems, fired := judge(rd, rest, cfg, anns, "many-files")
				for _, p := range problems {
					ci := info
					ci.Expected = expectStrings(rd, rest)
					ci.Got = anns
					r.Violate(p.sig, c.String()+": "+p.what, ci)
				}
				n := 0
				for _, k := range fired {
					n += k
				}
				mu.Lock()
				evals++
				met += n
				mu.Unlock()
			}
			r.Distinct(c.String())
			r.SampleEvery(i, 9, func() any {
				return CaseInfo{Base: c.String(), Op: "many-files", Expected: expectStrings(rd, expects[:3])}
			})
			mu.Lock()
			cases++
			perPar[fmt.Sprint(par)]++
			if c.Files/par >= 8 {
				chunked++
				if c.Files%(c.Files/par) != 0 {
					remainder++
				}
			}
			mu.Unlock()
		})
	}
	for _, par := range pars {
		if r.Expired() {
			break
		}
		runAll(par, manyFilesCounts(par, full), ManyFilesLayouts)
	}
	// the parallelism of the machine itself (the value buf runs with), when that stays affordable
	isIn := false
	for _, p := range pars {
		if p == def {
			isIn = true
		}
	}
	if def >= 2 && def <= 32 && !isIn && !r.Expired() {
		counts := []int{8*def + 1, 9*def - 1}
		if full {
			counts = append(counts, 8*def-1, 8*def, 9*def, 16*def+def/2+1)
		}
		runAll(def, counts, ManyFilesLayouts[:1])
	}
	thread.SetParallelism(def)
	r.Set("many_files_cases", cases)
	r.Set("many_files_cases_per_parallelism", perPar)
	r.Set("many_files_cases_in_parallel_chunks", chunked)
	r.Set("many_files_cases_in_parallel_chunks_with_remainder", remainder)
	r.Set("many_files_lint_calls", evals)
	r.Set("many_files_expectations_met", met)
	r.Set("many_files_default_parallelism", def)
	if !r.Expired() && (chunked == 0 || remainder == 0 || chunked == cases || met == 0) {
		r.Incomplete(fmt.Sprintf("many-files: clause not exercised (cases %d, in parallel chunks %d, with remainder %d, expectations met %d)", cases, chunked, remainder, met))
	}
}
