package c05

import (
	"context"
	"fmt"
	"testing"

	"github.com/bufbuild/bufverif/internal/evid"
)

// TestCLIPart runs only the CLI binding (development aid).
func TestCLIPart(t *testing.T) {
	ctx := context.Background()
	tables, err := loadRuleTables(ctx)
	if err != nil {
		t.Fatal(err)
	}
	r := evid.NewRun("C05", "quick", "exploration", 300e9)
	rn := &runner{r: r, ctx: ctx, tables: tables, st: newStats()}
	b := plantBases(true)[0]
	rn.cliPart(b, Plants(b))
	fmt.Println("cli cases", rn.st.cliCases, rn.st.cliWithAnnotations, "violations", r.ViolationCount())
}
