package c05

import (
	"github.com/bufbuild/buf/private/bufpkg/bufimage"
	"github.com/bufbuild/buf/private/pkg/protoencoding"
	"google.golang.org/protobuf/types/pluginpb"
)

// The entry dimension: how the schema reaches bufcheck.Client.Lint.
//
//   - "source":      the image buf builds from the workspace files (the compiler's warnings tell which
//     imports are unused, whether the syntax statement is missing, ...); this is `buf lint <dir>`.
//   - "descriptors": the image is made from plain FileDescriptorProtos, as protoc-gen-buf-lint does: the
//     source-built image is turned into a CodeGeneratorRequest (bufimage.ImageToCodeGeneratorRequest: what
//     buf and protoc hand to a plugin), sent over the wire (marshalled, and unmarshalled without knowledge of
//     any extension, as protoplugin does for protoc-gen-buf-lint), and turned back into an image with
//     bufimage.NewImageForCodeGeneratorRequest(..., WithUnusedImportsComputation()): exactly the two calls
//     of the plugin's handler (the handler itself is unexported). Nothing but descriptors and source
//     locations survives, so buf has to work out by itself which imports are unused.
//
// The property is about the schema, not about the way it was handed over: a clean schema is silent and a
// planted violation is reported at its token under both entries. The one thing plain descriptors cannot
// say is whether a proto2 file had a syntax statement (NewImageForCodeGeneratorRequest: "we cannot
// determine if the syntax was unset"), so SYNTAX_SPECIFIED is not expected under "descriptors".
const (
	entrySource      = "source"
	entryDescriptors = "descriptors"
)

// rulesBlindUnderDescriptors are rules whose input is not part of a FileDescriptorProto.
var rulesBlindUnderDescriptors = map[string]bool{"SYNTAX_SPECIFIED": true}

// viaDescriptors rebuilds the image the way protoc-gen-buf-lint sees it.
func viaDescriptors(image bufimage.Image) (bufimage.Image, error) {
	request, err := bufimage.ImageToCodeGeneratorRequest(image, "", nil, false, false)
	if err != nil {
		return nil, err
	}
	data, err := protoencoding.NewWireMarshaler().Marshal(request)
	if err != nil {
		return nil, err
	}
	received := &pluginpb.CodeGeneratorRequest{}
	if err := protoencoding.NewWireUnmarshaler(protoencoding.EmptyResolver).Unmarshal(data, received); err != nil {
		return nil, err
	}
	return bufimage.NewImageForCodeGeneratorRequest(received, bufimage.WithUnusedImportsComputation())
}

// expectsUnder drops the expectations a rule cannot meet under the entry.
func expectsUnder(entry string, expects []Expect) []Expect {
	if entry != entryDescriptors {
		return expects
	}
	var out []Expect
	for _, e := range expects {
		if !rulesBlindUnderDescriptors[e.Rule] {
			out = append(out, e)
		}
	}
	return out
}
