package c05

import (
	"fmt"
	"strings"
)

// The import usage dimension of the clean family (round 4).
//
// Every import of the older family members is used by several references and names the file that
// declares the referenced type. Whether an import is *used* (IMPORT_USED, in MINIMAL.. STANDARD) depends on
//
//   - where the one reference to the imported type sits in the importing file (UsageSites): a field of a
//     top-level message, of a message nested at depth 2, a map value, a oneof member, an RPC request or
//     response type, the extendee of a top-level or nested extend block, the type of an extension, a custom
//     option on the file / a message / a field;
//   - how the declaring file is reached from the import statement (UsageVias): directly, through the
//     1st / 2nd / 3rd `import public` of the imported file (which also has a plain import in front of
//     them), or through two levels of `import public` where the way leads through the first or the second
//     public import of the first level;
//   - who works it out (the entry dimension, entry.go): the compiler, or buf from plain descriptors.
//
// The dependency (package vendorlib.<version>) is import-only - part of the image, not linted - as the
// files of a dependency module are, so its `import public` statements are nobody's violation. The consumer
// (package consumer.<version>, one file, syntax proto3 / proto2 / editions) follows every rule by
// construction and has exactly one import, used by exactly one reference.
//
// Plants on these members (usagePlants): a second import that nothing uses (a plain dependency file, first
// or last; an umbrella file whose public imports lead to unused files only), and the reference removed
// (a local type takes its place), which leaves the original import unused.

const (
	depPkg   = "vendorlib"
	usagePkg = "consumer"
)

var (
	depStems  = []string{"one", "two", "three"}
	depTitles = []string{"One", "Two", "Three"}
)

// UsageVia says which dependency file the consumer imports and which one declares the referenced type.
type UsageVia struct {
	Name   string
	Import string // stem of the imported dependency file
	K      int    // index (depStems) of the file that declares the referenced type
}

// UsageVias: all.proto has `import "unrelated"; import public "one"; import public "two"; import public
// "three";`, spare.proto has `import public "unrelated_too";`, chain.proto has `import public "spare";
// import public "all";`, chain_first.proto has them the other way round.
var UsageVias = []UsageVia{
	{"direct", "two", 1},
	{"public/1-of-3", "all", 0},
	{"public/2-of-3", "all", 1},
	{"public/3-of-3", "all", 2},
	{"public-public/1-of-2/2-of-3", "chain_first", 1},
	{"public-public/2-of-2/1-of-3", "chain", 0},
	{"public-public/2-of-2/3-of-3", "chain", 2},
}

// UsageSite is the kind of element that refers to the imported type.
type UsageSite struct {
	Name    string
	Proto3  bool // can be written in a proto3 file
	Options bool // the reference is a custom option (the dependency files then import descriptor.proto)
}

// UsageSites are the reference kinds.
var UsageSites = []UsageSite{
	{"field/top", true, false},
	{"field/nested2", true, false},
	{"map-value", true, false},
	{"oneof-member", true, false},
	{"rpc-request", true, false},
	{"rpc-response", true, false},
	{"extendee/top", false, false},
	{"extendee/nested", false, false},
	{"extension-type", false, false},
	{"option/file", true, true},
	{"option/message", true, true},
	{"option/field", true, true},
}

func usageViaByName(name string) UsageVia {
	for _, v := range UsageVias {
		if v.Name == name {
			return v
		}
	}
	panic("c05: unknown usage via " + name)
}

func usageSiteByName(name string) UsageSite {
	for _, s := range UsageSites {
		if s.Name == name {
			return s
		}
	}
	panic("c05: unknown usage site " + name)
}

func depPath(ver, stem string) string { return depPkg + "/" + ver + "/" + stem + ".proto" }

// depFiles are the import-only dependency files (verbatim text).
func depFiles(ver string, withOptions bool) []*File {
	pkg := depPkg + "." + ver
	file := func(stem string, imports []string, body string) *File {
		var sb strings.Builder
		sb.WriteString("syntax = \"proto2\";\n\npackage " + pkg + ";\n\n")
		for _, im := range imports {
			sb.WriteString("import " + im + ";\n")
		}
		if len(imports) > 0 {
			sb.WriteString("\n")
		}
		sb.WriteString(body)
		return &File{Dir: depPkg + "/" + ver, Base: stem + ".proto", Raw: sb.String()}
	}
	q := func(stem string) string { return `"` + depPath(ver, stem) + `"` }
	var out []*File
	for k, stem := range depStems {
		title := depTitles[k]
		body := "message " + title + " {\n  optional string id = 1;\n  extensions 100 to 199;\n}\n\n" +
			"message Fetch" + title + "Request {\n  optional string id = 1;\n}\n\n" +
			"message Fetch" + title + "Response {\n  optional string id = 1;\n}\n"
		var imports []string
		if withOptions {
			imports = append(imports, `"google/protobuf/descriptor.proto"`)
			n := 50100 + 10*(k+1)
			body += fmt.Sprintf("\nextend google.protobuf.FileOptions {\n  optional string %s_file_note = %d;\n}\n", stem, n) +
				fmt.Sprintf("\nextend google.protobuf.MessageOptions {\n  optional string %s_message_note = %d;\n}\n", stem, n+1) +
				fmt.Sprintf("\nextend google.protobuf.FieldOptions {\n  optional string %s_field_note = %d;\n}\n", stem, n+2)
		}
		out = append(out, file(stem, imports, body))
	}
	out = append(out,
		file("unrelated", nil, "message Unrelated {\n  optional string id = 1;\n}\n"),
		file("unrelated_too", nil, "message UnrelatedToo {\n  optional string id = 1;\n}\n"),
		file("all", []string{q("unrelated"), "public " + q("one"), "public " + q("two"), "public " + q("three")},
			"message Catalogue {\n  optional Unrelated first = 1;\n}\n"),
		file("spare", []string{"public " + q("unrelated_too")}, ""),
		file("chain", []string{"public " + q("spare"), "public " + q("all")}, ""),
		file("chain_first", []string{"public " + q("all"), "public " + q("spare")}, ""),
	)
	return out
}

// addUsage appends the consumer file and the dependency files to the workspace. With removed, the one
// reference to the imported type is replaced by a local type (the import statement stays).
func addUsage(s *Spec, b *builder, removed bool) *File {
	p := b.p
	via, site, sy, ver := usageViaByName(p.UseVia), usageSiteByName(p.UseSite), p.UseSyntax, p.Version
	if sy == "proto3" && !site.Proto3 {
		panic("c05: usage site " + site.Name + " cannot be written in proto3")
	}
	title, stem := depTitles[via.K], depStems[via.K]
	depFull := depPkg + "." + ver + "."
	depMsg := Type{Ext: depFull + title}
	ref := func(local Type) Type {
		if removed {
			return local
		}
		return depMsg
	}
	f := &File{Dir: usagePkg + "/" + ver, Base: usagePkg + ".proto", Syntax: sy, Header: p.Header,
		Pkg: &PkgStmt{usagePkg + "." + ver}, Options: b.fileOptions(usagePkg)}
	f.Imports = append(f.Imports, &Import{Path: depPath(ver, via.Import)})
	main := &Message{Name: "Consumer", Doc: p.Doc}
	idField := b.field(sy, b.pal.FID, scalar("string"), 1, "")
	main.Fields = append(main.Fields, idField)
	f.Messages = append(f.Messages, main)
	switch site.Name {
	case "field/top":
		main.Fields = append(main.Fields, b.field(sy, "item", ref(scalar("string")), 2, ""))
	case "field/nested2":
		cell := &Message{Name: "Cell", Doc: p.Doc}
		cell.Fields = append(cell.Fields, b.field(sy, "item", ref(scalar("bytes")), 1, ""))
		box := &Message{Name: "Box", Doc: p.Doc, Messages: []*Message{cell}}
		box.Fields = append(box.Fields, b.field(sy, "cell", Type{Msg: cell}, 1, ""))
		main.Messages = append(main.Messages, box)
		main.Fields = append(main.Fields, b.field(sy, "box", Type{Msg: box}, 2, ""))
	case "map-value":
		val := ref(scalar("string"))
		main.Fields = append(main.Fields, b.field(sy, "items", Type{MapKey: "string", MapVal: &val}, 2, ""))
	case "oneof-member":
		main.Oneofs = append(main.Oneofs, &Oneof{Name: "choice", Doc: p.Doc, Fields: []*Field{
			b.oneofField("text", scalar("string"), 2),
			b.oneofField("item", ref(scalar("int64")), 3),
		}})
	case "rpc-request", "rpc-response":
		rpc := "Fetch" + title
		local := func(suffix string) Type {
			m := &Message{Name: rpc + suffix, Doc: p.Doc}
			m.Fields = append(m.Fields, b.field(sy, b.pal.FID, scalar("string"), 1, ""))
			f.Messages = append(f.Messages, m)
			return Type{Msg: m}
		}
		var req, resp Type
		if site.Name == "rpc-request" && !removed {
			req = Type{Ext: depFull + rpc + "Request"}
		} else {
			req = local("Request")
		}
		if site.Name == "rpc-response" && !removed {
			resp = Type{Ext: depFull + rpc + "Response"}
		} else {
			resp = local("Response")
		}
		svc := &Service{Name: "Consumer" + b.o.EffSvc(), Doc: p.Doc}
		svc.Methods = append(svc.Methods, &Method{Name: rpc, Doc: p.Doc, Req: req, Resp: resp, Body: p.Body})
		f.Services = append(f.Services, svc)
	case "extendee/top":
		if !removed {
			f.Extends = append(f.Extends, &Extend{Target: depMsg, Fields: []*Field{
				b.field(sy, "consumer_note", scalar("string"), 100, "optional"),
			}})
		}
	case "extendee/nested":
		if !removed {
			main.Extends = append(main.Extends, &Extend{Target: depMsg, Fields: []*Field{
				b.field(sy, "consumer_mark", scalar("string"), 101, "optional"),
			}})
		}
	case "extension-type":
		ext := &Message{Name: "ConsumerExtendable", Doc: p.Doc, ExtRange: "100 to 199"}
		f.Messages = append(f.Messages, ext)
		f.Extends = append(f.Extends, &Extend{Target: Type{Msg: ext}, Fields: []*Field{
			b.field(sy, "consumer_item", ref(scalar("string")), 100, "optional"),
		}})
	case "option/file":
		if !removed {
			f.Options = append(f.Options, &FileOption{"(" + depFull + stem + "_file_note)", `"noted"`})
		}
	case "option/message":
		if !removed {
			main.OptLines = append(main.OptLines, "("+depFull+stem+`_message_note) = "noted"`)
		}
	case "option/field":
		if !removed {
			idField.Opts = "(" + depFull + stem + `_field_note) = "noted"`
		}
	default:
		panic("c05: unknown usage site " + site.Name)
	}
	s.Files = append(s.Files, f)
	s.Files = append(s.Files, depFiles(ver, site.Options)...)
	return f
}

// usageFile finds the consumer file.
func usageFile(s *Spec, p Params) *File {
	for _, f := range s.Files {
		if f.Raw == "" && f.Dir == usagePkg+"/"+p.Version {
			return f
		}
	}
	panic("c05: workspace has no consumer file")
}

// usageFamily lists the clean members with a consumer file.
//
// Quick: via x site, consumer syntax proto3 where the site can be written in proto3, proto2 and editions
// for the three extension sites. Thorough: via x site x every possible syntax x two settings of the other
// parameters.
func usageFamily(quick bool) []Params {
	var out []Params
	for _, via := range UsageVias {
		for _, site := range UsageSites {
			for _, sy := range []string{"proto3", "proto2", "editions"} {
				if sy == "proto3" && !site.Proto3 {
					continue
				}
				if quick && sy != "proto3" && site.Proto3 {
					continue
				}
				p := DefaultParams()
				p.Leaves = false
				p.UseVia, p.UseSite, p.UseSyntax = via.Name, site.Name, sy
				out = append(out, p)
				if !quick {
					p.Palette, p.Doc, p.Version, p.FileOpts, p.Custom, p.Header, p.Body = 2, "block", "v1beta1", true, true, true, true
					out = append(out, p)
				}
			}
		}
	}
	return out
}

// usagePlants are the planting operators on a member with a consumer file.
func usagePlants(p Params) []Plant {
	site := fmt.Sprintf("consumer:%s/%s/%s", p.UseSyntax, p.UseVia, p.UseSite)
	var out []Plant
	add := func(op string, apply func(s *Spec) []Expect) {
		out = append(out, Plant{Op: op, Rule: "IMPORT_USED", Site: site, Apply: apply})
	}
	for _, first := range []bool{true, false} {
		where := "last"
		if first {
			where = "first"
		}
		add("import-unused/beside-used-import/"+where, func(s *Spec) []Expect {
			im := &Import{Path: depPath(p.Version, "unrelated")}
			addImport(usageFile(s, p), im, first)
			return []Expect{must("IMPORT_USED", im, "decl")}
		})
		// an umbrella file: its public imports lead to files the consumer does not use
		add("import-unused/unused-public-umbrella/"+where, func(s *Spec) []Expect {
			im := &Import{Path: depPath(p.Version, "spare")}
			addImport(usageFile(s, p), im, first)
			return []Expect{must("IMPORT_USED", im, "decl")}
		})
	}
	add("import-unused/reference-removed", func(s *Spec) []Expect {
		var keep []*File
		for _, f := range s.Files {
			if f.Dir != usagePkg+"/"+p.Version && f.Dir != depPkg+"/"+p.Version {
				keep = append(keep, f)
			}
		}
		s.Files = keep
		f := addUsage(s, &builder{p: p, pal: Palettes[p.Palette], o: p.Opts()}, true)
		return []Expect{must("IMPORT_USED", f.Imports[0], "decl")}
	})
	return out
}
