package c05

import (
	"fmt"
	"os"
	"sync"
)

// PROTOVALIDATE basics. The rule's Purpose: "Checks that protovalidate rules are valid and all CEL
// expressions compile." Only a few unambiguous misuses are planted, each written as its own
// `(buf.validate.field).<type>.<rule> = <value>` entry so that the offending option has a token:
//
//   - type-mismatch:   rules of another scalar type on the field (string rules on an int32 field, ...)
//   - bounds-equal:    lt = N together with gte = N (an empty range): both options are offending
//   - const-and-other: const together with another rule: the const option is offending
//   - valid:           a satisfiable pair of bounds / a single const / min_len: nothing is reported
//
// buf/validate/validate.proto comes from buf's own testdata and is part of the image as an import
// (not linted), as it would be as a dependency module.

const validatePath = "/repo/private/bufpkg/bufcheck/testdata/lint/protovalidate/vendor/protovalidate/buf/validate/validate.proto"

var (
	validateOnce sync.Once
	validateText string
)

func validateProto() string {
	validateOnce.Do(func() {
		b, err := os.ReadFile(validatePath)
		if err == nil {
			validateText = string(b)
		}
	})
	return validateText
}

// pvEntry builds the option text and anchors for a list of (rule path, value) entries.
func pvEntries(entries ...[2]string) (string, map[string]int) {
	text := ""
	anchors := map[string]int{}
	for i, e := range entries {
		if i > 0 {
			text += ", "
		}
		anchors[fmt.Sprintf("%d", i)] = len(text)
		text += "(buf.validate.field)." + e[0] + " = " + e[1]
	}
	return text, anchors
}

func protovalidateJobs(p Params) []plantJob {
	if validateProto() == "" {
		return nil
	}
	probe := Build(p)
	var out []plantJob
	add := func(op, rule, site string, apply func(s *Spec) []Expect) {
		out = append(out, plantJob{p, Plant{Op: op, Rule: rule, Site: site, Heavy: true, Apply: apply}})
	}
	c := &catalogue{p: p, probe: probe}
	attach := func(s *Spec, fa FieldAt, entries ...[2]string) *Field {
		vf := &File{Dir: "buf/validate", Base: "validate.proto", Raw: validateProto()}
		s.Files = append(s.Files, vf)
		fa.File.Imports = append(fa.File.Imports, &Import{Target: vf})
		fa.Field.Opts, fa.Field.OptAnchors = pvEntries(entries...)
		return fa.Field
	}
	other := map[string]string{"string": "int32", "int32": "string", "int64": "string", "bool": "string", "bytes": "string"}
	sample := map[string][2]string{ // a harmless rule of each type
		"string": {"string.min_len", "1"},
		"int32":  {"int32.gt", "1"},
	}
	for i, fa := range probe.AllFields() {
		t := fa.Field.Type.Scalar
		if t == "" || fa.Extend != nil || fa.Field.Label == "repeated" {
			continue
		}
		if _, ok := other[t]; !ok {
			continue
		}
		site := c.site("field:"+t, fa.File, fa.Depth)
		if fa.Oneof != nil {
			site = c.site("oneof-field:"+t, fa.File, fa.Depth)
		}
		add("protovalidate/type-mismatch", pvRule, site, func(s *Spec) []Expect {
			fd := attach(s, s.AllFields()[i], sample[other[t]])
			return []Expect{must(pvRule, fd, "opt:0")}
		})
		switch t {
		case "int32", "int64":
			add("protovalidate/bounds-equal", pvRule, site, func(s *Spec) []Expect {
				fd := attach(s, s.AllFields()[i], [2]string{t + ".lt", "10"}, [2]string{t + ".gte", "10"})
				return []Expect{must(pvRule, fd, "opt:0"), must(pvRule, fd, "opt:1")}
			})
			add("protovalidate/const-and-other", pvRule, site, func(s *Spec) []Expect {
				fd := attach(s, s.AllFields()[i], [2]string{t + ".lt", "10"}, [2]string{t + ".const", "1"})
				return []Expect{must(pvRule, fd, "opt:1")}
			})
			add("protovalidate/valid-bounds", "", site, func(s *Spec) []Expect {
				attach(s, s.AllFields()[i], [2]string{t + ".lt", "10"}, [2]string{t + ".gt", "8"})
				return nil
			})
			add("protovalidate/valid-const", "", site, func(s *Spec) []Expect {
				attach(s, s.AllFields()[i], [2]string{t + ".const", "5"})
				return nil
			})
		case "string":
			add("protovalidate/const-and-other", pvRule, site, func(s *Spec) []Expect {
				fd := attach(s, s.AllFields()[i], [2]string{"string.max_len", "1"}, [2]string{"string.const", `"foo"`})
				return []Expect{must(pvRule, fd, "opt:1")}
			})
			add("protovalidate/valid-len", "", site, func(s *Spec) []Expect {
				attach(s, s.AllFields()[i], [2]string{"string.min_len", "1"}, [2]string{"string.max_len", "20"})
				return nil
			})
		}
	}
	return out
}
