package c05

import (
	"encoding/json"
	"fmt"
	"os"
	"path/filepath"
	"sort"
	"strings"

	"github.com/bufbuild/bufverif/internal/bufx"
)

// CLI binding: for the clean first base and the first instance of every planted rule on it, the
// workspace is written to a scratch directory and linted with the in-process CLI
// (`buf lint <input> --error-format=json`); the annotations must be the same set as the ones returned by
// Client.Lint for the same image and configuration (and the exit code 100 / 0). This ties the API-level
// observations of this check to the second observation point of the property.
//
// Which configuration is in effect for a `buf lint` run depends on more than the buf.yaml text, so the
// binding is a grid (round 4):
//
//	input     "dir": the workspace directory; "image": the file written by `buf build <dir> -o image.binpb`
//	          (a two-step history: the schema is built first and linted later)
//	delivery  how the configuration gets to the command: "flag-data" (--config <yaml text>), "flag-file"
//	          (--config <path of a yaml file>), "dir-buf-yaml" (a buf.yaml in the linted directory; dir
//	          input only - for an image input buf reads ./buf.yaml of the process' working directory, which an
//	          in-process run cannot set per case)
//	config    v2 all rules (the cell of the earlier rounds), and in every version a buf.yaml without `use`
//	          key - no `lint:` key at all unless the case has rule options - under which the default rules of
//	          *that version* run (Rule.Default of Client.AllRules), and v1 all rules
//
// The full grid is run for the clean workspace and for every planted rule that is a default rule in some
// but not all versions (only those can tell one version's default configuration from another's); the other
// planted rules get the old cell, and the image input with all rules in v2 and the v1 default rules (the v2
// default rules include PROTOVALIDATE, 100x the cost of the others).
// Module-level lint blocks are not used here: for an image input there is no module to attach them to.

type cliAnnotation struct {
	Path        string `json:"path"`
	StartLine   int    `json:"start_line"`
	StartColumn int    `json:"start_column"`
	EndLine     int    `json:"end_line"`
	EndColumn   int    `json:"end_column"`
	Type        string `json:"type"`
	Message     string `json:"message"`
}

func annKey(path string, sl, sc, el, ec int, typ, msg string) string {
	return fmt.Sprintf("%s:%d:%d-%d:%d %s %s", path, sl, sc, el, ec, typ, msg)
}

const (
	cliInputDir   = "dir"
	cliInputImage = "image"

	cliFlagData   = "flag-data"
	cliFlagFile   = "flag-file"
	cliDirBufYAML = "dir-buf-yaml"
)

// cliCell is one cell of the grid.
type cliCell struct {
	input, delivery string
	version, use    string
}

func (c cliCell) String() string { return c.input + "/" + c.delivery + "/" + c.version + "/" + c.use }

// cliConfigs are the (version, use) pairs of the grid.
var cliConfigs = [][2]string{{"v2", "ALL"}, {"v2", noUse}, {"v1", noUse}, {"v1beta1", noUse}, {"v1", "ALL"}}

func cliCells(full bool) []cliCell {
	if !full {
		return []cliCell{
			{cliInputDir, cliFlagData, "v2", "ALL"},
			{cliInputImage, cliFlagData, "v2", "ALL"},
			{cliInputImage, cliFlagData, "v1", noUse},
		}
	}
	var out []cliCell
	for _, in := range [][2]string{{cliInputDir, cliFlagData}, {cliInputDir, cliFlagFile}, {cliInputDir, cliDirBufYAML}, {cliInputImage, cliFlagData}, {cliInputImage, cliFlagFile}} {
		for _, c := range cliConfigs {
			out = append(out, cliCell{in[0], in[1], c[0], c[1]})
		}
	}
	return out
}

func writeTree(dir string, files map[string]string) error {
	for path, text := range files {
		full := filepath.Join(dir, filepath.FromSlash(path))
		if err := os.MkdirAll(filepath.Dir(full), 0o755); err != nil {
			return err
		}
		if err := os.WriteFile(full, []byte(text), 0o644); err != nil {
			return err
		}
	}
	return nil
}

// runCLI compares CLI and API annotations for one rendered workspace in every cell. label is "clean" or
// the operator; sensitive: the planted rule is not a default rule of every version.
func (rn *runner) runCLI(scratch string, n int, info CaseInfo, rd *Rendered, expects []Expect, opts LintOpts, cells []cliCell, label string, sensitive bool) {
	ws := filepath.Join(scratch, fmt.Sprintf("ws%d", n))
	src := filepath.Join(ws, "src")
	if err := writeTree(src, rd.Files); err != nil {
		rn.r.Incomplete("scratch: " + err.Error())
		return
	}
	image, err := buildImage(rn.ctx, rd)
	if err != nil {
		rn.r.Incomplete("cli case does not build: " + oneLine(err.Error()))
		return
	}
	// the first step of the two-step history
	imagePath := filepath.Join(ws, "image.binpb")
	built := bufx.RunCLI(rn.ctx, nil, "", "build", src, "-o", imagePath)
	if built.ExitCode != 0 {
		rn.r.Incomplete(fmt.Sprintf("cli case: `buf build -o` failed for %s (exit %d): %s", label, built.ExitCode, oneLine(built.Stderr)))
		return
	}
	for ci, cell := range cells {
		var table *RuleTable
		for _, t := range rn.tables {
			if t.Version == cell.version {
				table = t
			}
		}
		cfg, err := newConfig(table, cell.use, opts)
		if err != nil {
			rn.r.Incomplete(err.Error())
			continue
		}
		api, err := bufx.Lint(rn.ctx, cfg.lint, image)
		if err != nil {
			rn.r.Incomplete("cli case: lint error: " + oneLine(err.Error()))
			continue
		}
		input, prefix := src, filepath.ToSlash(src)+"/"
		if cell.input == cliInputImage {
			input, prefix = imagePath, ""
		}
		args := []string{"lint", input, "--error-format=json"}
		switch cell.delivery {
		case cliFlagData:
			args = append(args, "--config", cfg.yaml)
		case cliFlagFile:
			path := filepath.Join(ws, fmt.Sprintf("config%d.yaml", ci))
			if err := os.WriteFile(path, []byte(cfg.yaml), 0o644); err != nil {
				rn.r.Incomplete("scratch: " + err.Error())
				continue
			}
			args = append(args, "--config", path)
		case cliDirBufYAML:
			// a copy of the workspace with the buf.yaml inside
			input = filepath.Join(ws, fmt.Sprintf("src%d", ci))
			prefix = filepath.ToSlash(input) + "/"
			if err := writeTree(input, rd.Files); err == nil {
				err = os.WriteFile(filepath.Join(input, "buf.yaml"), []byte(cfg.yaml), 0o644)
			}
			if err != nil {
				rn.r.Incomplete("scratch: " + err.Error())
				continue
			}
			args[1] = input
		}
		res := bufx.RunCLI(rn.ctx, nil, "", args...)
		rn.r.Eval(1)
		var want, got []string
		for _, a := range api {
			want = append(want, annKey(a.Path, a.StartLine, a.StartCol, a.EndLine, a.EndCol, a.Type, a.Message))
		}
		bad := false
		for _, line := range strings.Split(strings.TrimSpace(res.Stdout), "\n") {
			if line == "" {
				continue
			}
			var ca cliAnnotation
			if err := json.Unmarshal([]byte(line), &ca); err != nil {
				rn.r.Incomplete(fmt.Sprintf("cli output is not JSON lines (%s): %q (stderr %q)", cell, oneLine(line), oneLine(res.Stderr)))
				bad = true
				break
			}
			p := strings.TrimPrefix(filepath.ToSlash(ca.Path), prefix)
			got = append(got, annKey(p, ca.StartLine, ca.StartColumn, ca.EndLine, ca.EndColumn, ca.Type, ca.Message))
		}
		if bad {
			continue
		}
		sort.Strings(want)
		sort.Strings(got)
		wantExit := 0
		if len(api) > 0 {
			wantExit = 100
		}
		vi := info
		vi.Config = cfg.String()
		vi.Entry = "cli:" + cell.input + "/" + cell.delivery
		vi.Opts = cfg.Opts
		vi.Files = rd.Files
		vi.Got = api
		// the cell of the earlier rounds keeps its signatures
		sigCell := ""
		if cell != (cliCell{cliInputDir, cliFlagData, "v2", "ALL"}) {
			sigCell = cell.input + "-input/" + cfg.String() + "/"
		}
		if strings.Join(want, "\n") != strings.Join(got, "\n") {
			vi.Note = "cli stdout: " + res.Stdout + " stderr: " + res.Stderr
			rn.r.Violate("cli-differs-from-api/"+sigCell+label, fmt.Sprintf("`buf lint %s --error-format=json` (configuration %s by %s) and Client.Lint disagree: api=%v cli=%v", cell.input, cfg, cell.delivery, want, got), vi)
		} else if res.ExitCode != wantExit {
			vi.Note = "stderr: " + res.Stderr
			rn.r.Violate("cli-exit-code/"+sigCell+label, fmt.Sprintf("buf lint exit code %d, want %d for %d annotations (%s)", res.ExitCode, wantExit, len(api), cell), vi)
		}
		// the API side of the comparison is held against the expectations like any other evaluation
		for _, p := range judgeOnly(rd, expects, cfg, api, label) {
			rn.r.Violate(p.sig, p.what, vi)
		}
		rn.st.mu.Lock()
		rn.st.cliCases++
		if len(api) > 0 {
			rn.st.cliWithAnnotations++
		}
		rn.st.cliCells[cell.String()]++
		if sensitive {
			rn.st.cliDefaultSensitive[cell.input+"/"+cfg.String()]++
		}
		rn.st.mu.Unlock()
	}
}

func judgeOnly(rd *Rendered, expects []Expect, cfg *Config, anns []bufx.Annotation, label string) []problem {
	problems, _ := judge(rd, expects, cfg, anns, label)
	return problems
}

// defaultSensitive: the rule runs by default in some but not all config versions.
func (rn *runner) defaultSensitive(rule string) bool {
	n := 0
	for _, t := range rn.tables {
		for _, id := range t.Defaults {
			if id == rule {
				n++
			}
		}
	}
	return n != 0 && n != len(rn.tables)
}

// cliPart runs the CLI binding on the first plant base.
//
// optionBase is a second clean workspace, one that is clean only under rule options (custom suffixes, Empty
// allowances): its buf.yaml without use key has a lint block that consists of options only.
func (rn *runner) cliPart(base Params, plants []Plant, optionBase Params) {
	scratch, err := os.MkdirTemp("", "verif-c05-")
	if err != nil {
		rn.r.Incomplete("scratch: " + err.Error())
		return
	}
	defer os.RemoveAll(scratch)
	var v2 *RuleTable
	for _, t := range rn.tables {
		if t.Version == "v2" {
			v2 = t
		}
	}
	type item struct {
		pl    *Plant
		label string
		base  Params
	}
	items := []item{{nil, "clean", base}, {nil, "clean", optionBase}}
	seen := map[string]bool{}
	for i := range plants {
		pl := &plants[i]
		if pl.Rule == "" || seen[pl.Rule] {
			continue
		}
		if _, ok := v2.Rules[pl.Rule]; !ok {
			continue
		}
		seen[pl.Rule] = true
		items = append(items, item{pl, pl.Op, base})
	}
	nSensitive := 0
	for _, it := range items {
		if it.pl != nil && rn.defaultSensitive(it.pl.Rule) {
			nSensitive++
		}
	}
	rn.r.Set("cli_default_sensitive_rules", nSensitive)
	if nSensitive == 0 {
		rn.r.Incomplete("the CLI binding has no planted rule that tells the default rules of one config version from another's")
	}
	rn.r.ParallelFor(len(items), 8, func(i int) {
		it := items[i]
		spec := Build(it.base)
		opts := it.base.Opts()
		info := CaseInfo{Base: it.base.Key()}
		var expects []Expect
		sensitive := false
		if it.pl != nil {
			expects = it.pl.Apply(spec)
			if it.pl.Opts != nil {
				opts = *it.pl.Opts
			}
			info.Op, info.Rule, info.Site = it.pl.Op, it.pl.Rule, it.pl.Site
			sensitive = rn.defaultSensitive(it.pl.Rule)
		}
		rn.runCLI(scratch, i, info, spec.Render(), expects, opts, cliCells(it.pl == nil || sensitive), it.label, sensitive)
	})
}
