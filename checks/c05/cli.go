package c05

import (
	"encoding/json"
	"fmt"
	"os"
	"path/filepath"
	"sort"
	"strings"

	"github.com/bufbuild/bufverif/internal/bufx"
)

// CLI binding: for the clean first base and the first instance of every planted rule on it, the
// workspace is written to a scratch directory and linted with the in-process CLI
// (`buf lint <dir> --error-format=json --config <buf.yaml text>`); the annotations must be the same set
// as the ones returned by Client.Lint for the same image and configuration. This ties the API-level
// observations of this check to the second observation point of the property.

type cliAnnotation struct {
	Path        string `json:"path"`
	StartLine   int    `json:"start_line"`
	StartColumn int    `json:"start_column"`
	EndLine     int    `json:"end_line"`
	EndColumn   int    `json:"end_column"`
	Type        string `json:"type"`
	Message     string `json:"message"`
}

func annKey(path string, sl, sc, el, ec int, typ, msg string) string {
	return fmt.Sprintf("%s:%d:%d-%d:%d %s %s", path, sl, sc, el, ec, typ, msg)
}

// runCLI compares CLI and API annotations for one rendered workspace under cfg. label is "clean" or the operator.
func (rn *runner) runCLI(scratch string, n int, info CaseInfo, rd *Rendered, cfg *Config, label string) {
	dir := filepath.Join(scratch, fmt.Sprintf("ws%d", n))
	for path, text := range rd.Files {
		full := filepath.Join(dir, filepath.FromSlash(path))
		if err := os.MkdirAll(filepath.Dir(full), 0o755); err != nil {
			rn.r.Incomplete("scratch: " + err.Error())
			return
		}
		if err := os.WriteFile(full, []byte(text), 0o644); err != nil {
			rn.r.Incomplete("scratch: " + err.Error())
			return
		}
	}
	image, err := buildImage(rn.ctx, rd)
	if err != nil {
		rn.r.Incomplete("cli case does not build: " + oneLine(err.Error()))
		return
	}
	api, err := bufx.Lint(rn.ctx, cfg.lint, image)
	if err != nil {
		rn.r.Incomplete("cli case: lint error: " + oneLine(err.Error()))
		return
	}
	res := bufx.RunCLI(rn.ctx, nil, "", "lint", dir, "--error-format=json", "--config", cfg.yaml)
	rn.r.Eval(1)
	var want, got []string
	for _, a := range api {
		want = append(want, annKey(a.Path, a.StartLine, a.StartCol, a.EndLine, a.EndCol, a.Type, a.Message))
	}
	for _, line := range strings.Split(strings.TrimSpace(res.Stdout), "\n") {
		if line == "" {
			continue
		}
		var ca cliAnnotation
		if err := json.Unmarshal([]byte(line), &ca); err != nil {
			rn.r.Incomplete(fmt.Sprintf("cli output is not JSON lines: %q (stderr %q)", oneLine(line), oneLine(res.Stderr)))
			return
		}
		p := filepath.ToSlash(ca.Path)
		p = strings.TrimPrefix(p, filepath.ToSlash(dir)+"/")
		got = append(got, annKey(p, ca.StartLine, ca.StartColumn, ca.EndLine, ca.EndColumn, ca.Type, ca.Message))
	}
	sort.Strings(want)
	sort.Strings(got)
	wantExit := 0
	if len(api) > 0 {
		wantExit = 100
	}
	ci := info
	ci.Config = cfg.String()
	ci.Opts = cfg.Opts
	ci.Files = rd.Files
	ci.Got = api
	if strings.Join(want, "\n") != strings.Join(got, "\n") {
		ci.Note = "cli stdout: " + res.Stdout + " stderr: " + res.Stderr
		rn.r.Violate("cli-differs-from-api/"+label, fmt.Sprintf("`buf lint --error-format=json` and Client.Lint disagree: api=%v cli=%v", want, got), ci)
	} else if res.ExitCode != wantExit {
		ci.Note = "stderr: " + res.Stderr
		rn.r.Violate("cli-exit-code/"+label, fmt.Sprintf("buf lint exit code %d, want %d for %d annotations", res.ExitCode, wantExit, len(api)), ci)
	}
	rn.st.mu.Lock()
	rn.st.cliCases++
	if len(api) > 0 {
		rn.st.cliWithAnnotations++
	}
	rn.st.mu.Unlock()
}

// cliPart runs the CLI binding on the first plant base.
func (rn *runner) cliPart(base Params, plants []Plant) {
	scratch, err := os.MkdirTemp("", "verif-c05-")
	if err != nil {
		rn.r.Incomplete("scratch: " + err.Error())
		return
	}
	defer os.RemoveAll(scratch)
	var v2 *RuleTable
	for _, t := range rn.tables {
		if t.Version == "v2" {
			v2 = t
		}
	}
	type item struct {
		pl    *Plant
		label string
	}
	items := []item{{nil, "clean"}}
	seen := map[string]bool{}
	for i := range plants {
		pl := &plants[i]
		if pl.Rule == "" || seen[pl.Rule] {
			continue
		}
		if _, ok := v2.Rules[pl.Rule]; !ok {
			continue
		}
		seen[pl.Rule] = true
		items = append(items, item{pl, pl.Op})
	}
	rn.r.ParallelFor(len(items), 4, func(i int) {
		it := items[i]
		spec := Build(base)
		opts := base.Opts()
		info := CaseInfo{Base: base.Key()}
		if it.pl != nil {
			it.pl.Apply(spec)
			if it.pl.Opts != nil {
				opts = *it.pl.Opts
			}
			info.Op, info.Rule, info.Site = it.pl.Op, it.pl.Rule, it.pl.Site
		}
		cfg, err := newConfig(v2, "ALL", opts)
		if err != nil {
			rn.r.Incomplete(err.Error())
			return
		}
		rn.runCLI(scratch, i, info, spec.Render(), cfg, it.label)
	})
}
