package c05

import (
	"fmt"
	"strings"
)

// This file is a deliberately small protobuf workspace DSL ("pgen-lite"): Go structs for files,
// messages, enums, services, ... that are rendered to .proto text while recording the 1-based
// (line, column) of every token an annotation may legitimately point at. Expected positions are
// therefore computed from the text we wrote, never taken from buf.

// Pos is a 1-based line/column. The zero Pos means "no position" (file-level annotation).
type Pos struct {
	Line int `json:"line"`
	Col  int `json:"col"`
}

// Spec is a workspace (one module rooted at ".").
type Spec struct {
	Files []*File
}

// File is one .proto file.
type File struct {
	Dir, Base string
	Syntax    string // "proto3" | "proto2" | "editions" | "" (no syntax statement at all)
	Header    bool   // detached header comment before the syntax statement
	Pkg       *PkgStmt
	Imports   []*Import
	Options   []*FileOption
	Enums     []*Enum
	Messages  []*Message
	Services  []*Service
	Extends   []*Extend
	Raw       string // verbatim content (vendored file, not modelled); such files are import-only
	// FeatureLines are file-level editions features, each rendered as `option <line>;` before the other
	// options (no anchors: nothing points at them).
	FeatureLines []string
}

// Path is the module-relative path.
func (f *File) Path() string {
	if f.Dir == "" {
		return f.Base
	}
	return f.Dir + "/" + f.Base
}

// Package is the package name ("" if none).
func (f *File) Package() string {
	if f.Pkg == nil {
		return ""
	}
	return f.Pkg.Name
}

// PkgStmt is the package statement.
type PkgStmt struct{ Name string }

// Import is an import statement.
type Import struct {
	Target *File  // workspace file, or nil
	Path   string // used when Target is nil (well-known types)
	Kind   string // "" | "public" | "weak"
}

// FileOption is `option <Name> = <Value>;` (Value is the literal text).
type FileOption struct{ Name, Value string }

// AliasOpt is `option allow_alias = true;` inside an enum.
type AliasOpt struct{}

// Enum is an enum declaration.
type Enum struct {
	Name   string
	Doc    string
	Alias  *AliasOpt
	Values []*EnumValue
}

// EnumValue is one enum value.
type EnumValue struct {
	Name   string
	Number int
	Doc    string
}

// Message is a message declaration.
type Message struct {
	Name     string
	Doc      string
	Fields   []*Field
	Oneofs   []*Oneof
	Messages []*Message
	Enums    []*Enum
	Extends  []*Extend
	ExtRange string // e.g. "100 to 199"
	// OptLines are message options, each rendered as `option <line>;` (no anchors: nothing points at them).
	OptLines []string
	// NestedFirst renders nested messages and enums before the fields (so that synthetic map entry
	// messages come after the declared nested messages in the descriptor).
	NestedFirst bool
}

// Type is a field / rpc type.
type Type struct {
	Scalar string
	Msg    *Message
	Enum   *Enum
	Ext    string // fully-qualified external type such as google.protobuf.Empty
	MapKey string // non-empty: map<MapKey, MapVal>
	MapVal *Type
}

// Field is a field (regular, oneof member, or extension).
type Field struct {
	Name   string
	Doc    string
	Label  string // "" | "optional" | "repeated" | "required"
	Type   Type
	Number int
	Opts   string // text inside [...] or ""
	// OptAnchors are named byte offsets into Opts whose positions are recorded as anchors "opt:<name>".
	OptAnchors map[string]int
}

// Oneof is a oneof.
type Oneof struct {
	Name   string
	Doc    string
	Fields []*Field
}

// Service is a service.
type Service struct {
	Name    string
	Doc     string
	Methods []*Method
}

// Method is an RPC.
type Method struct {
	Name                       string
	Doc                        string
	Req, Resp                  Type
	ClientStream, ServerStream bool
	Body                       bool // `{}` instead of `;`
}

// Extend is an extend block.
type Extend struct {
	Target Type
	Fields []*Field
}

// Anchor holds the positions of one element's own tokens.
type Anchor struct {
	File string
	At   map[string]Pos // "decl", "name", "type", "number", "req", "resp", "file", "opt:<x>"
}

// Rendered is the result of rendering a Spec.
type Rendered struct {
	Files   map[string]string
	Anchors map[any]*Anchor
	// ImportOnly are paths of Raw files.
	ImportOnly map[string]bool
}

type typeInfo struct {
	file *File
	full string // name inside the package, e.g. Outer.Mid
}

type index struct {
	msgs  map[*Message]typeInfo
	enums map[*Enum]typeInfo
}

func (s *Spec) index() *index {
	ix := &index{msgs: map[*Message]typeInfo{}, enums: map[*Enum]typeInfo{}}
	var walk func(f *File, prefix string, m *Message)
	walk = func(f *File, prefix string, m *Message) {
		full := prefix + m.Name
		ix.msgs[m] = typeInfo{f, full}
		for _, e := range m.Enums {
			ix.enums[e] = typeInfo{f, full + "." + e.Name}
		}
		for _, n := range m.Messages {
			walk(f, full+".", n)
		}
	}
	for _, f := range s.Files {
		for _, e := range f.Enums {
			ix.enums[e] = typeInfo{f, e.Name}
		}
		for _, m := range f.Messages {
			walk(f, "", m)
		}
	}
	return ix
}

func (ix *index) typeName(from *File, t Type) string {
	qual := func(ti typeInfo) string {
		if ti.file == nil {
			panic("c05: dangling type reference")
		}
		if ti.file.Package() == from.Package() || ti.file.Package() == "" {
			return ti.full
		}
		return ti.file.Package() + "." + ti.full
	}
	switch {
	case t.MapKey != "":
		return "map<" + t.MapKey + ", " + ix.typeName(from, *t.MapVal) + ">"
	case t.Scalar != "":
		return t.Scalar
	case t.Ext != "":
		return t.Ext
	case t.Msg != nil:
		return qual(ix.msgs[t.Msg])
	case t.Enum != nil:
		return qual(ix.enums[t.Enum])
	}
	panic("c05: empty type")
}

type writer struct {
	sb        strings.Builder
	line, col int
	path      string
	anchors   map[any]*Anchor
}

func (w *writer) s(str string) {
	for _, c := range str {
		if c == '\n' {
			w.line++
			w.col = 1
		} else {
			w.col++
		}
	}
	w.sb.WriteString(str)
}

func (w *writer) pos() Pos { return Pos{w.line, w.col} }

func (w *writer) mark(elem any, kind string) {
	w.markAt(elem, kind, w.pos())
}

func (w *writer) markAt(elem any, kind string, p Pos) {
	a := w.anchors[elem]
	if a == nil {
		a = &Anchor{File: w.path, At: map[string]Pos{}}
		w.anchors[elem] = a
	}
	a.At[kind] = p
}

// Doc kinds. The first group are valid leading comments; the second group leave the element without
// a non-empty leading comment.
var (
	GoodDocs = []string{"line", "block", "multi", "leadblank", "docblock"}
	BadDocs  = []string{"none", "empty", "blank", "detached", "trailing"}
)

// doc writes the leading comment for an element and returns the text to append as trailing comment.
func (w *writer) doc(indent, kind, name string) string {
	text := name + " is documented."
	switch kind {
	case "line":
		w.s(indent + "// " + text + "\n")
	case "block":
		w.s(indent + "/* " + text + " */\n")
	case "multi":
		w.s(indent + "// " + text + "\n" + indent + "//\n" + indent + "// More about it.\n")
	case "leadblank":
		w.s(indent + "//\n" + indent + "// " + text + "\n")
	case "docblock":
		w.s(indent + "/**\n" + indent + " * " + text + "\n" + indent + " */\n")
	case "none":
	case "empty":
		w.s(indent + "//\n")
	case "blank":
		w.s(indent + "//   \n")
	case "detached":
		w.s(indent + "// " + text + "\n\n")
	case "trailing":
		return " // " + text
	default:
		panic("c05: unknown doc kind " + kind)
	}
	return ""
}

// Render renders the workspace.
func (s *Spec) Render() *Rendered {
	ix := s.index()
	r := &Rendered{Files: map[string]string{}, Anchors: map[any]*Anchor{}, ImportOnly: map[string]bool{}}
	for _, f := range s.Files {
		if f.Raw != "" {
			r.Files[f.Path()] = f.Raw
			r.ImportOnly[f.Path()] = true
			continue
		}
		w := &writer{line: 1, col: 1, path: f.Path(), anchors: r.Anchors}
		w.markAt(f, "file", Pos{})
		s.renderFile(ix, w, f)
		if _, dup := r.Files[f.Path()]; dup {
			panic("c05: duplicate file path " + f.Path())
		}
		r.Files[f.Path()] = w.sb.String()
	}
	return r
}

func importPath(im *Import) string {
	if im.Target != nil {
		return im.Target.Path()
	}
	return im.Path
}

func (s *Spec) renderFile(ix *index, w *writer, f *File) {
	if f.Header {
		w.s("// Header of " + f.Base + ", detached from everything.\n\n")
	}
	switch f.Syntax {
	case "proto3", "proto2":
		w.s("syntax = \"" + f.Syntax + "\";\n\n")
	case "editions":
		w.s("edition = \"2023\";\n\n")
	case "":
	default:
		panic("c05: unknown syntax " + f.Syntax)
	}
	if f.Pkg != nil {
		w.mark(f.Pkg, "decl")
		w.s("package ")
		w.mark(f.Pkg, "name")
		w.s(f.Pkg.Name + ";\n\n")
	}
	for _, im := range f.Imports {
		w.mark(im, "decl")
		w.s("import ")
		if im.Kind != "" {
			w.s(im.Kind + " ")
		}
		w.mark(im, "name")
		w.s("\"" + importPath(im) + "\";\n")
	}
	if len(f.Imports) > 0 {
		w.s("\n")
	}
	for _, line := range f.FeatureLines {
		w.s("option " + line + ";\n")
	}
	if len(f.FeatureLines) > 0 {
		w.s("\n")
	}
	for _, o := range f.Options {
		w.mark(o, "decl")
		w.s("option " + o.Name + " = " + o.Value + ";\n")
	}
	if len(f.Options) > 0 {
		w.s("\n")
	}
	for _, e := range f.Enums {
		renderEnum(w, "", e)
		w.s("\n")
	}
	for _, m := range f.Messages {
		renderMessage(ix, w, f, "", m)
		w.s("\n")
	}
	for _, x := range f.Extends {
		renderExtend(ix, w, f, "", x)
		w.s("\n")
	}
	for _, sv := range f.Services {
		renderService(ix, w, f, sv)
		w.s("\n")
	}
}

func renderEnum(w *writer, indent string, e *Enum) {
	tr := w.doc(indent, e.Doc, e.Name)
	w.s(indent)
	w.mark(e, "decl")
	w.s("enum ")
	w.mark(e, "name")
	w.s(e.Name + " {" + tr + "\n")
	in := indent + "  "
	if e.Alias != nil {
		w.s(in)
		w.mark(e.Alias, "decl")
		w.s("option allow_alias = true;\n")
	}
	for _, v := range e.Values {
		tr := w.doc(in, v.Doc, v.Name)
		w.s(in)
		w.mark(v, "decl")
		w.mark(v, "name")
		w.s(v.Name + " = ")
		w.mark(v, "number")
		w.s(fmt.Sprintf("%d;", v.Number) + tr + "\n")
	}
	w.s(indent + "}\n")
}

func renderField(ix *index, w *writer, f *File, indent string, fd *Field) {
	tr := w.doc(indent, fd.Doc, fd.Name)
	w.s(indent)
	w.mark(fd, "decl")
	if fd.Label != "" {
		w.mark(fd, "label")
		w.s(fd.Label + " ")
	}
	w.mark(fd, "type")
	w.s(ix.typeName(f, fd.Type) + " ")
	w.mark(fd, "name")
	w.s(fd.Name + " = ")
	w.mark(fd, "number")
	w.s(fmt.Sprintf("%d", fd.Number))
	if fd.Opts != "" {
		w.s(" [")
		start := w.pos()
		for name, off := range fd.OptAnchors {
			// options are single-line by construction
			w.markAt(fd, "opt:"+name, Pos{start.Line, start.Col + off})
		}
		w.s(fd.Opts + "]")
	}
	w.s(";" + tr + "\n")
}

func renderMessage(ix *index, w *writer, f *File, indent string, m *Message) {
	tr := w.doc(indent, m.Doc, m.Name)
	w.s(indent)
	w.mark(m, "decl")
	w.s("message ")
	w.mark(m, "name")
	w.s(m.Name + " {" + tr + "\n")
	in := indent + "  "
	if m.ExtRange != "" {
		w.s(in + "extensions " + m.ExtRange + ";\n")
	}
	for _, line := range m.OptLines {
		w.s(in + "option " + line + ";\n")
	}
	nested := func() {
		for _, n := range m.Messages {
			renderMessage(ix, w, f, in, n)
		}
		for _, e := range m.Enums {
			renderEnum(w, in, e)
		}
	}
	if m.NestedFirst {
		nested()
	}
	for _, fd := range m.Fields {
		renderField(ix, w, f, in, fd)
	}
	for _, o := range m.Oneofs {
		tr := w.doc(in, o.Doc, o.Name)
		w.s(in)
		w.mark(o, "decl")
		w.s("oneof ")
		w.mark(o, "name")
		w.s(o.Name + " {" + tr + "\n")
		for _, fd := range o.Fields {
			renderField(ix, w, f, in+"  ", fd)
		}
		w.s(in + "}\n")
	}
	if !m.NestedFirst {
		nested()
	}
	for _, x := range m.Extends {
		renderExtend(ix, w, f, in, x)
	}
	w.s(indent + "}\n")
}

func renderExtend(ix *index, w *writer, f *File, indent string, x *Extend) {
	w.s(indent)
	w.mark(x, "decl")
	w.s("extend " + ix.typeName(f, x.Target) + " {\n")
	for _, fd := range x.Fields {
		renderField(ix, w, f, indent+"  ", fd)
	}
	w.s(indent + "}\n")
}

func renderService(ix *index, w *writer, f *File, sv *Service) {
	tr := w.doc("", sv.Doc, sv.Name)
	w.mark(sv, "decl")
	w.s("service ")
	w.mark(sv, "name")
	w.s(sv.Name + " {" + tr + "\n")
	for _, m := range sv.Methods {
		tr := w.doc("  ", m.Doc, m.Name)
		w.s("  ")
		w.mark(m, "decl")
		w.s("rpc ")
		w.mark(m, "name")
		w.s(m.Name + "(")
		if m.ClientStream {
			w.s("stream ")
		}
		w.mark(m, "req")
		w.s(ix.typeName(f, m.Req) + ") returns (")
		if m.ServerStream {
			w.s("stream ")
		}
		w.mark(m, "resp")
		w.s(ix.typeName(f, m.Resp) + ")")
		if m.Body {
			w.s(" {}")
		} else {
			w.s(";")
		}
		w.s(tr + "\n")
	}
	w.s("}\n")
}

// ---- traversal helpers ------------------------------------------------------------------------

// MsgAt is a message with its context.
type MsgAt struct {
	File  *File
	Msg   *Message
	Depth int // 0 = top level
}

// EnumAt is an enum with its context.
type EnumAt struct {
	File  *File
	Enum  *Enum
	Depth int // 0 = top level, n = nested in a message at depth n-1
}

// FieldAt is a field with its context.
type FieldAt struct {
	File     *File
	Field    *Field
	Parent   *Message // nil for top-level extension
	Oneof    *Oneof
	Extend   *Extend
	Depth    int
	Siblings []*Field
}

func (s *Spec) modelled() []*File {
	var out []*File
	for _, f := range s.Files {
		if f.Raw == "" {
			out = append(out, f)
		}
	}
	return out
}

// AllMessages lists all messages (depth first, declaration order).
func (s *Spec) AllMessages() []MsgAt {
	var out []MsgAt
	var walk func(f *File, m *Message, d int)
	walk = func(f *File, m *Message, d int) {
		out = append(out, MsgAt{f, m, d})
		for _, n := range m.Messages {
			walk(f, n, d+1)
		}
	}
	for _, f := range s.modelled() {
		for _, m := range f.Messages {
			walk(f, m, 0)
		}
	}
	return out
}

// AllEnums lists all enums.
func (s *Spec) AllEnums() []EnumAt {
	var out []EnumAt
	for _, f := range s.modelled() {
		for _, e := range f.Enums {
			out = append(out, EnumAt{f, e, 0})
		}
	}
	for _, ma := range s.AllMessages() {
		for _, e := range ma.Msg.Enums {
			out = append(out, EnumAt{ma.File, e, ma.Depth + 1})
		}
	}
	return out
}

// AllFields lists all fields including oneof members and extensions.
func (s *Spec) AllFields() []FieldAt {
	var out []FieldAt
	for _, ma := range s.AllMessages() {
		for _, fd := range ma.Msg.Fields {
			out = append(out, FieldAt{File: ma.File, Field: fd, Parent: ma.Msg, Depth: ma.Depth})
		}
		for _, o := range ma.Msg.Oneofs {
			for _, fd := range o.Fields {
				out = append(out, FieldAt{File: ma.File, Field: fd, Parent: ma.Msg, Oneof: o, Depth: ma.Depth})
			}
		}
		for _, x := range ma.Msg.Extends {
			for _, fd := range x.Fields {
				out = append(out, FieldAt{File: ma.File, Field: fd, Parent: ma.Msg, Extend: x, Depth: ma.Depth})
			}
		}
	}
	for _, f := range s.modelled() {
		for _, x := range f.Extends {
			for _, fd := range x.Fields {
				out = append(out, FieldAt{File: f, Field: fd, Extend: x})
			}
		}
	}
	return out
}

// OneofAt is a oneof with context.
type OneofAt struct {
	File  *File
	Oneof *Oneof
	Depth int
}

// AllOneofs lists all oneofs.
func (s *Spec) AllOneofs() []OneofAt {
	var out []OneofAt
	for _, ma := range s.AllMessages() {
		for _, o := range ma.Msg.Oneofs {
			out = append(out, OneofAt{ma.File, o, ma.Depth})
		}
	}
	return out
}

// SvcAt is a service with its file.
type SvcAt struct {
	File *File
	Svc  *Service
}

// AllServices lists all services.
func (s *Spec) AllServices() []SvcAt {
	var out []SvcAt
	for _, f := range s.modelled() {
		for _, sv := range f.Services {
			out = append(out, SvcAt{f, sv})
		}
	}
	return out
}

// MethodAt is a method with context.
type MethodAt struct {
	File   *File
	Svc    *Service
	Method *Method
}

// AllMethods lists all methods.
func (s *Spec) AllMethods() []MethodAt {
	var out []MethodAt
	for _, sa := range s.AllServices() {
		for _, m := range sa.Svc.Methods {
			out = append(out, MethodAt{sa.File, sa.Svc, m})
		}
	}
	return out
}

// FilesOfPackage lists the modelled files with the given package.
func (s *Spec) FilesOfPackage(pkg string) []*File {
	var out []*File
	for _, f := range s.modelled() {
		if f.Package() == pkg {
			out = append(out, f)
		}
	}
	return out
}

// FilesInDir lists the modelled files in a directory.
func (s *Spec) FilesInDir(dir string) []*File {
	var out []*File
	for _, f := range s.modelled() {
		if f.Dir == dir {
			out = append(out, f)
		}
	}
	return out
}
