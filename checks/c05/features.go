package c05

// The editions features dimension (round 5).
//
// In an editions file the same declaration can carry features that change what the descriptor says about
// the element without changing what kind of declaration it is: a message-typed field with delimited
// encoding has the wire type of a proto2 group (protoreflect Kind() == GroupKind) but is an ordinary
// field declaration with its own name, comment and position; a field with implicit presence looks like a
// proto3 field; enums can be closed as in proto2; repeated fields expanded. The lint rules are about the
// declarations, so a member of the family stays clean under every variant, and every planted violation in
// an editions file is reported exactly as without the features.
//
// A variant applies to every editions file of the workspace (the main types file when SyntaxA is
// "editions", the editions leaf file), either as a file-level default (`option features.x = Y;`) or on
// every field the feature may be written on.

// FeatureVariants are the values of Params.Features.
var FeatureVariants = []string{
	"field-delimited",         // [features.message_encoding = DELIMITED] on every message-typed field (not maps)
	"file-delimited",          // option features.message_encoding = DELIMITED;
	"field-implicit-presence", // [features.field_presence = IMPLICIT] on every singular scalar / enum field
	"file-implicit-presence",  // option features.field_presence = IMPLICIT;
	"file-closed-enums",       // option features.enum_type = CLOSED;
	"file-expanded-repeated",  // option features.repeated_field_encoding = EXPANDED;
	"file-utf8-none",          // option features.utf8_validation = NONE;
}

func addFieldOpt(fd *Field, opt string) {
	if fd.Opts == "" {
		fd.Opts = opt
	} else {
		fd.Opts += ", " + opt
	}
}

// closedEnums says whether the enums of file f are closed (ENUM_FIRST_VALUE_ZERO applies to them).
func closedEnums(p Params, f *File) bool {
	return f.Syntax == "proto2" || (f.Syntax == "editions" && p.Features == "file-closed-enums")
}

func applyFeatures(s *Spec, variant string) {
	fileLine := map[string]string{
		"file-delimited":         "features.message_encoding = DELIMITED",
		"file-implicit-presence": "features.field_presence = IMPLICIT",
		"file-closed-enums":      "features.enum_type = CLOSED",
		"file-expanded-repeated": "features.repeated_field_encoding = EXPANDED",
		"file-utf8-none":         "features.utf8_validation = NONE",
	}
	if line, ok := fileLine[variant]; ok {
		for _, f := range s.modelled() {
			if f.Syntax == "editions" {
				f.FeatureLines = append(f.FeatureLines, line)
			}
		}
		return
	}
	for _, fa := range s.AllFields() {
		if fa.File.Syntax != "editions" || fa.Field.Type.MapKey != "" {
			continue
		}
		switch variant {
		case "field-delimited":
			if fa.Field.Type.Msg != nil {
				addFieldOpt(fa.Field, "features.message_encoding = DELIMITED")
			}
		case "field-implicit-presence":
			if fa.Field.Type.Msg == nil && fa.Field.Type.Ext == "" && fa.Field.Label == "" && fa.Oneof == nil && fa.Extend == nil {
				addFieldOpt(fa.Field, "features.field_presence = IMPLICIT")
			}
		default:
			panic("c05: unknown features variant " + variant)
		}
	}
}
