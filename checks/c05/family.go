package c05

import (
	"fmt"
	"strings"
)

// The clean-by-construction family. Every workspace built here follows, by construction, every
// built-in lint rule of every config version (given the lint options returned by Params.Opts()):
//   - files <pkg>/<version>/<lower_snake>.proto with package <pkg>.<version>
//   - PascalCase messages / enums / services / RPCs, lower_snake_case fields and oneofs
//   - enum values UPPER_SNAKE_CASE, prefixed with the enum name in UPPER_SNAKE_CASE, zero value first
//     and suffixed with the configured suffix
//   - services suffixed with the configured suffix, unary RPCs, request/response types named
//     <Rpc>Request/<Rpc>Response (or <Service><Rpc>Request) and used by exactly one RPC
//     (google.protobuf.Empty only when the matching rpc_allow_* option is set)
//   - every import is used, none is public or weak, no package import cycle, stable packages import
//     only stable packages
//   - a non-empty leading comment on every message, field, oneof, enum, enum value, service, RPC
//   - identical language options in all files of a package

// Words is a name given as its words; the PascalCase and UPPER_SNAKE_CASE forms follow from the words
// (buf's case conversion is never consulted).
type Words []string

// Pascal joins the words.
func (w Words) Pascal() string { return strings.Join(w, "") }

// Upper is the UPPER_SNAKE_CASE form.
func (w Words) Upper() string { return strings.ToUpper(strings.Join(w, "_")) }

// Palette is a set of names.
type Palette struct {
	Name string
	// package first components and file bases
	PkgA, PkgB, PkgC, PkgE     string
	FileA, FileB, FileC, FileD string
	FileE                      string
	// messages
	Outer, Mid, Deep, Other, Holder, Inner string
	// enums
	TopEnum, OuterEnum, MidEnum, DeepEnum, BEnum, InnerEnum Words
	// enum value stems (UPPER)
	V1, V2 string
	// fields
	FID, FCount, FTags, FCounts, FKind, FMid, FText, FNumber, FChoice, FDeep, FFlag, FNote, FOuter string
	// service stems and rpc names
	SvcA, SvcB              string
	RpcGet, RpcList, RpcDel string
	RpcPing                 string
	RpcDo, RpcUndo          string
}

// Palettes are the name palettes: plain words, names with digits, names with acronyms.
var Palettes = []Palette{
	{
		Name: "plain",
		PkgA: "pet", PkgB: "store", PkgC: "legacy", PkgE: "modern",
		FileA: "pet", FileB: "pet_service", FileC: "store", FileD: "legacy", FileE: "modern",
		Outer: "Pet", Mid: "Collar", Deep: "NameTag", Other: "Owner", Holder: "Shelf", Inner: "Slot",
		TopEnum: Words{"Pet", "Kind"}, OuterEnum: Words{"Mood"}, MidEnum: Words{"Collar", "Size"}, DeepEnum: Words{"Tag", "Shape"},
		BEnum: Words{"Store", "Kind"}, InnerEnum: Words{"Slot", "State"},
		V1: "FIRST", V2: "SECOND_ONE",
		FID: "id", FCount: "item_count", FTags: "tags", FCounts: "counts", FKind: "kind", FMid: "worn_collar", FText: "text_value",
		FNumber: "number_value", FChoice: "choice", FDeep: "name_tag", FFlag: "flag", FNote: "note", FOuter: "the_pet",
		SvcA: "Pet", SvcB: "Store", RpcGet: "GetPet", RpcList: "ListPets", RpcDel: "DeletePet", RpcPing: "Ping", RpcDo: "OpenStore", RpcUndo: "CloseStore",
	},
	{
		Name: "digits",
		PkgA: "pet2", PkgB: "store_3d", PkgC: "legacy1", PkgE: "modern9",
		FileA: "pet2", FileB: "pet2_service", FileC: "store_3d", FileD: "legacy_1", FileE: "modern9",
		Outer: "Pet2", Mid: "Collar3", Deep: "Tag2Name", Other: "Owner1", Holder: "Shelf42", Inner: "Slot7",
		TopEnum: Words{"Pet", "V2", "Kind"}, OuterEnum: Words{"Mood2"}, MidEnum: Words{"Collar3", "Size"}, DeepEnum: Words{"Tag", "Shape9"},
		BEnum: Words{"Store3", "Kind"}, InnerEnum: Words{"Slot", "State1"},
		V1: "A1", V2: "2D_B",
		FID: "id2", FCount: "item_count_2", FTags: "tags3", FCounts: "counts_1x", FKind: "kind9", FMid: "worn_collar3", FText: "text_value1",
		FNumber: "number_2_value", FChoice: "choice2", FDeep: "tag2_name", FFlag: "flag0", FNote: "note5", FOuter: "the_pet2",
		SvcA: "Pet2", SvcB: "Store3", RpcGet: "GetPet2", RpcList: "ListPets2", RpcDel: "DeletePet2", RpcPing: "Ping2", RpcDo: "OpenStore3", RpcUndo: "CloseStore3",
	},
	{
		Name: "acronyms",
		PkgA: "httpapi", PkgB: "rpcx", PkgC: "oldio", PkgE: "newio",
		FileA: "http_pet", FileB: "http_pet_service", FileC: "rpc_store", FileD: "old_io", FileE: "new_io",
		Outer: "HTTPPet", Mid: "IDCard", Deep: "URLTag", Other: "PetOwnerID", Holder: "RPCShelf", Inner: "IOSlot",
		TopEnum: Words{"HTTP", "Mode"}, OuterEnum: Words{"Pet", "ID"}, MidEnum: Words{"ID", "Card", "Size"}, DeepEnum: Words{"URL", "Shape"},
		BEnum: Words{"RPC", "Kind"}, InnerEnum: Words{"Slot", "IO"},
		V1: "TCP", V2: "UDP_V",
		FID: "id", FCount: "http_count", FTags: "url_tags", FCounts: "io_counts", FKind: "http_mode", FMid: "id_card", FText: "utf_text",
		FNumber: "i_number", FChoice: "io_choice", FDeep: "url_tag", FFlag: "is_ok", FNote: "a_note", FOuter: "http_pet",
		SvcA: "HTTPPet", SvcB: "RPCStore", RpcGet: "GetHTTPPet", RpcList: "ListHTTPPets", RpcDel: "DeleteHTTPPet", RpcPing: "PingIO", RpcDo: "OpenRPCStore", RpcUndo: "CloseRPCStore",
	},
}

// Versions are valid package version suffixes (per the PACKAGE_VERSION_SUFFIX purpose text).
var Versions = []string{"v1", "v2", "v10", "v1beta1", "v1alpha2", "v1p1beta1", "v2p3alpha4", "v1test", "v1testfoo"}

// Stable says whether a version of Versions is stable (v\d+ only).
func Stable(version string) bool {
	for _, c := range version[1:] {
		if c < '0' || c > '9' {
			return false
		}
	}
	return true
}

// LintOpts are the rule options of a lint configuration.
type LintOpts struct {
	ZeroSuffix     string `json:"enum_zero_value_suffix,omitempty"` // "" = default _UNSPECIFIED
	SvcSuffix      string `json:"service_suffix,omitempty"`         // "" = default Service
	AllowSame      bool   `json:"rpc_allow_same_request_response,omitempty"`
	AllowEmptyReq  bool   `json:"rpc_allow_google_protobuf_empty_requests,omitempty"`
	AllowEmptyResp bool   `json:"rpc_allow_google_protobuf_empty_responses,omitempty"`
}

// YAML renders the options as lint: keys (indented by two spaces).
func (o LintOpts) YAML() string {
	var sb strings.Builder
	if o.ZeroSuffix != "" {
		fmt.Fprintf(&sb, "  enum_zero_value_suffix: %s\n", o.ZeroSuffix)
	}
	if o.SvcSuffix != "" {
		fmt.Fprintf(&sb, "  service_suffix: %s\n", o.SvcSuffix)
	}
	if o.AllowSame {
		sb.WriteString("  rpc_allow_same_request_response: true\n")
	}
	if o.AllowEmptyReq {
		sb.WriteString("  rpc_allow_google_protobuf_empty_requests: true\n")
	}
	if o.AllowEmptyResp {
		sb.WriteString("  rpc_allow_google_protobuf_empty_responses: true\n")
	}
	return sb.String()
}

// EffZero is the effective zero value suffix.
func (o LintOpts) EffZero() string {
	if o.ZeroSuffix == "" {
		return "_UNSPECIFIED"
	}
	return o.ZeroSuffix
}

// EffSvc is the effective service suffix.
func (o LintOpts) EffSvc() string {
	if o.SvcSuffix == "" {
		return "Service"
	}
	return o.SvcSuffix
}

// Params select one member of the clean family.
type Params struct {
	Palette  int    `json:"palette"`
	SyntaxA  string `json:"syntax_a"` // syntax of the main types file: proto3 | proto2 | editions
	Doc      string `json:"doc"`      // one of GoodDocs
	FileOpts bool   `json:"file_opts"`
	Version  string `json:"version"`
	Custom   bool   `json:"custom_suffixes"` // zero suffix _NONE and service suffix API (needs the options)
	Empty    int    `json:"empty"`           // bit 0: Empty requests, bit 1: Empty responses (needs rpc_allow_*)
	PrefixRR bool   `json:"service_prefixed_req_resp"`
	Body     bool   `json:"rpc_body"`
	Header   bool   `json:"header"`
	Leaves   bool   `json:"leaves"` // include the proto2 (extensions) and editions leaf files
	// RRPlace says where request / response messages are declared. Bit 0: some of them live in another
	// file of the service's package and in another package (written package-qualified in the rpc); bit 1:
	// some of them are nested in another message (depth 1 and 2). Both bits: additionally one nested in a
	// message of another package and one nested in a message of another file of the same package.
	// 0: all of them are top-level messages of the service's file.
	RRPlace int `json:"req_resp_place,omitempty"`
	// CustomPart restricts Custom to one of the two suffix options: 0 both, 1 only
	// enum_zero_value_suffix, 2 only service_suffix (so that a lint block with exactly one key exists).
	CustomPart int `json:"custom_part,omitempty"`
	// Import usage (usage.go; all three set or none): the workspace additionally has a consumer file whose
	// single import is used by exactly one reference (UseSite: which kind of element refers to the imported
	// type), reached directly or through `import public` statements of import-only dependency files
	// (UseVia); UseSyntax is the syntax of the consumer file.
	UseVia    string `json:"use_via,omitempty"`
	UseSite   string `json:"use_site,omitempty"`
	UseSyntax string `json:"use_syntax,omitempty"`
	// BoolOptFalse (round 5; with FileOpts): the boolean language option of every file is written with its
	// default value (`option java_multiple_files = false;`) instead of true: an option that is present
	// with the value an absent option has.
	BoolOptFalse bool `json:"bool_file_option_false,omitempty"`
	// Features (round 5; one of FeatureVariants or ""): editions features written in every editions file
	// of the workspace (features.go).
	Features string `json:"editions_features,omitempty"`
}

// DefaultParams is the simplest member.
func DefaultParams() Params {
	return Params{SyntaxA: "proto3", Doc: "line", Version: "v1", Leaves: true}
}

// Key is a short stable identifier.
func (p Params) Key() string {
	key := fmt.Sprintf("%s/%s/%s/opts=%v/%s/custom=%v/empty=%d/prr=%v/body=%v/hdr=%v/leaves=%v",
		Palettes[p.Palette].Name, p.SyntaxA, p.Doc, p.FileOpts, p.Version, p.Custom, p.Empty, p.PrefixRR, p.Body, p.Header, p.Leaves)
	if p.RRPlace != 0 {
		key += fmt.Sprintf("/rrplace=%d", p.RRPlace)
	}
	if p.Custom && p.CustomPart != 0 {
		key += fmt.Sprintf("/custompart=%d", p.CustomPart)
	}
	if p.UseSite != "" {
		key += fmt.Sprintf("/use=%s,%s,%s", p.UseVia, p.UseSite, p.UseSyntax)
	}
	if p.BoolOptFalse {
		key += "/boolopt=false"
	}
	if p.Features != "" {
		key += "/features=" + p.Features
	}
	return key
}

// Opts are the lint options under which the member is clean.
func (p Params) Opts() LintOpts {
	o := LintOpts{}
	if p.Custom {
		if p.CustomPart != 2 {
			o.ZeroSuffix = "_NONE"
		}
		if p.CustomPart != 1 {
			o.SvcSuffix = "API"
		}
	}
	o.AllowEmptyReq = p.Empty&1 != 0
	o.AllowEmptyResp = p.Empty&2 != 0
	return o
}

type builder struct {
	p   Params
	pal Palette
	o   LintOpts
}

func (b *builder) enum(w Words, withSecond bool) *Enum {
	e := &Enum{Name: w.Pascal(), Doc: b.p.Doc}
	up := w.Upper()
	e.Values = append(e.Values, &EnumValue{Name: up + b.o.EffZero(), Number: 0, Doc: b.p.Doc})
	e.Values = append(e.Values, &EnumValue{Name: up + "_" + b.pal.V1, Number: 1, Doc: b.p.Doc})
	if withSecond {
		e.Values = append(e.Values, &EnumValue{Name: up + "_" + b.pal.V2, Number: 2, Doc: b.p.Doc})
	}
	return e
}

func (b *builder) field(syntax, name string, t Type, num int, label string) *Field {
	if label == "" && syntax == "proto2" && t.MapKey == "" {
		label = "optional"
	}
	if label == "optional" && syntax == "editions" {
		label = ""
	}
	return &Field{Name: name, Doc: b.p.Doc, Label: label, Type: t, Number: num}
}

func (b *builder) oneofField(name string, t Type, num int) *Field {
	return &Field{Name: name, Doc: b.p.Doc, Type: t, Number: num}
}

func scalar(s string) Type { return Type{Scalar: s} }

func (b *builder) fileOptions(pkgWords string) []*FileOption {
	if !b.p.FileOpts {
		return nil
	}
	return []*FileOption{
		{"go_package", `"example.com/gen/` + pkgWords + `;` + pkgWords + `pb"`},
		{"java_package", `"com.example.` + pkgWords + `"`},
		{"java_multiple_files", fmt.Sprint(!b.p.BoolOptFalse)},
		{"csharp_namespace", `"Example.` + pkgWords + `"`},
		{"php_namespace", `"Example\\` + pkgWords + `"`},
		{"ruby_package", `"Example::` + pkgWords + `"`},
		{"swift_prefix", `"EX"`},
	}
}

var emptyType = Type{Ext: "google.protobuf.Empty"}

const emptyPath = "google/protobuf/empty.proto"

// reqResp creates the request and response messages of an RPC.
func (b *builder) reqResp(svcName, rpc string, payload Type, payloadName string) (*Message, *Message) {
	prefix := ""
	if b.p.PrefixRR {
		prefix = svcName
	}
	req := &Message{Name: prefix + rpc + "Request", Doc: b.p.Doc}
	req.Fields = append(req.Fields, b.field("proto3", b.pal.FID, scalar("string"), 1, ""))
	resp := &Message{Name: prefix + rpc + "Response", Doc: b.p.Doc}
	resp.Fields = append(resp.Fields, b.field("proto3", payloadName, payload, 1, ""))
	return req, resp
}

// Build builds the clean workspace for p.
func Build(p Params) *Spec {
	pal := Palettes[p.Palette]
	b := &builder{p: p, pal: pal, o: p.Opts()}
	ver := p.Version
	sa := p.SyntaxA

	// ---- file A: the main types file -----------------------------------------------------------
	a := &File{Dir: pal.PkgA + "/" + ver, Base: pal.FileA + ".proto", Syntax: sa, Header: p.Header,
		Pkg: &PkgStmt{pal.PkgA + "." + ver}, Options: b.fileOptions(pal.PkgA)}
	top := b.enum(pal.TopEnum, true)
	a.Enums = append(a.Enums, top)
	deepEnum := b.enum(pal.DeepEnum, false)
	deep := &Message{Name: pal.Deep, Doc: p.Doc, Enums: []*Enum{deepEnum}}
	deep.Fields = append(deep.Fields,
		b.field(sa, pal.FKind, Type{Enum: deepEnum}, 1, ""),
		b.field(sa, pal.FFlag, scalar("bool"), 2, ""))
	midEnum := b.enum(pal.MidEnum, true)
	mid := &Message{Name: pal.Mid, Doc: p.Doc, Messages: []*Message{deep}, Enums: []*Enum{midEnum}}
	mid.Fields = append(mid.Fields,
		b.field(sa, pal.FKind, Type{Enum: midEnum}, 1, ""),
		b.field(sa, pal.FDeep, Type{Msg: deep}, 2, ""))
	mid.Oneofs = append(mid.Oneofs, &Oneof{Name: pal.FChoice, Doc: p.Doc, Fields: []*Field{
		b.oneofField(pal.FFlag, scalar("bool"), 3),
	}})
	outerEnum := b.enum(pal.OuterEnum, false)
	outer := &Message{Name: pal.Outer, Doc: p.Doc, Messages: []*Message{mid}, Enums: []*Enum{outerEnum}}
	outer.Fields = append(outer.Fields,
		b.field(sa, pal.FID, scalar("string"), 1, ""),
		b.field(sa, pal.FCount, scalar("int32"), 2, ""),
		b.field(sa, pal.FTags, scalar("string"), 3, "repeated"),
		b.field(sa, pal.FCounts, Type{MapKey: "string", MapVal: &Type{Scalar: "int32"}}, 4, ""),
		b.field(sa, pal.FKind, Type{Enum: top}, 5, ""),
		b.field(sa, pal.FMid, Type{Msg: mid}, 6, ""),
		b.field(sa, pal.FNote, Type{Enum: outerEnum}, 9, ""))
	outer.Oneofs = append(outer.Oneofs, &Oneof{Name: pal.FChoice, Doc: p.Doc, Fields: []*Field{
		b.oneofField(pal.FText, scalar("string"), 7),
		b.oneofField(pal.FNumber, scalar("int64"), 8),
	}})
	other := &Message{Name: pal.Other, Doc: p.Doc}
	other.Fields = append(other.Fields,
		b.field(sa, pal.FDeep, Type{Msg: deep}, 1, ""),
		b.field(sa, pal.FOuter, Type{Msg: outer}, 2, ""),
		// proto3 optional: a synthetic oneof "_<name>" exists in the descriptor
		b.field(sa, pal.FNote, scalar("string"), 3, "optional"),
		b.field(sa, pal.FCounts, Type{MapKey: "int64", MapVal: &Type{Msg: mid}}, 4, ""))
	a.Messages = append(a.Messages, outer, other)

	// ---- file B: service of package A (second file of the same package and directory) ----------
	fb := &File{Dir: a.Dir, Base: pal.FileB + ".proto", Syntax: "proto3", Header: p.Header,
		Pkg: &PkgStmt{a.Pkg.Name}, Options: b.fileOptions(pal.PkgA)}
	fb.Imports = append(fb.Imports, &Import{Target: a})
	svcA := &Service{Name: pal.SvcA + b.o.EffSvc(), Doc: p.Doc}
	getReq, getResp := b.reqResp(svcA.Name, pal.RpcGet, Type{Msg: outer}, pal.FOuter)
	listReq, listResp := b.reqResp(svcA.Name, pal.RpcList, Type{Msg: other}, pal.FOuter)
	delReq, delResp := b.reqResp(svcA.Name, pal.RpcDel, Type{Msg: deep}, pal.FDeep)
	mGet := &Method{Name: pal.RpcGet, Doc: p.Doc, Req: Type{Msg: getReq}, Resp: Type{Msg: getResp}, Body: p.Body}
	mList := &Method{Name: pal.RpcList, Doc: p.Doc, Req: Type{Msg: listReq}, Resp: Type{Msg: listResp}}
	mDel := &Method{Name: pal.RpcDel, Doc: p.Doc, Req: Type{Msg: delReq}, Resp: Type{Msg: delResp}, Body: p.Body}
	svcA.Methods = append(svcA.Methods, mGet, mList, mDel)
	fb.Messages = append(fb.Messages, getReq, getResp, listReq, listResp, delReq, delResp)
	fb.Services = append(fb.Services, svcA)

	// ---- file C: second package ------------------------------------------------------------------
	fc := &File{Dir: pal.PkgB + "/" + ver, Base: pal.FileC + ".proto", Syntax: "proto3", Header: p.Header,
		Pkg: &PkgStmt{pal.PkgB + "." + ver}, Options: b.fileOptions(pal.PkgB)}
	fc.Imports = append(fc.Imports, &Import{Target: a})
	bEnum := b.enum(pal.BEnum, true)
	fc.Enums = append(fc.Enums, bEnum)
	innerEnum := b.enum(pal.InnerEnum, false)
	inner := &Message{Name: pal.Inner, Doc: p.Doc, Enums: []*Enum{innerEnum}}
	inner.Fields = append(inner.Fields,
		b.field("proto3", pal.FKind, Type{Enum: innerEnum}, 1, ""),
		b.field("proto3", pal.FOuter, Type{Msg: mid}, 2, ""))
	// nested declarations first, then fields incl. a map (its synthetic entry message follows Slot)
	holder := &Message{Name: pal.Holder, Doc: p.Doc, Messages: []*Message{inner}, NestedFirst: true}
	holder.Fields = append(holder.Fields,
		b.field("proto3", pal.FCounts, Type{MapKey: "string", MapVal: &Type{Msg: inner}}, 6, ""),
		b.field("proto3", pal.FOuter, Type{Msg: outer}, 1, ""),
		b.field("proto3", pal.FKind, Type{Enum: bEnum}, 2, ""),
		b.field("proto3", pal.FMid, Type{Msg: inner}, 3, "repeated"))
	holder.Oneofs = append(holder.Oneofs, &Oneof{Name: pal.FChoice, Doc: p.Doc, Fields: []*Field{
		b.oneofField(pal.FText, scalar("bytes"), 4),
		b.oneofField(pal.FDeep, Type{Msg: deep}, 5),
	}})
	svcB := &Service{Name: pal.SvcB + b.o.EffSvc(), Doc: p.Doc}
	doReq, doResp := b.reqResp(svcB.Name, pal.RpcDo, Type{Msg: holder}, pal.FMid)
	undoReq, undoResp := b.reqResp(svcB.Name, pal.RpcUndo, Type{Msg: inner}, pal.FMid)
	mDo := &Method{Name: pal.RpcDo, Doc: p.Doc, Req: Type{Msg: doReq}, Resp: Type{Msg: doResp}}
	mUndo := &Method{Name: pal.RpcUndo, Doc: p.Doc, Req: Type{Msg: undoReq}, Resp: Type{Msg: undoResp}, Body: p.Body}
	svcB.Methods = append(svcB.Methods, mDo, mUndo)
	fc.Messages = append(fc.Messages, holder, doReq, doResp, undoReq, undoResp)
	fc.Services = append(fc.Services, svcB)

	// ---- google.protobuf.Empty usage (clean only with the rpc_allow_* options) -----------------
	if p.Empty != 0 {
		fb.Imports = append(fb.Imports, &Import{Path: emptyPath})
		fc.Imports = append(fc.Imports, &Import{Path: emptyPath})
	}
	drop := func(f *File, ms ...*Message) {
		var keep []*Message
		for _, m := range f.Messages {
			dropIt := false
			for _, d := range ms {
				if m == d {
					dropIt = true
				}
			}
			if !dropIt {
				keep = append(keep, m)
			}
		}
		f.Messages = keep
	}
	if p.Empty&1 != 0 {
		// two RPCs (in two packages) take Empty
		mList.Req = emptyType
		mDo.Req = emptyType
		drop(fb, listReq)
		drop(fc, doReq)
	}
	if p.Empty&2 != 0 {
		mDel.Resp = emptyType
		mUndo.Resp = emptyType
		drop(fb, delResp)
		drop(fc, undoResp)
	}
	if p.Empty == 3 {
		svcA.Methods = append(svcA.Methods, &Method{Name: pal.RpcPing, Doc: p.Doc, Req: emptyType, Resp: emptyType})
	}

	// ---- where the request / response messages are declared (RRPlace) ----------------------------
	// A request / response type need not be a top-level message of the service's own file: the rules
	// about its name are about the message's own (short) name wherever it is declared.
	if p.RRPlace != 0 {
		inUse := func(m *Message) bool {
			for _, sv := range []*Service{svcA, svcB} {
				for _, mt := range sv.Methods {
					if mt.Req.Msg == m || mt.Resp.Msg == m {
						return true
					}
				}
			}
			return false
		}
		// move re-homes a message that is still used by an RPC (Empty may have replaced it)
		move := func(m *Message, from, toFile *File, toMsg *Message) {
			if !inUse(m) {
				return
			}
			drop(from, m)
			if toFile == a {
				// file A has its own syntax: proto2 needs explicit labels
				for _, fd := range m.Fields {
					if sa == "proto2" && fd.Label == "" && fd.Type.MapKey == "" {
						fd.Label = "optional"
					}
				}
			}
			if toMsg != nil {
				toMsg.Messages = append(toMsg.Messages, m)
			} else {
				toFile.Messages = append(toFile.Messages, m)
			}
		}
		if p.RRPlace&1 != 0 {
			// service B (package B) takes / returns messages declared in package A (file A is imported by
			// file C anyway); their payload must then come from file A as well
			undoResp.Fields[0].Type = Type{Msg: mid}
			if p.RRPlace&2 != 0 {
				move(undoReq, fc, a, other) // nested in a message of another package
			} else {
				move(undoReq, fc, a, nil)
			}
			move(undoResp, fc, a, nil)
			// service A (file B) takes a message declared in the other file of its package
			move(delReq, fb, a, nil)
			if p.RRPlace&2 != 0 {
				move(getReq, fb, a, other) // nested in a message of the other file of the package
			}
		}
		if p.RRPlace&2 != 0 {
			env := &Message{Name: pal.SvcA + "Envelope", Doc: p.Doc}
			move(listReq, fb, fb, env)
			move(listResp, fb, fb, env)
			if len(env.Messages) > 0 {
				fb.Messages = append(fb.Messages, env)
			}
			move(doReq, fc, fc, inner)   // depth 2: Holder.Inner.<Rpc>Request
			move(doResp, fc, fc, holder) // depth 1, after the declared nested message
		}
	}

	s := &Spec{Files: []*File{a, fb, fc}}

	// ---- leaf files: proto2 with extensions, editions -------------------------------------------
	if p.Leaves {
		fd := &File{Dir: pal.PkgC + "/" + ver, Base: pal.FileD + ".proto", Syntax: "proto2", Header: p.Header,
			Pkg: &PkgStmt{pal.PkgC + "." + ver}, Options: b.fileOptions(pal.PkgC)}
		legacyEnum := b.enum(Words{"Legacy", "Kind"}, true)
		fd.Enums = append(fd.Enums, legacyEnum)
		legacy := &Message{Name: "Legacy" + pal.Outer, Doc: p.Doc, ExtRange: "100 to 199"}
		legacy.Fields = append(legacy.Fields,
			b.field("proto2", pal.FID, scalar("string"), 1, ""),
			b.field("proto2", pal.FKind, Type{Enum: legacyEnum}, 2, ""),
			b.field("proto2", pal.FTags, scalar("int32"), 3, "repeated"))
		scopeInner := &Message{Name: "Scope" + pal.Inner, Doc: p.Doc}
		scopeInner.Extends = append(scopeInner.Extends, &Extend{Target: Type{Msg: legacy}, Fields: []*Field{
			b.field("proto2", "inner_"+pal.FFlag, scalar("bool"), 102, ""),
		}})
		scope := &Message{Name: "Scope" + pal.Holder, Doc: p.Doc, Messages: []*Message{scopeInner}}
		scope.Fields = append(scope.Fields, b.field("proto2", pal.FOuter, Type{Msg: legacy}, 1, ""))
		scope.Extends = append(scope.Extends, &Extend{Target: Type{Msg: legacy}, Fields: []*Field{
			b.field("proto2", "scope_"+pal.FText, scalar("string"), 101, ""),
		}})
		fd.Messages = append(fd.Messages, legacy, scope)
		fd.Extends = append(fd.Extends, &Extend{Target: Type{Msg: legacy}, Fields: []*Field{
			b.field("proto2", "top_"+pal.FCount, scalar("int32"), 100, ""),
			b.field("proto2", "top_"+pal.FTags, scalar("string"), 103, "repeated"),
		}})
		// a second extend block of the same scope: extension indexes continue across blocks
		fd.Extends = append(fd.Extends, &Extend{Target: Type{Msg: legacy}, Fields: []*Field{
			b.field("proto2", "more_"+pal.FNote, scalar("bytes"), 104, ""),
		}})

		fe := &File{Dir: pal.PkgE + "/" + ver, Base: pal.FileE + ".proto", Syntax: "editions", Header: p.Header,
			Pkg: &PkgStmt{pal.PkgE + "." + ver}, Options: b.fileOptions(pal.PkgE)}
		fe.Imports = append(fe.Imports, &Import{Target: fd})
		modernEnum := b.enum(Words{"Modern", "Kind"}, false)
		fe.Enums = append(fe.Enums, modernEnum)
		modern := &Message{Name: "Modern" + pal.Outer, Doc: p.Doc}
		modern.Fields = append(modern.Fields,
			b.field("editions", pal.FID, scalar("string"), 1, ""),
			b.field("editions", pal.FKind, Type{Enum: modernEnum}, 2, ""),
			b.field("editions", pal.FOuter, Type{Msg: legacy}, 3, ""),
			b.field("editions", pal.FTags, scalar("fixed64"), 4, "repeated"))
		fe.Messages = append(fe.Messages, modern)
		s.Files = append(s.Files, fd, fe)
	}
	// ---- consumer file + import-only dependency files (import usage dimension) -------------------
	if p.UseSite != "" {
		addUsage(s, b, false)
	}
	// ---- editions features (features.go) ----------------------------------------------------------
	if p.Features != "" {
		applyFeatures(s, p.Features)
	}
	return s
}
