// Package c05 is the check for property C05 (see DESIGN.md section 3).
package c05
