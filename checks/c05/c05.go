// Package c05: lint reports exactly the style violations that are present.
//
// Bounded-exhaustive exploration of the real lint engine (bufcheck.Client.Lint over images built by
// buf from in-memory workspaces):
//
//   - a clean-by-construction family of workspaces (family.go), rendered from Go structs with the
//     line/column of every token known (spec.go), must produce zero annotations under every category,
//     every single rule and all rules together, in every config version;
//   - a catalogue of planting operators (plants.go), at least one per built-in lint rule, is applied
//     at every applicable element (top level, nested 1 and 2, oneof members, extensions, second file,
//     second package, proto2 / proto3 / editions files); for every configuration the annotations must be
//     exactly: the planted rule (if selected) at the planted element's own token, plus the operator's
//     declared, justified collateral -- nothing else.
//
// The oracle never calls buf's case conversion, version parsing or location code: expected rule IDs
// are data next to each operator, expected positions come from our own renderer.
package c05

import (
	"context"
	"fmt"
	"os"
	"runtime/debug"
	"sort"
	"strings"
	"sync"
	"time"

	"buf.build/go/bufplugin/check"
	"github.com/bufbuild/buf/private/bufpkg/bufconfig"
	"github.com/bufbuild/buf/private/bufpkg/bufimage"
	"github.com/bufbuild/bufverif/internal/bufx"
	"github.com/bufbuild/bufverif/internal/evid"
)

func init() {
	evid.Register(&evid.Check{ID: "C05", Level: "exploration", Run: run, QuickBudget: 300 * time.Second, ThoroughBudget: 20 * time.Minute})
}

// ---- rule tables (read from the real client: which rules and categories exist per version) ----------

// RuleTable is what Client.AllRules says about one config version.
type RuleTable struct {
	Version    string
	FileVer    bufconfig.FileVersion
	Rules      map[string][]string // non-deprecated rule ID -> non-deprecated categories
	Categories map[string][]string // category -> rule IDs
	AllIDs     []string
	Defaults   []string // rules that run when the configuration has no `use` key (Rule.Default())
}

var versions = []struct {
	name string
	fv   bufconfig.FileVersion
}{
	{"v1beta1", bufconfig.FileVersionV1Beta1},
	{"v1", bufconfig.FileVersionV1},
	{"v2", bufconfig.FileVersionV2},
}

func loadRuleTables(ctx context.Context) ([]*RuleTable, error) {
	client, err := bufx.CheckClient()
	if err != nil {
		return nil, err
	}
	var out []*RuleTable
	for _, v := range versions {
		rules, err := client.AllRules(ctx, check.RuleTypeLint, v.fv)
		if err != nil {
			return nil, err
		}
		t := &RuleTable{Version: v.name, FileVer: v.fv, Rules: map[string][]string{}, Categories: map[string][]string{}}
		for _, r := range rules {
			if r.Deprecated() {
				continue
			}
			t.Rules[r.ID()] = []string{}
			if r.Default() {
				t.Defaults = append(t.Defaults, r.ID())
			}
			for _, c := range r.Categories() {
				if c.Deprecated() {
					continue
				}
				t.Rules[r.ID()] = append(t.Rules[r.ID()], c.ID())
				t.Categories[c.ID()] = append(t.Categories[c.ID()], r.ID())
			}
		}
		t.AllIDs = bufx.SortedKeys(t.Rules)
		sort.Strings(t.Defaults)
		for c := range t.Categories {
			sort.Strings(t.Categories[c])
		}
		out = append(out, t)
	}
	return out, nil
}

// Config is one lint configuration.
type Config struct {
	Table *RuleTable
	// Use is `<what>[+PV][@<layout>]`.
	//   what:   a category, a rule ID, "ALL" (every rule ID listed under use:), or "NOUSE" (no use: key at
	//           all: the lint block consists of the rule options only, the default rules run);
	//           the suffix "+PV" keeps PROTOVALIDATE (see pvRule)
	//   layout: where the lint block is written in buf.yaml: "" top-level `lint:`; "module" (v2) the lint
	//           block of an explicit `modules: [{path: .}]` entry; "module-over-top" (v2) the same plus a
	//           top-level `lint:` block that sets the same keys to other values (the module's block wins)
	Use    string
	Active map[string]bool // rules selected
	Opts   LintOpts
	lint   bufconfig.LintConfig
	yaml   string
}

func (c *Config) String() string { return c.Table.Version + "/" + c.Use }

// pvRule is excluded (through `except`) from the bulk configurations: it costs ~100x any other rule
// (a CEL environment per field) and is silent on schemas without protovalidate options. Configurations
// named "<X>+PV" keep it; they are run on a declared subset of the cases. NOUSE configurations keep it
// too where it is a default rule (an `except:` key would defeat their purpose).
const pvRule = "PROTOVALIDATE"

const (
	layoutModule        = "module"
	layoutModuleOverTop = "module-over-top"
	noUse               = "NOUSE"
)

// errNoSuchConfig: the requested layout does not exist for these keys (nothing to contradict).
var errNoSuchConfig = fmt.Errorf("c05: configuration shape does not exist")

var configCache sync.Map

func indentLines(text, indent string) string {
	if text == "" {
		return ""
	}
	lines := strings.Split(strings.TrimSuffix(text, "\n"), "\n")
	return indent + strings.Join(lines, "\n"+indent) + "\n"
}

func newConfig(t *RuleTable, use string, opts LintOpts) (*Config, error) {
	key := fmt.Sprintf("%s|%s|%+v", t.Version, use, opts)
	if c, ok := configCache.Load(key); ok {
		if c.(*Config) == nil {
			return nil, errNoSuchConfig
		}
		return c.(*Config), nil
	}
	c := &Config{Table: t, Use: use, Active: map[string]bool{}, Opts: opts}
	what, layout := use, ""
	if i := strings.Index(use, "@"); i >= 0 {
		what, layout = use[:i], use[i+1:]
	}
	if layout != "" && t.Version != "v2" {
		return nil, fmt.Errorf("layout %q needs a v2 buf.yaml", layout)
	}
	base := strings.TrimSuffix(what, "+PV")
	withPV := base != what || base == pvRule || base == noUse
	var useIDs []string
	switch {
	case base == "ALL":
		useIDs = t.AllIDs
	case base == noUse:
		for _, id := range t.Defaults {
			c.Active[id] = true
		}
	default:
		useIDs = []string{base}
	}
	for _, id := range useIDs {
		if id == "DEFAULT" {
			id = "STANDARD" // DEFAULT is the deprecated name of STANDARD
		}
		if ids, ok := t.Categories[id]; ok {
			for _, r := range ids {
				c.Active[r] = true
			}
		} else if _, ok := t.Rules[id]; ok {
			c.Active[id] = true
		} else {
			return nil, fmt.Errorf("unknown rule or category %q in %s", id, t.Version)
		}
	}
	// the lint block (keys indented by two spaces)
	var block strings.Builder
	if len(useIDs) > 0 {
		block.WriteString("  use:\n")
		for _, id := range useIDs {
			block.WriteString("    - " + id + "\n")
		}
	}
	if c.Active[pvRule] && !withPV {
		delete(c.Active, pvRule)
		block.WriteString("  except:\n    - " + pvRule + "\n")
	}
	block.WriteString(opts.YAML())
	var sb strings.Builder
	sb.WriteString("version: " + t.Version + "\n")
	switch layout {
	case "":
		if block.Len() > 0 {
			sb.WriteString("lint:\n" + block.String())
		}
	case layoutModule, layoutModuleOverTop:
		sb.WriteString("modules:\n  - path: .\n")
		if block.Len() == 0 {
			// a module entry without lint block is the same configuration as no lint block at all
			configCache.Store(key, (*Config)(nil))
			return nil, errNoSuchConfig
		}
		sb.WriteString("    lint:\n" + indentLines(block.String(), "    "))
		if layout == layoutModuleOverTop {
			// the same keys with other values; boolean options cannot be contradicted (false = unset)
			var top strings.Builder
			if len(useIDs) > 0 {
				other := "MINIMAL"
				if base == other {
					other = "COMMENTS"
				}
				top.WriteString("  use:\n    - " + other + "\n")
			}
			if opts.ZeroSuffix != "" {
				top.WriteString("  enum_zero_value_suffix: _OTHERWISE\n")
			}
			if opts.SvcSuffix != "" {
				top.WriteString("  service_suffix: Otherwise\n")
			}
			if top.Len() == 0 {
				configCache.Store(key, (*Config)(nil))
				return nil, errNoSuchConfig
			}
			sb.WriteString("lint:\n" + top.String())
		}
	default:
		return nil, fmt.Errorf("unknown layout %q", layout)
	}
	f, err := bufx.ReadBufYAML(sb.String())
	if err != nil {
		return nil, fmt.Errorf("buf.yaml %q: %w", sb.String(), err)
	}
	mcs := f.ModuleConfigs()
	if len(mcs) != 1 {
		return nil, fmt.Errorf("expected one module config, got %d", len(mcs))
	}
	c.lint = mcs[0].LintConfig()
	c.yaml = sb.String()
	configCache.Store(key, c)
	return c, nil
}

// mainCategories are the categories the property statement is about.
var mainCategories = []string{"MINIMAL", "BASIC", "DEFAULT", "STANDARD", "COMMENTS", "UNARY_RPC"}

// ---- one case -----------------------------------------------------------------------------------------

// CaseInfo is written into samples and violations.
type CaseInfo struct {
	Base     string            `json:"base"`
	Op       string            `json:"op,omitempty"`
	Rule     string            `json:"planted_rule,omitempty"`
	Site     string            `json:"site,omitempty"`
	Config   string            `json:"config,omitempty"`
	Entry    string            `json:"entry,omitempty"` // how the image reached the linter (entry.go); empty = source
	Opts     LintOpts          `json:"lint_options"`
	Expected []string          `json:"expected,omitempty"`
	Got      []bufx.Annotation `json:"got,omitempty"`
	Files    map[string]string `json:"files,omitempty"`
	Note     string            `json:"note,omitempty"`
	useVia   string
	useSite  string
}

func buildImage(ctx context.Context, rd *Rendered) (bufimage.Image, error) {
	image, err := bufx.BuildImage(ctx, rd.Files)
	if err != nil {
		return nil, err
	}
	if len(rd.ImportOnly) > 0 {
		var paths []string
		for p := range rd.Files {
			if !rd.ImportOnly[p] {
				paths = append(paths, p)
			}
		}
		sort.Strings(paths)
		return bufimage.ImageWithOnlyPaths(image, paths, nil)
	}
	return image, nil
}

func elemKindName(elem any) string {
	switch elem.(type) {
	case *File:
		return "file"
	case *PkgStmt:
		return "package"
	case *Import:
		return "import"
	case *FileOption:
		return "file-option"
	case *AliasOpt:
		return "allow-alias-option"
	case *Enum:
		return "enum"
	case *EnumValue:
		return "enum-value"
	case *Message:
		return "message"
	case *Field:
		return "field"
	case *Oneof:
		return "oneof"
	case *Service:
		return "service"
	case *Method:
		return "rpc"
	case *Extend:
		return "extend"
	}
	return fmt.Sprintf("%T", elem)
}

// describePos names the token an annotation points at ("field.name", ...), or "no-token".
func describePos(rd *Rendered, a bufx.Annotation) string {
	var hits []string
	for elem, an := range rd.Anchors {
		if an.File != a.Path {
			continue
		}
		for kind, p := range an.At {
			if kind == "file" {
				continue
			}
			if p.Line == a.StartLine && p.Col == a.StartCol {
				hits = append(hits, elemKindName(elem)+"."+kind)
			}
		}
	}
	if len(hits) == 0 {
		if isFileLevel(a) {
			return "file"
		}
		return "no-token"
	}
	sort.Strings(hits)
	return hits[0]
}

// isFileLevel: an annotation without position information. buf presents those as the empty span
// 1:1-1:1 (any real token has end > start).
func isFileLevel(a bufx.Annotation) bool {
	return a.StartLine == a.EndLine && a.StartCol == a.EndCol && (a.StartLine == 1 && a.StartCol == 1 || a.StartLine == 0 && a.StartCol == 0)
}

func matches(rd *Rendered, e Expect, a bufx.Annotation) bool {
	if a.Type != e.Rule {
		return false
	}
	an := rd.Anchors[e.Elem]
	if an == nil {
		panic(fmt.Sprintf("c05: expectation on unrendered element %s (%s)", elemKindName(e.Elem), e.Rule))
	}
	if a.Path != an.File {
		return false
	}
	if e.Kind == "file" {
		return isFileLevel(a)
	}
	p, ok := an.At[e.Kind]
	if !ok {
		panic(fmt.Sprintf("c05: element %s has no anchor %q", elemKindName(e.Elem), e.Kind))
	}
	return a.StartLine == p.Line && a.StartCol == p.Col
}

func describeExpect(rd *Rendered, e Expect) string {
	an := rd.Anchors[e.Elem]
	req := ""
	if !e.Required {
		req = " (optional)"
	}
	if e.Kind == "file" {
		return fmt.Sprintf("%s @ %s (file level)%s", e.Rule, an.File, req)
	}
	p := an.At[e.Kind]
	return fmt.Sprintf("%s @ %s:%d:%d (%s.%s)%s", e.Rule, an.File, p.Line, p.Col, elemKindName(e.Elem), e.Kind, req)
}

// problem is one oracle failure.
type problem struct {
	sig, what string
}

// judge compares annotations with expectations under a configuration.
// opLabel is "clean" or the operator name.
func judge(rd *Rendered, expects []Expect, cfg *Config, anns []bufx.Annotation, opLabel string) (problems []problem, fired map[string]int) {
	fired = map[string]int{}
	used := make([]bool, len(expects))
	for _, a := range anns {
		found := false
		ruleExpected := false
		for i, e := range expects {
			if !cfg.Active[e.Rule] {
				continue
			}
			if e.Rule == a.Type {
				ruleExpected = true
			}
			if matches(rd, e, a) {
				used[i] = true
				found = true
			}
		}
		if found {
			continue
		}
		where := describePos(rd, a)
		onPlanted := false
		for _, e := range expects {
			if an := rd.Anchors[e.Elem]; an != nil && an.File == a.Path {
				for _, p := range an.At {
					if p.Line == a.StartLine && p.Col == a.StartCol {
						onPlanted = true
					}
				}
			}
		}
		switch {
		case !cfg.Active[a.Type]:
			problems = append(problems, problem{
				fmt.Sprintf("unselected-rule/%s", a.Type),
				fmt.Sprintf("annotation of rule %s although the configuration %s does not select it: %s:%d:%d %s", a.Type, cfg, a.Path, a.StartLine, a.StartCol, a.Message)})
		case ruleExpected:
			// the planted rule (or declared collateral) is reported, but not at the expected token
			problems = append(problems, problem{
				fmt.Sprintf("misplaced/%s/reported-at-%s", a.Type, where),
				fmt.Sprintf("%s reported at %s:%d:%d (%s), which is not the expected token of a planted element (operator %s): %s", a.Type, a.Path, a.StartLine, a.StartCol, where, opLabel, a.Message)})
		case opLabel == "clean" || !onPlanted:
			// an element that follows the rule by construction is reported (same signature for clean
			// workspaces and for untouched elements of planted ones: it is the same defect)
			problems = append(problems, problem{
				fmt.Sprintf("spurious/%s/%s", a.Type, where),
				fmt.Sprintf("element that follows the rule by construction got %s at %s:%d:%d (%s) [%s]: %s", a.Type, a.Path, a.StartLine, a.StartCol, where, opLabel, a.Message)})
		default:
			problems = append(problems, problem{
				fmt.Sprintf("unrelated/%s/%s", a.Type, opLabel),
				fmt.Sprintf("annotation of unrelated rule %s on the planted element at %s:%d:%d (%s) after planting with %s: %s", a.Type, a.Path, a.StartLine, a.StartCol, where, opLabel, a.Message)})
		}
	}
	for i, e := range expects {
		if !cfg.Active[e.Rule] {
			continue
		}
		if used[i] {
			fired[e.Rule]++
			continue
		}
		if e.Required {
			problems = append(problems, problem{
				fmt.Sprintf("missing/%s/%s/%s.%s", e.Rule, opLabel, elemKindName(e.Elem), e.Kind),
				fmt.Sprintf("expected annotation not reported: %s", describeExpect(rd, e))})
		}
	}
	return problems, fired
}

// ---- the run ------------------------------------------------------------------------------------------

type stats struct {
	mu                           sync.Mutex
	firedByRule                  map[string]int // rule -> expectations met (rule selected)
	primaryByRule                map[string]int // rule -> plant evaluations where it was the planted, selected rule
	opsByRule                    map[string]map[string]bool
	sitesByRule                  map[string]map[string]bool
	cleanEvals                   int
	plantSelected                int // evaluations where the planted rule was selected
	plantSilent                  int // evaluations where the planted rule was not selected ("nothing for unrelated rules")
	collateral                   int // met expectations of a rule other than the planted one
	buildFailures                int
	cliCases, cliWithAnnotations int
	shapeEvals                   map[string]int // "<layout>/<use key or not>/<number of option keys>" -> evaluations
	entryEvals                   map[string]int // "<entry>/<clean|planted>" -> evaluations
	entryFired                   map[string]int // "<entry>/<rule>" -> expectations met
	usageEvals                   map[string]int // "<entry>/<via>" and "<entry>/site/<site>" -> evaluations of members with a consumer file
	cliCells                     map[string]int // "<input>/<config delivery>/<config>" -> CLI runs
	cliDefaultSensitive          map[string]int // "<input>/<config>" -> CLI runs whose planted rule is not a default rule of every version
}

// countShape records the shape of the buf.yaml a case was linted with.
func (rn *runner) countShape(cfg *Config) {
	what, layout := cfg.Use, "top"
	if i := strings.Index(what, "@"); i >= 0 {
		what, layout = what[:i], what[i+1:]
	}
	keys := "use"
	if what == noUse {
		keys = "no-use"
	}
	optYAML := cfg.Opts.YAML()
	n := fmt.Sprint(strings.Count(optYAML, "\n"))
	if n == "1" {
		n = strings.TrimSpace(strings.SplitN(optYAML, ":", 2)[0]) // the only key
	}
	rn.st.mu.Lock()
	rn.st.shapeEvals[fmt.Sprintf("%s/%s/%s/option-keys=%s", cfg.Table.Version, layout, keys, n)]++
	rn.st.mu.Unlock()
}

func newStats() *stats {
	return &stats{firedByRule: map[string]int{}, primaryByRule: map[string]int{}, opsByRule: map[string]map[string]bool{}, sitesByRule: map[string]map[string]bool{}, shapeEvals: map[string]int{},
		entryEvals: map[string]int{}, entryFired: map[string]int{}, usageEvals: map[string]int{}, cliCells: map[string]int{}, cliDefaultSensitive: map[string]int{}}
}

// Menu levels.
const (
	menuFull   = 0 // all rules, each main category (thorough: every category), the planted rule alone; 3 versions
	menuMedium = 1 // all rules and the planted rule alone; 3 versions
	menuLite   = 2 // all rules in v2 and v1beta1; the planted rule alone in v2
)

// usesFor lists the `use` values under which a case is linted in config version t.
//
// pv adds configurations that keep PROTOVALIDATE: 0 none; 1: v2 ALL+PV; 2: ALL+PV and the rule alone;
// 3: ALL+PV, STANDARD+PV and the rule alone; 4: ALL+PV and (v2) STANDARD+PV.
//
// shapes adds the configuration shapes other than "top-level lint block with a use key" (see Config.Use):
// 0 none; 1: the block without a use key in every version and (v2) as a module's lint block, with and
// without use key; 2: additionally (v2) the module-over-top layouts and the rule alone in a module's block.
func (t *RuleTable) usesFor(rule string, quick bool, menu int, pv int, shapes int) []string {
	var uses []string
	if shapes >= 1 {
		uses = append(uses, noUse)
		if t.Version == "v2" {
			uses = append(uses, noUse+"@"+layoutModule, "ALL@"+layoutModule)
			if shapes >= 2 {
				uses = append(uses, noUse+"@"+layoutModuleOverTop, "ALL@"+layoutModuleOverTop)
				if _, ok := t.Rules[rule]; ok && rule != pvRule {
					uses = append(uses, rule+"@"+layoutModule)
				}
			}
		}
	}
	if menu != menuLite || t.Version != "v1" {
		uses = append(uses, "ALL")
	}
	if menu == menuFull {
		var cats []string
		for _, c := range mainCategories {
			if _, ok := t.Categories[c]; ok || (c == "DEFAULT" && !quick) {
				cats = append(cats, c)
			}
		}
		if !quick {
			var rest []string
			for c := range t.Categories {
				isMain := false
				for _, m := range mainCategories {
					if c == m {
						isMain = true
					}
				}
				if !isMain {
					rest = append(rest, c)
				}
			}
			sort.Strings(rest)
			cats = append(cats, rest...)
		}
		uses = append(uses, cats...)
	}
	if rule != "" && rule != pvRule && (menu != menuLite || t.Version == "v2") {
		if _, ok := t.Rules[rule]; ok {
			uses = append(uses, rule)
		}
	}
	if _, ok := t.Rules[pvRule]; ok && pv > 0 {
		if pv >= 2 || t.Version == "v2" {
			uses = append(uses, "ALL+PV")
		}
		if pv == 2 || pv == 3 {
			uses = append(uses, pvRule)
		}
		if pv == 3 || (pv == 4 && t.Version == "v2") {
			uses = append(uses, "STANDARD+PV")
		}
	}
	return uses
}

func expectStrings(rd *Rendered, ex []Expect) []string {
	var out []string
	for _, e := range ex {
		out = append(out, describeExpect(rd, e))
	}
	return out
}

type runner struct {
	r      *evid.Run
	ctx    context.Context
	tables []*RuleTable
	st     *stats
}

func (rn *runner) lintAndJudge(info CaseInfo, rd *Rendered, image bufimage.Image, expects []Expect, cfg *Config, opLabel string, entry string) map[string]int {
	expects = expectsUnder(entry, expects)
	anns, err := bufx.Lint(rn.ctx, cfg.lint, image)
	rn.r.Eval(1)
	if err != nil {
		rn.r.Incomplete(fmt.Sprintf("lint returned a non-annotation error for %s %s %s (%s): %v", info.Base, opLabel, cfg, entry, err))
		return nil
	}
	problems, fired := judge(rd, expects, cfg, anns, opLabel)
	kind := "planted"
	if opLabel == "clean" {
		kind = "clean"
	}
	rn.st.mu.Lock()
	rn.st.entryEvals[entry+"/"+kind]++
	for rule, n := range fired {
		rn.st.entryFired[entry+"/"+rule] += n
	}
	if info.useVia != "" {
		rn.st.usageEvals[entry+"/"+info.useVia]++
		rn.st.usageEvals[entry+"/site/"+info.useSite]++
	}
	rn.st.mu.Unlock()
	for _, p := range problems {
		ci := info
		ci.Config = cfg.String()
		ci.Entry = entry
		ci.Opts = cfg.Opts
		ci.Expected = expectStrings(rd, expects)
		ci.Got = anns
		ci.Files = rd.Files
		rn.r.Violate(p.sig, p.what, ci)
	}
	return fired
}

// descriptorUses lists the `use` values of config version t for the "descriptors" entry (entry.go).
// level 1: all rules in v2; level 2: the menu of the source entry (without the PROTOVALIDATE-including
// configurations and the configuration shapes, which are about the configuration, not about the image).
func (rn *runner) descriptorUses(t *RuleTable, rule string, menu, level int) []string {
	switch level {
	case 1:
		if t.Version == "v2" {
			return []string{"ALL"}
		}
	case 2:
		return t.usesFor(rule, rn.r.Quick(), menu, 0, 0)
	}
	return nil
}

// descriptorImage builds the image of the "descriptors" entry (nil: harness problem, reported).
func (rn *runner) descriptorImage(image bufimage.Image, what string) bufimage.Image {
	out, err := viaDescriptors(image)
	if err != nil {
		rn.r.Incomplete(fmt.Sprintf("cannot rebuild the image from descriptors (harness): %s: %v", what, oneLine(err.Error())))
		return nil
	}
	return out
}

// runClean lints one clean workspace under every configuration. rule / menu select the menu of usesFor
// (rule "": no single rule); entries is the level of descriptorUses.
func (rn *runner) runClean(p Params, rule string, menu int, singleRules bool, pv int, shapes int, entries int) {
	spec := Build(p)
	rd := spec.Render()
	info := CaseInfo{Base: p.Key(), useVia: p.UseVia, useSite: p.UseSite}
	image, err := buildImage(rn.ctx, rd)
	if err != nil {
		rn.r.Incomplete(fmt.Sprintf("clean workspace %s does not build: %v", p.Key(), oneLine(err.Error())))
		rn.st.mu.Lock()
		rn.st.buildFailures++
		rn.st.mu.Unlock()
		return
	}
	var descImage bufimage.Image
	if entries > 0 {
		descImage = rn.descriptorImage(image, "clean "+p.Key())
	}
	n := 0
	for _, t := range rn.tables {
		uses := t.usesFor(rule, rn.r.Quick(), menu, pv, shapes)
		if singleRules {
			for _, id := range t.AllIDs {
				if id != pvRule {
					uses = append(uses, id)
				}
			}
		}
		for _, use := range uses {
			cfg, err := newConfig(t, use, p.Opts())
			if err == errNoSuchConfig {
				continue
			}
			if err != nil {
				rn.r.Incomplete(err.Error())
				continue
			}
			rn.lintAndJudge(info, rd, image, nil, cfg, "clean", entrySource)
			rn.countShape(cfg)
			n++
		}
		if descImage != nil {
			for _, use := range rn.descriptorUses(t, rule, menu, entries) {
				cfg, err := newConfig(t, use, p.Opts())
				if err != nil {
					rn.r.Incomplete(err.Error())
					continue
				}
				rn.lintAndJudge(info, rd, descImage, nil, cfg, "clean", entryDescriptors)
				n++
			}
		}
	}
	rn.r.Distinct(workspaceKey(rd, p.Opts()))
	rn.st.mu.Lock()
	rn.st.cleanEvals += n
	rn.st.mu.Unlock()
}

// runPlant applies one plant to a fresh clean workspace and lints it under every configuration.
func (rn *runner) runPlant(p Params, pl Plant, idx int, menu int, pv int, shapes int, entries int) {
	spec := Build(p)
	expects := pl.Apply(spec)
	rd := spec.Render()
	opts := p.Opts()
	if pl.Opts != nil {
		opts = *pl.Opts
	}
	info := CaseInfo{Base: p.Key(), Op: pl.Op, Rule: pl.Rule, Site: pl.Site, Opts: opts, useVia: p.UseVia, useSite: p.UseSite}
	image, err := buildImage(rn.ctx, rd)
	if err != nil {
		ci := info
		ci.Files = rd.Files
		ci.Note = err.Error()
		rn.r.Incomplete(fmt.Sprintf("planted workspace does not build (harness): base=%s op=%s site=%s: %v", p.Key(), pl.Op, pl.Site, oneLine(err.Error())))
		rn.st.mu.Lock()
		rn.st.buildFailures++
		rn.st.mu.Unlock()
		return
	}
	var descImage bufimage.Image
	if entries > 0 {
		descImage = rn.descriptorImage(image, "base="+p.Key()+" op="+pl.Op+" site="+pl.Site)
	}
	type evalItem struct {
		use, entry string
		image      bufimage.Image
	}
	for _, t := range rn.tables {
		var items []evalItem
		for _, use := range t.usesFor(pl.Rule, rn.r.Quick(), menu, pv, shapes) {
			items = append(items, evalItem{use, entrySource, image})
		}
		if descImage != nil {
			for _, use := range rn.descriptorUses(t, pl.Rule, menu, entries) {
				items = append(items, evalItem{use, entryDescriptors, descImage})
			}
		}
		for _, it := range items {
			cfg, err := newConfig(t, it.use, opts)
			if err == errNoSuchConfig {
				continue
			}
			if err != nil {
				rn.r.Incomplete(err.Error())
				continue
			}
			fired := rn.lintAndJudge(info, rd, it.image, expects, cfg, pl.Op, it.entry)
			if it.entry == entrySource {
				rn.countShape(cfg)
			}
			selected := cfg.Active[pl.Rule] && !(it.entry == entryDescriptors && rulesBlindUnderDescriptors[pl.Rule])
			rn.st.mu.Lock()
			if selected {
				rn.st.plantSelected++
				rn.st.primaryByRule[pl.Rule]++
				if rn.st.opsByRule[pl.Rule] == nil {
					rn.st.opsByRule[pl.Rule] = map[string]bool{}
					rn.st.sitesByRule[pl.Rule] = map[string]bool{}
				}
				rn.st.opsByRule[pl.Rule][pl.Op] = true
				rn.st.sitesByRule[pl.Rule][pl.Site] = true
			} else {
				rn.st.plantSilent++
			}
			for rule, n := range fired {
				rn.st.firedByRule[rule] += n
				if rule != pl.Rule {
					rn.st.collateral += n
				}
			}
			rn.st.mu.Unlock()
		}
	}
	rn.r.Distinct(workspaceKey(rd, opts))
	rn.r.SampleEvery(idx, 1499, func() any {
		ci := info
		ci.Expected = expectStrings(rd, expects)
		return ci
	})
}

// workspaceKey identifies a case by what is linted: the workspace text and the rule options.
func workspaceKey(rd *Rendered, opts LintOpts) string {
	var sb strings.Builder
	for _, path := range bufx.SortedKeys(rd.Files) {
		if rd.ImportOnly[path] {
			continue
		}
		sb.WriteString(path + "\x00" + rd.Files[path] + "\x00")
	}
	fmt.Fprintf(&sb, "%+v", opts)
	return sb.String()
}

func oneLine(s string) string {
	s = strings.ReplaceAll(s, "\n", " | ")
	if len(s) > 300 {
		s = s[:300] + "..."
	}
	return s
}

// cleanFamily lists the members of the clean family to lint.
func cleanFamily(quick bool) []Params {
	var out []Params
	seen := map[string]bool{}
	add := func(p Params) {
		if !seen[p.Key()] {
			seen[p.Key()] = true
			out = append(out, p)
		}
	}
	syntaxes := []string{"proto3", "proto2", "editions"}
	if quick {
		// palette x syntax x doc style, all else default; then every other dimension varied on its own
		// and all together
		for pi := range Palettes {
			for _, sy := range syntaxes {
				for _, doc := range GoodDocs {
					p := DefaultParams()
					p.Palette, p.SyntaxA, p.Doc = pi, sy, doc
					add(p)
				}
			}
		}
		for pi := range Palettes {
			for _, ver := range Versions {
				p := DefaultParams()
				p.Palette, p.Version = pi, ver
				add(p)
			}
			for empty := 0; empty < 4; empty++ {
				for _, custom := range []bool{false, true} {
					for _, prr := range []bool{false, true} {
						p := DefaultParams()
						p.Palette, p.Empty, p.Custom, p.PrefixRR = pi, empty, custom, prr
						p.FileOpts, p.Body, p.Header = custom, prr, empty%2 == 1
						add(p)
					}
				}
			}
			// where request / response messages are declared: other file / other package / nested
			for rr := 1; rr <= 3; rr++ {
				for _, v := range []struct {
					empty      int
					prr, extra bool
				}{{0, false, false}, {0, true, true}, {3, false, true}, {1, true, false}} {
					p := DefaultParams()
					p.Palette, p.RRPlace, p.Empty, p.PrefixRR = pi, rr, v.empty, v.prr
					p.Custom, p.FileOpts, p.Body = v.extra, v.extra, v.extra
					add(p)
				}
			}
			// a single custom suffix option
			for part := 1; part <= 2; part++ {
				p := DefaultParams()
				p.Palette, p.Custom, p.CustomPart = pi, true, part
				add(p)
			}
		}
		for _, sy := range syntaxes[1:] {
			for rr := 1; rr <= 3; rr++ {
				p := DefaultParams()
				p.SyntaxA, p.RRPlace = sy, rr
				add(p)
			}
		}
		// round 5: editions features (features.go) and the boolean file option written with its default value
		for pi := range Palettes {
			for _, fv := range FeatureVariants {
				p := DefaultParams()
				p.Palette, p.SyntaxA, p.Features = pi, "editions", fv
				add(p)
			}
			p := DefaultParams()
			p.Palette, p.FileOpts, p.BoolOptFalse = pi, true, true
			add(p)
		}
		return out
	}
	for pi := range Palettes {
		for _, sy := range syntaxes {
			for _, doc := range GoodDocs {
				for empty := 0; empty < 4; empty++ {
					for _, custom := range []bool{false, true} {
						for _, prr := range []bool{false, true} {
							for _, fo := range []bool{false, true} {
								p := DefaultParams()
								p.Palette, p.SyntaxA, p.Doc, p.Empty, p.Custom, p.PrefixRR, p.FileOpts = pi, sy, doc, empty, custom, prr, fo
								p.Body, p.Header = fo != prr, fo == custom
								add(p)
							}
						}
					}
				}
			}
			for _, ver := range Versions {
				for _, leaves := range []bool{true, false} {
					p := DefaultParams()
					p.Palette, p.SyntaxA, p.Version, p.Leaves = pi, sy, ver, leaves
					add(p)
				}
			}
			// where request / response messages are declared x everything their names depend on
			for rr := 1; rr <= 3; rr++ {
				for empty := 0; empty < 4; empty++ {
					for _, custom := range []bool{false, true} {
						for _, prr := range []bool{false, true} {
							p := DefaultParams()
							p.Palette, p.SyntaxA, p.RRPlace, p.Empty, p.Custom, p.PrefixRR = pi, sy, rr, empty, custom, prr
							p.FileOpts, p.Body, p.Header = custom != prr, prr, custom
							add(p)
						}
					}
				}
			}
			// a single custom suffix option
			for part := 1; part <= 2; part++ {
				for empty := 0; empty < 4; empty++ {
					p := DefaultParams()
					p.Palette, p.SyntaxA, p.Custom, p.CustomPart, p.Empty = pi, sy, true, part, empty
					add(p)
				}
			}
		}
		// round 5: editions features x comment style x where the editions files are (main types file and
		// leaf / leaf only) x request / response placement (moves messages into the editions file); the
		// boolean file option written with its default value x syntax
		for _, fv := range FeatureVariants {
			for _, doc := range GoodDocs {
				for _, sy := range []string{"editions", "proto2"} {
					p := DefaultParams()
					p.Palette, p.SyntaxA, p.Doc, p.Features = pi, sy, doc, fv
					add(p)
				}
			}
			for rr := 1; rr <= 3; rr++ {
				p := DefaultParams()
				p.Palette, p.SyntaxA, p.Features, p.RRPlace, p.FileOpts = pi, "editions", fv, rr, true
				add(p)
			}
		}
		for _, sy := range syntaxes {
			for _, custom := range []bool{false, true} {
				p := DefaultParams()
				p.Palette, p.SyntaxA, p.FileOpts, p.BoolOptFalse, p.Custom = pi, sy, true, true, custom
				add(p)
			}
		}
	}
	return out
}

// plantBases lists the family members on which the whole catalogue is applied.
func plantBases(quick bool) []Params {
	mk := func(pal int, sy, doc, ver string, fo, custom bool, empty int, prr, body, hdr bool) Params {
		return Params{Palette: pal, SyntaxA: sy, Doc: doc, Version: ver, FileOpts: fo, Custom: custom, Empty: empty, PrefixRR: prr, Body: body, Header: hdr, Leaves: true}
	}
	bases := []Params{
		mk(0, "proto3", "line", "v1", true, false, 0, false, false, false),
		mk(1, "proto2", "block", "v2", true, true, 3, true, true, true),
		mk(2, "editions", "multi", "v1beta1", false, false, 1, false, true, false),
	}
	// where request / response messages are declared: base 0 keeps the common layout
	bases[1].RRPlace, bases[2].RRPlace = 3, 1
	if !quick {
		bases = append(bases,
			mk(0, "proto2", "docblock", "v1p1beta1", true, true, 2, true, false, true),
			mk(1, "editions", "leadblank", "v1", true, false, 0, true, true, false),
			mk(2, "proto3", "line", "v10", true, true, 0, false, false, true),
			mk(0, "editions", "block", "v1test", false, true, 3, false, true, true),
			mk(2, "proto2", "line", "v2", true, false, 2, true, false, false),
		)
		bases[3].RRPlace, bases[4].RRPlace, bases[5].RRPlace, bases[6].RRPlace = 2, 1, 3, 2
		bases[5].CustomPart, bases[6].CustomPart = 2, 1
	}
	return bases
}

func run(r *evid.Run) {
	ctx := context.Background()
	// thousands of small compilations: a small live heap and a lot of garbage; the default GC target spends
	// about a quarter of the CPU time in the collector
	defer debug.SetGCPercent(debug.SetGCPercent(400))
	r.Rule("clean part: every member of a parameterised clean-by-construction workspace family (name palette x syntax x comment style x package version x rule-option-dependent shapes x where request/response messages are declared: service's file / other file / other package / nested depth 1-2) x every config version x every category / single rule / all rules; " +
		"planted part: every (operator, site) of the planting catalogue (>=1 operator per built-in lint rule; sites = every message/enum/field/oneof/enum value/service/RPC/import/package/file of the workspace incl. nested depth 1-2, oneof members, extensions, 2nd file, 2nd package, proto2/proto3/editions files) on each plant base x config version x {all rules, each category, the planted rule alone}; " +
		"configuration shape: for the first two clean members of every distinct rule-option set, the first instance of every operator and every rule-option plant, the lint block is also written without use key (default rules; incl. every rule option as the only key) and (v2) as the lint block of an explicit module entry, alone or over a contradicting top-level block. " +
		"import usage: via (the one import names the declaring file / an umbrella file that re-exports it as 1st, 2nd, 3rd `import public` / two levels of `import public`) x reference site (field at depth 0 and 2, map value, oneof member, rpc request / response, extendee top-level / nested, extension type, custom option on file / message / field) x consumer syntax, clean and with an unused import planted (beside the used one, first / last; an umbrella leading to unused files; the reference removed); " +
		"entry: how the image reaches the linter: built from source, or rebuilt from plain descriptors as protoc-gen-buf-lint does (every clean member, every import-usage case, the first instance of every operator on every base and every instance of the import / syntax operators); " +
		"CLI binding: input (directory / image written by `buf build -o`) x configuration delivery (--config data / --config file / buf.yaml in the directory) x {all rules v2, v1; no use key in v2, v1, v1beta1} for the clean workspace and every planted rule that is a default rule of some versions only. " +
		"editions features: every editions file under 7 feature variants (delimited message encoding per field / by file default, implicit presence per field / by file default, closed enums, expanded repeated fields, no UTF-8 validation), clean and with every operator at every site of the editions files planted; " +
		"boolean file option: present with the value an absent option has (java_multiple_files = false) in the rest of the package x one file with the other value / without the option; " +
		"module size: modules of 8p-1 .. 9p+1 and 16p+1 small files (one planted violation per file, six kinds incl. a cross-file one; every file a package of its own / packages of three files) under process-wide parallelism p in {2, 3} and the machine's own, i.e. around the switch of bufprotosource.NewFiles to parallel chunks and for every remainder. " +
		"A distinct non-trivial case is one clean family member or one (base, operator, site) triple; every one of them is a different workspace text.")
	r.Assume("expected rule IDs and collateral sets are data next to each operator, reviewed against the rules' Purpose strings; which token of the offending element is annotated is fixed per rule (name token for naming rules, declaration start for comment/streaming/uniqueness/package/import/option rules, type token for request/response naming, number token for ENUM_FIRST_VALUE_ZERO)")
	r.Assume("rule and category membership per config version, and which rules run without a use key (Rule.Default), are read from Client.AllRules (rule selection itself is property C06)")
	r.Assume("v2: a module entry's non-empty lint block is that module's lint configuration; the module-over-top layout only gives other values to keys the module's block sets itself, so no merge semantics are assumed; one module per workspace")
	r.Assume("the descriptors entry replays the two bufimage calls of protoc-gen-buf-lint's handler (the handler is unexported) on the CodeGeneratorRequest buf itself would send, after a wire round trip without extension knowledge; plain descriptors do not say whether a syntax statement was present, so SYNTAX_SPECIFIED is not expected under that entry")
	r.Assume("CLI binding: a buf.yaml without lint key means the default rules of its own version (Rule.Default of Client.AllRules) whatever the input form; module-level lint blocks are not combined with image inputs; the buf.yaml of the process working directory (image input without --config) is not exercised")
	r.Assume("editions features are written as `option features.x = Y;` at file level or `[features.x = Y]` on a field; they do not change which declaration an element is, so the expectations are those of the same workspace without features (plus ENUM_FIRST_VALUE_ZERO plants for closed editions enums)")
	r.Assume("files use spaces only (no tabs), ASCII identifiers, LF line ends; comment-ignore directives and ignore paths are out of scope (C06); custom plugins are out of scope")

	tables, err := loadRuleTables(ctx)
	if err != nil {
		r.Incomplete("cannot load rule tables: " + err.Error())
		return
	}
	rn := &runner{r: r, ctx: ctx, tables: tables, st: newStats()}
	// VERIF_C05_PHASES=1 prints the wall time of every phase on stderr (development aid, not evidence)
	phaseStart := time.Now()
	phase := func(name string) {
		if os.Getenv("VERIF_C05_PHASES") != "" {
			fmt.Fprintf(os.Stderr, "c05 phase %s: %.1fs\n", name, time.Since(phaseStart).Seconds())
		}
		phaseStart = time.Now()
	}

	// ---- clean part
	family := cleanFamily(r.Quick())
	// configuration shapes (no use key, module-level lint block, ...): what they exercise depends on the
	// set of rule options only, so the first two members of every distinct option set get them
	cleanShapes := make([]int, len(family))
	seenOpts := map[LintOpts]int{}
	for i, p := range family {
		if seenOpts[p.Opts()] < 2 {
			cleanShapes[i] = 2
		}
		seenOpts[p.Opts()]++
	}
	r.Set("clean_family_distinct_option_sets", len(seenOpts))
	r.ParallelFor(len(family), 0, func(i int) {
		// every single rule on its own: every 7th member (quick) / every 4th member (thorough);
		// PROTOVALIDATE-including configurations: every 12th / every 10th member
		single, pv := i%4 == 0, 0
		if r.Quick() {
			single = i%7 == 0
			if i%12 == 0 {
				pv = 3
			}
		} else if i%10 == 0 {
			pv = 3
		}
		// every member is also linted the way protoc-gen-buf-lint sees it (entry.go), with all rules in v2
		rn.runClean(family[i], "", menuFull, single, pv, cleanShapes[i], 1)
	})
	r.Set("clean_family_members", len(family))

	// ---- import usage dimension (usage.go): via x reference site x consumer syntax, both entries with the
	// same menu: {all rules, IMPORT_USED alone} x 3 versions for clean members; the lite menu (quick) / the
	// same menu (thorough) for the plants
	usage := usageFamily(r.Quick())
	r.ParallelFor(len(usage), 0, func(i int) {
		rn.runClean(usage[i], "IMPORT_USED", menuMedium, false, 0, 0, 2)
	})
	var usageJobs []plantJob
	usageOps := map[string]bool{}
	for _, p := range usage {
		for _, pl := range usagePlants(p) {
			usageJobs = append(usageJobs, plantJob{p, pl})
			usageOps[pl.Op] = true
		}
	}
	usageMenu := menuMedium
	if r.Quick() {
		usageMenu = menuLite
	}
	r.ParallelFor(len(usageJobs), 0, func(i int) {
		rn.runPlant(usageJobs[i].p, usageJobs[i].pl, i, usageMenu, 0, 0, 2)
	})
	r.Set("import_usage_members", len(usage))
	r.Set("import_usage_plant_instances", len(usageJobs))
	r.Set("import_usage_vias", len(UsageVias))
	r.Set("import_usage_sites", len(UsageSites))

	// ---- planted part
	var jobs []plantJob
	bases := plantBases(r.Quick())
	opSet := map[string]bool{}
	classCount := map[string]int{}
	for bi, b := range bases {
		for _, pl := range Plants(b) {
			if r.Quick() && bi > 0 && strings.HasPrefix(pl.Op, "comment-") && !strings.HasSuffix(pl.Op, "/none") && !strings.HasSuffix(pl.Op, "/detached") {
				continue // quick: the other comment shapes are planted on the first base only
			}
			if r.Quick() && pl.ThoroughOnly {
				continue // quick: the smaller bound of the operator's enumerated dimension
			}
			jobs = append(jobs, plantJob{b, pl})
			opSet[pl.Op] = true
			if pl.Class != "" {
				classCount[pl.Class]++
			}
		}
		if bi < 3 {
			seenSite := map[string]bool{}
			for _, j := range protovalidateJobs(b) {
				// quick: first base only, one instance per (operator, nesting depth / oneof);
				// thorough: three bases, one instance per (operator, site role incl. file and scalar type)
				role := j.pl.Op + "|" + j.pl.Site
				if r.Quick() {
					role = j.pl.Op + "|" + strings.SplitN(j.pl.Site, ":", 2)[0] + strings.SplitN(j.pl.Site, "/", 3)[1]
				}
				if (r.Quick() && bi > 0) || seenSite[role] {
					continue
				}
				seenSite[role] = true
				jobs = append(jobs, j)
				opSet[j.pl.Op] = true
			}
		}
	}
	// Editions features (round 5, features.go): every editions plant base under every feature variant; the
	// operators at the sites of its editions files (the features change nothing in other files).
	featureJobs := map[string]int{}
	editionsBases := 0
	for _, b := range bases {
		if b.SyntaxA != "editions" {
			continue
		}
		editionsBases++
		for _, fv := range FeatureVariants {
			fb := b
			fb.Features = fv
			for _, pl := range Plants(fb) {
				if !strings.Contains(pl.Site, ":editions") || pl.ThoroughOnly && r.Quick() {
					continue
				}
				// the comment shapes other than none / detached: thorough, first editions base only
				if (r.Quick() || editionsBases > 1) && strings.HasPrefix(pl.Op, "comment-") && !strings.HasSuffix(pl.Op, "/none") && !strings.HasSuffix(pl.Op, "/detached") {
					continue
				}
				jobs = append(jobs, plantJob{fb, pl})
				featureJobs[fv]++
			}
		}
	}
	r.Set("plant_instances_per_editions_feature_variant", featureJobs)
	for _, fv := range FeatureVariants {
		if featureJobs[fv] == 0 {
			r.Incomplete("no planted workspace with the editions feature variant " + fv)
		}
	}
	// Configuration menus (the configuration dimension does not depend on the site, so the full menu is
	// spent on one instance per operator): the first instance of every operator on the first base
	// (thorough: on every base) gets the full menu; every other instance the lite (quick) / medium
	// (thorough) menu.
	// PROTOVALIDATE-including configurations: PROTOVALIDATE plants (level 2 quick / 3 thorough); thorough:
	// the first instance of every operator on the first base (level 4); the first instance of every planted
	// rule on each base (level 1).
	// Configuration shapes: level 2 with the full menu; level 1 for every plant that is about a rule
	// option (it brings its own option set).
	pv := make([]int, len(jobs))
	menu := make([]int, len(jobs))
	shapes := make([]int, len(jobs))
	// The "descriptors" entry (all rules in v2): what differs from the source entry is what buf derives from
	// the descriptors instead of taking it from the compiler (unused imports, import-ness of files, syntax
	// statement), so quick spends it on the first instance of every operator on every base and on every
	// instance of the operators about imports and the syntax statement; thorough on every instance.
	entries := make([]int, len(jobs))
	seenOp, seenRule := map[string]bool{}, map[string]bool{}
	for i, j := range jobs {
		first := j.p.Key() == bases[0].Key()
		opKey := j.pl.Op + "|" + j.p.Key()
		firstOfOp := !seenOp[opKey]
		seenOp[opKey] = true
		ruleKey := j.pl.Rule + "|" + j.p.Key()
		firstOfRule := !seenRule[ruleKey]
		seenRule[ruleKey] = true
		switch {
		case firstOfOp && (first || !r.Quick()):
			menu[i] = menuFull
		case r.Quick():
			menu[i] = menuLite
		default:
			menu[i] = menuMedium
		}
		switch {
		case j.pl.Heavy && r.Quick():
			pv[i], menu[i] = 2, menuLite
		case j.pl.Heavy:
			pv[i] = 3
		case firstOfOp && first && !r.Quick():
			pv[i] = 4
		case firstOfRule && j.p.Features == "":
			pv[i] = 1
		}
		switch {
		case j.pl.Heavy:
		case menu[i] == menuFull:
			shapes[i] = 2
		case j.pl.Opts != nil && !j.pl.Bulk:
			shapes[i] = 1
		}
		op := j.pl.Op
		aboutImage := strings.HasPrefix(op, "import-") || strings.HasPrefix(op, "package-import-cycle") || strings.HasPrefix(op, "package-unstable") || op == "file-syntax-dropped"
		if !j.pl.Heavy && (firstOfOp || aboutImage || !r.Quick()) {
			entries[i] = 1
		}
	}
	phase("clean+usage")
	r.ParallelFor(len(jobs), 0, func(i int) {
		rn.runPlant(jobs[i].p, jobs[i].pl, i, menu[i], pv[i], shapes[i], entries[i])
	})
	phase("plants")

	// ---- CLI binding
	rn.cliPart(bases[0], Plants(bases[0]), bases[1])
	phase("cli")

	// ---- module size: many files under several values of the process-wide parallelism (serial phase)
	rn.manyFilesPart()
	phase("many-files")

	// ---- coverage facts and vacuity guards
	st := rn.st
	r.Set("cli_cases", st.cliCases)
	r.Set("cli_cases_with_annotations", st.cliWithAnnotations)
	if st.cliWithAnnotations == 0 {
		r.Incomplete("the CLI binding never saw an annotation")
	}
	// which version's default rules are in effect: every input form must have been linted without `use` key
	// in every version with a planted rule that is a default rule of some versions only
	for _, input := range []string{cliInputDir, cliInputImage} {
		for _, v := range versions {
			if st.cliDefaultSensitive[input+"/"+v.name+"/"+noUse] == 0 {
				r.Incomplete("CLI binding: no version-sensitive planted rule was linted with the default rules of " + v.name + " on a " + input + " input")
			}
		}
	}
	r.Set("plant_bases", len(bases))
	r.Set("plant_instances", len(jobs))
	for op := range usageOps {
		opSet[op] = true
	}
	r.Set("operators", len(opSet))
	r.Set("clean_evaluations", st.cleanEvals)
	r.Set("planted_evaluations_rule_selected", st.plantSelected)
	r.Set("planted_evaluations_rule_not_selected", st.plantSilent)
	r.Set("collateral_expectations_met", st.collateral)
	r.Set("workspaces_not_building", st.buildFailures)
	r.Set("evaluations_per_config_shape", st.shapeEvals)
	r.Set("evaluations_per_entry", st.entryEvals)
	r.Set("import_usage_evaluations", st.usageEvals)
	r.Set("cli_runs_per_cell", st.cliCells)
	r.Set("cli_runs_default_sensitive_rule", st.cliDefaultSensitive)
	// entry dimension: both entries must have linted clean and planted workspaces, an unused import must have
	// been found from plain descriptors, and every via / reference site must have been linted under both
	for _, entry := range []string{entrySource, entryDescriptors} {
		for _, kind := range []string{"clean", "planted"} {
			if st.entryEvals[entry+"/"+kind] == 0 {
				r.Incomplete("entry never exercised: " + entry + "/" + kind)
			}
		}
		if st.entryFired[entry+"/IMPORT_USED"] == 0 {
			r.Incomplete("no planted unused import was found under entry " + entry)
		}
		for _, via := range UsageVias {
			if st.usageEvals[entry+"/"+via.Name] == 0 {
				r.Incomplete("import usage never linted: " + entry + " via " + via.Name)
			}
		}
		for _, site := range UsageSites {
			if st.usageEvals[entry+"/site/"+site.Name] == 0 {
				r.Incomplete("import usage never linted: " + entry + " reference site " + site.Name)
			}
		}
	}
	r.Set("expectations_met_per_entry_and_rule", st.entryFired)
	// google.protobuf.Empty shared by several RPCs under exactly one allowance: 0, 1 and >= 2 usages that
	// the allowance does not cover must all have been planted (1 is the boundary of "more than one RPC")
	r.Set("plant_instances_per_class", classCount)
	for _, class := range []string{"empty-shared/one-allowance/uncovered-usages=0", "empty-shared/one-allowance/uncovered-usages=1", "empty-shared/one-allowance/uncovered-usages=2+"} {
		if classCount[class] == 0 {
			r.Incomplete("no planted workspace of class " + class)
		}
	}
	// every rule option must have been the only key of a lint block, in every layout it can be
	for _, key := range []string{"enum_zero_value_suffix", "service_suffix", "rpc_allow_same_request_response", "rpc_allow_google_protobuf_empty_requests", "rpc_allow_google_protobuf_empty_responses"} {
		shapesOfKey := []string{"v2/module/no-use", "v2/module/use", "v2/top/no-use", "v1/top/no-use", "v1beta1/top/no-use"}
		if strings.HasSuffix(key, "_suffix") {
			shapesOfKey = append(shapesOfKey, "v2/module-over-top/no-use")
		}
		for _, shape := range shapesOfKey {
			if st.shapeEvals[shape+"/option-keys="+key] == 0 {
				r.Incomplete("configuration shape never exercised: " + shape + " with " + key + " as the only option")
			}
		}
	}
	// editions features: a missing comment must have been planted on a delimited message field (per field
	// and by file default), a first non-zero value in a closed editions enum, a required field under
	// implicit presence
	for _, need := range [][2]string{{"COMMENT_FIELD", "delimited-"}, {"FIELD_LOWER_SNAKE_CASE", "delimited-"}, {"ENUM_FIRST_VALUE_ZERO", ":editions"}} {
		found := false
		for site := range st.sitesByRule[need[0]] {
			if strings.Contains(site, need[1]) {
				found = true
			}
		}
		if !found {
			r.Incomplete("editions features: no planted " + need[0] + " evaluation at a site matching " + need[1])
		}
	}
	perRule := map[string]any{}
	allRules := map[string]bool{}
	for _, t := range tables {
		for id := range t.Rules {
			allRules[id] = true
		}
	}
	for id := range allRules {
		perRule[id] = map[string]int{
			"evaluations_selected": st.primaryByRule[id],
			"expectations_met":     st.firedByRule[id],
			"operators":            len(st.opsByRule[id]),
			"site_roles":           len(st.sitesByRule[id]),
		}
		if st.primaryByRule[id] == 0 {
			r.Incomplete("no planted evaluation for built-in lint rule " + id)
		}
	}
	r.Set("per_rule", perRule)
	r.Set("builtin_lint_rules", len(allRules))
	vs := map[string]int{}
	for _, t := range tables {
		vs[t.Version] = len(t.Rules)
	}
	r.Set("rules_per_version", vs)
	if st.cleanEvals == 0 || st.plantSelected == 0 || st.plantSilent == 0 {
		r.Incomplete("a clause of the property was never exercised")
	}
}

// jobs for PROTOVALIDATE are built in protovalidate.go
type plantJob = struct {
	p  Params
	pl Plant
}
