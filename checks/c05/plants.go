package c05

import (
	"fmt"
	"strings"
)

// Expect is one expected annotation: rule ID at one of the element's own tokens.
//
// Kind names the token the rule is about (reviewed against each rule's Purpose text):
//   - "name"   for rules about a name (case, prefix, suffix, descriptor, required-ness of a named field)
//   - "decl"   for rules about the declaration as a whole (missing comment, streaming RPC, reused
//     request/response type, package statement, import statement, option statement)
//   - "req"/"resp" for rules about an RPC's request / response type name
//   - "number" for the rule about the numeric value of the first enum value
//   - "file"   for rules about the file as a whole (no line/column)
//
// Required=false marks declared collateral that may or may not be reported.
type Expect struct {
	Rule     string
	Elem     any
	Kind     string
	Required bool
}

// Plant is one planting operator instance (operator x site).
type Plant struct {
	Op    string    // operator name (stable)
	Rule  string    // the rule whose violation is planted
	Site  string    // structural role of the site, e.g. "message/depth1/file0"
	Opts  *LintOpts // overrides the lint options (nil: the options under which the base is clean)
	Heavy bool      // always lint with the PROTOVALIDATE-including configurations
	// ThoroughOnly: the instance is left out of the quick tier (a larger bound of an enumerated dimension).
	ThoroughOnly bool
	// Bulk: one of many instances that bring the same few option sets; the configuration shapes (which
	// depend on the option set only, and cost a PROTOVALIDATE evaluation each in v2) are spent on the first
	// instance of the operator instead of on every instance.
	Bulk bool
	// Class is an optional coverage label: the run counts the instances per label (vacuity guards).
	Class string
	Apply func(s *Spec) []Expect
}

func must(rule string, elem any, kind string) Expect { return Expect{rule, elem, kind, true} }

// ---- bad-name constructors (all results are valid protobuf identifiers) ---------------------------

func lowerFirst(s string) string { return strings.ToLower(s[:1]) + s[1:] }
func upperFirst(s string) string { return strings.ToUpper(s[:1]) + s[1:] }

type variant struct{ kind, name string }

// underscoreAtBoundary inserts an underscore before the first upper-case letter that follows a
// lower-case letter or digit (a word boundary), or appends one if there is no such place. The words of
// the name, and therefore its PascalCase form without the underscore, stay the same.
func underscoreAtBoundary(name string) string {
	for i := 1; i < len(name); i++ {
		c, prev := name[i], name[i-1]
		if c >= 'A' && c <= 'Z' && (prev >= 'a' && prev <= 'z' || prev >= '0' && prev <= '9') {
			return name[:i] + "_" + name[i:]
		}
	}
	return name + "_"
}

// upperLastLetter upper-cases the last lower-case letter of s.
func upperLastLetter(s string) string {
	for i := len(s) - 1; i >= 0; i-- {
		if s[i] >= 'a' && s[i] <= 'z' {
			return s[:i] + strings.ToUpper(s[i:i+1]) + s[i+1:]
		}
	}
	return s
}

// badPascal: names that are not PascalCase: lower-case first letter; an underscore inside.
func badPascal(name string) []variant {
	vs := []variant{{"underscore", underscoreAtBoundary(name)}}
	if lowerFirst(name) != name {
		vs = append(vs, variant{"lowerfirst", lowerFirst(name)})
	}
	return vs
}

// badPascalEnum keeps the UPPER_SNAKE_CASE form of the enum name (so value prefixes stay right):
// underscores only at word boundaries, lower-casing only a first word that is not an acronym.
func badPascalEnum(w Words) []variant {
	var vs []variant
	if len(w) >= 2 {
		vs = append(vs, variant{"underscore", strings.Join(w, "_")})
	} else {
		vs = append(vs, variant{"trailing_underscore", w[0] + "_"})
	}
	first := w[0]
	if len(first) >= 2 && first[1] >= 'a' && first[1] <= 'z' {
		vs = append(vs, variant{"lowerfirst", lowerFirst(w.Pascal())})
	}
	return vs
}

// badLowerSnake: names that are not lower_snake_case.
func badLowerSnake(name string) []variant {
	vs := []variant{
		{"upperfirst", upperFirst(name)},
		{"trailing_underscore", name + "_"},
		{"leading_underscore", "_" + name},
	}
	if i := strings.Index(name, "_"); i > 0 && i+1 < len(name) {
		vs = append(vs, variant{"double_underscore", name[:i] + "__" + name[i+1:]})
		if c := name[i+1]; c >= 'a' && c <= 'z' {
			vs = append(vs, variant{"camel", name[:i] + upperFirst(name[i+1:])})
		}
	} else if n := len(name); n >= 2 && name[n-1] >= 'a' && name[n-1] <= 'z' {
		vs = append(vs, variant{"camel", name[:n-1] + strings.ToUpper(name[n-1:])})
	}
	return vs
}

func splitValue(prefix, suffix, name string) string {
	// the part of an enum value name between prefix "_" and the zero suffix (if any)
	rest := strings.TrimPrefix(name, prefix+"_")
	if suffix != "" {
		rest = strings.TrimSuffix(rest, strings.TrimPrefix(suffix, "_"))
	}
	return rest
}

// ---- the catalogue -----------------------------------------------------------------------------------

type catalogue struct {
	p     Params
	probe *Spec
	out   []Plant
}

func (c *catalogue) add(op, rule, site string, opts *LintOpts, apply func(s *Spec) []Expect) {
	c.out = append(c.out, Plant{Op: op, Rule: rule, Site: site, Opts: opts, Apply: apply})
}

func fileIdx(s *Spec, f *File) int {
	for i, x := range s.Files {
		if x == f {
			return i
		}
	}
	return -1
}

func (c *catalogue) site(kind string, f *File, depth int) string {
	return fmt.Sprintf("%s/depth%d/file%d:%s", kind, depth, fileIdx(c.probe, f), f.Syntax)
}

// enumWords recovers the words of an enum of the family from the palette (names are built from words).
func (c *catalogue) enumWords(name string) Words {
	pal := Palettes[c.p.Palette]
	for _, w := range []Words{pal.TopEnum, pal.OuterEnum, pal.MidEnum, pal.DeepEnum, pal.BEnum, pal.InnerEnum, {"Legacy", "Kind"}, {"Modern", "Kind"}} {
		if w.Pascal() == name {
			return w
		}
	}
	panic("c05: unknown enum " + name)
}

func methodsUsing(s *Spec, m *Message) (asReq, asResp []*Method) {
	for _, ma := range s.AllMethods() {
		if ma.Method.Req.Msg == m {
			asReq = append(asReq, ma.Method)
		}
		if ma.Method.Resp.Msg == m {
			asResp = append(asResp, ma.Method)
		}
	}
	return
}

// renamePackage renames the package of all files of oldPkg and moves them to the matching directory.
func renamePackage(s *Spec, oldPkg, newPkg string) []*File {
	files := s.FilesOfPackage(oldPkg)
	for _, f := range files {
		f.Pkg.Name = newPkg
		f.Dir = strings.ReplaceAll(newPkg, ".", "/")
	}
	return files
}

func packagesOf(s *Spec) []string {
	var out []string
	seen := map[string]bool{}
	for _, f := range s.modelled() {
		if p := f.Package(); p != "" && !seen[p] {
			seen[p] = true
			out = append(out, p)
		}
	}
	return out
}

func hasImport(f *File, path string) bool {
	for _, im := range f.Imports {
		if importPath(im) == path {
			return true
		}
	}
	return false
}

// Plants enumerates every operator at every applicable site of the clean workspace Build(p).
func Plants(p Params) []Plant {
	c := &catalogue{p: p, probe: Build(p)}
	o := p.Opts()
	probe := c.probe

	// ---------------------------------------------------------------- name case rules
	for i, ma := range probe.AllMessages() {
		for _, v := range badPascal(ma.Msg.Name) {
			c.add("message-name/"+v.kind, "MESSAGE_PASCAL_CASE", c.site("message", ma.File, ma.Depth), nil, func(s *Spec) []Expect {
				m := s.AllMessages()[i].Msg
				m.Name = v.name
				ex := []Expect{must("MESSAGE_PASCAL_CASE", m, "name")}
				// Justified collateral: a request/response message that is no longer spelled
				// <Rpc>Request / <Rpc>Response also breaks the standard-name rule of its RPC.
				asReq, asResp := methodsUsing(s, m)
				for _, mt := range asReq {
					ex = append(ex, must("RPC_REQUEST_STANDARD_NAME", mt, "req"))
				}
				for _, mt := range asResp {
					ex = append(ex, must("RPC_RESPONSE_STANDARD_NAME", mt, "resp"))
				}
				return ex
			})
		}
	}
	for i, ea := range probe.AllEnums() {
		for _, v := range badPascalEnum(c.enumWords(ea.Enum.Name)) {
			c.add("enum-name/"+v.kind, "ENUM_PASCAL_CASE", c.site("enum", ea.File, ea.Depth), nil, func(s *Spec) []Expect {
				e := s.AllEnums()[i].Enum
				e.Name = v.name
				return []Expect{must("ENUM_PASCAL_CASE", e, "name")}
			})
		}
	}
	for i, sa := range probe.AllServices() {
		svcStem := strings.TrimSuffix(sa.Svc.Name, o.EffSvc())
		for _, v := range []variant{{"underscore", svcStem + "_" + o.EffSvc()}, {"lowerfirst", lowerFirst(sa.Svc.Name)}} {
			c.add("service-name/"+v.kind, "SERVICE_PASCAL_CASE", c.site("service", sa.File, 0), nil, func(s *Spec) []Expect {
				sv := s.AllServices()[i].Svc
				sv.Name = v.name
				return []Expect{must("SERVICE_PASCAL_CASE", sv, "name")}
			})
		}
	}
	for i, ma := range probe.AllMethods() {
		for _, v := range badPascal(ma.Method.Name) {
			c.add("rpc-name/"+v.kind, "RPC_PASCAL_CASE", c.site("rpc", ma.File, 0), nil, func(s *Spec) []Expect {
				m := s.AllMethods()[i].Method
				m.Name = v.name
				return []Expect{must("RPC_PASCAL_CASE", m, "name")}
			})
		}
	}
	fieldSite := func(fa FieldAt) string {
		kind := "field"
		switch {
		case fa.Oneof != nil:
			kind = "oneof-field"
		case fa.Extend != nil && fa.Parent == nil:
			kind = "top-extension"
		case fa.Extend != nil:
			kind = "nested-extension"
		case fa.Field.Type.MapKey != "":
			kind = "map-field"
		case fa.Field.Label != "":
			kind = fa.Field.Label + "-field"
		}
		// editions: a message-typed field with delimited encoding (per field or by the file's default)
		if fa.File.Syntax == "editions" && fa.Field.Type.Msg != nil && (p.Features == "field-delimited" || p.Features == "file-delimited") {
			kind = "delimited-" + kind
		}
		return c.site(kind, fa.File, fa.Depth)
	}
	for i, fa := range probe.AllFields() {
		for _, v := range badLowerSnake(fa.Field.Name) {
			c.add("field-name/"+v.kind, "FIELD_LOWER_SNAKE_CASE", fieldSite(fa), nil, func(s *Spec) []Expect {
				fd := s.AllFields()[i].Field
				fd.Name = v.name
				return []Expect{must("FIELD_LOWER_SNAKE_CASE", fd, "name")}
			})
		}
		// FIELD_NO_DESCRIPTOR: any capitalization of "descriptor" with underscores around it.
		for _, v := range []variant{{"exact", "descriptor"}, {"trailing", "descriptor_"}, {"leading", "__descriptor"}, {"caps", "DeScriptor"}} {
			c.add("field-descriptor/"+v.kind, "FIELD_NO_DESCRIPTOR", fieldSite(fa), nil, func(s *Spec) []Expect {
				fd := s.AllFields()[i].Field
				fd.Name = v.name
				ex := []Expect{must("FIELD_NO_DESCRIPTOR", fd, "name")}
				if v.kind != "exact" {
					// the chosen spelling is also not lower_snake_case
					ex = append(ex, must("FIELD_LOWER_SNAKE_CASE", fd, "name"))
				}
				return ex
			})
		}
	}
	for i, oa := range probe.AllOneofs() {
		for _, v := range badLowerSnake(oa.Oneof.Name) {
			c.add("oneof-name/"+v.kind, "ONEOF_LOWER_SNAKE_CASE", c.site("oneof", oa.File, oa.Depth), nil, func(s *Spec) []Expect {
				on := s.AllOneofs()[i].Oneof
				on.Name = v.name
				return []Expect{must("ONEOF_LOWER_SNAKE_CASE", on, "name")}
			})
		}
	}

	// ---------------------------------------------------------------- enum values
	for i, ea := range probe.AllEnums() {
		prefix := c.enumWords(ea.Enum.Name).Upper()
		for j, val := range ea.Enum.Values {
			zero := val.Number == 0
			vsite := c.site(fmt.Sprintf("enum-value%d", j), ea.File, ea.Depth)
			suffix := ""
			if zero {
				suffix = o.EffZero()
			}
			rest := splitValue(prefix, suffix, val.Name) // e.g. FIRST, "" for the zero value
			mk := func(mid string) string {
				// keeps the prefix and (for the zero value) the suffix
				name := prefix + "_" + mid
				if zero {
					name = prefix + "_" + mid + suffix
				}
				return name
			}
			low := strings.ToLower(rest)
			if low == "" {
				low = "bad"
			}
			caseVariants := []variant{{"lower-part", mk(low)}}
			if up := upperFirst(low); up != low && up != rest {
				caseVariants = append(caseVariants, variant{"capitalised-part", mk(up)})
			}
			if !zero {
				caseVariants = append(caseVariants, variant{"double-underscore", prefix + "__" + rest})
			}
			for _, v := range caseVariants {
				c.add("enum-value-case/"+v.kind, "ENUM_VALUE_UPPER_SNAKE_CASE", vsite, nil, func(s *Spec) []Expect {
					ev := s.AllEnums()[i].Enum.Values[j]
					ev.Name = v.name
					return []Expect{must("ENUM_VALUE_UPPER_SNAKE_CASE", ev, "name")}
				})
			}
			// prefix plants: other prefix; prefix glued without underscore; prefix one letter short.
			// The zero value keeps its suffix.
			tail := rest
			if zero {
				tail = "X" + suffix
			}
			prefixVariants := []variant{
				{"other-prefix", "OTHER_" + tail},
				{"glued-prefix", prefix + tail},
				{"truncated-prefix", prefix[:len(prefix)-1] + "_" + tail},
			}
			for _, v := range prefixVariants {
				c.add("enum-value-prefix/"+v.kind, "ENUM_VALUE_PREFIX", vsite, nil, func(s *Spec) []Expect {
					ev := s.AllEnums()[i].Enum.Values[j]
					ev.Name = v.name
					return []Expect{must("ENUM_VALUE_PREFIX", ev, "name")}
				})
			}
			if zero {
				wrong := "_UNKNOWN"
				for _, v := range []variant{
					{"other-suffix", prefix + wrong},
					{"suffix-not-last", prefix + suffix + "_X"},
					{"suffix-glued", prefix + "_X" + strings.TrimPrefix(suffix, "_")},
				} {
					c.add("enum-zero-suffix/"+v.kind, "ENUM_ZERO_VALUE_SUFFIX", vsite, nil, func(s *Spec) []Expect {
						ev := s.AllEnums()[i].Enum.Values[j]
						ev.Name = v.name
						return []Expect{must("ENUM_ZERO_VALUE_SUFFIX", ev, "name")}
					})
				}
			}
		}
		// ENUM_NO_ALLOW_ALIAS: allow_alias plus an alias of the last value
		c.add("enum-allow-alias", "ENUM_NO_ALLOW_ALIAS", c.site("enum", ea.File, ea.Depth), nil, func(s *Spec) []Expect {
			e := s.AllEnums()[i].Enum
			e.Alias = &AliasOpt{}
			last := e.Values[len(e.Values)-1]
			e.Values = append(e.Values, &EnumValue{Name: prefix + "_ALIAS", Number: last.Number, Doc: p.Doc})
			return []Expect{must("ENUM_NO_ALLOW_ALIAS", e.Alias, "decl")}
		})
		// ENUM_FIRST_VALUE_ZERO: only closed (proto2) enums may start with a non-zero value
		if closedEnums(p, ea.File) {
			c.add("enum-first-nonzero/swap", "ENUM_FIRST_VALUE_ZERO", c.site("enum", ea.File, ea.Depth), nil, func(s *Spec) []Expect {
				e := s.AllEnums()[i].Enum
				e.Values[0], e.Values[1] = e.Values[1], e.Values[0]
				return []Expect{must("ENUM_FIRST_VALUE_ZERO", e.Values[0], "number")}
			})
			c.add("enum-first-nonzero/renumber", "ENUM_FIRST_VALUE_ZERO", c.site("enum", ea.File, ea.Depth), nil, func(s *Spec) []Expect {
				// the zero value keeps its place but is renumbered; no value is zero any more, so the
				// zero-suffix rule has nothing to say
				e := s.AllEnums()[i].Enum
				e.Values[0].Number = 7
				e.Values[0].Name = prefix + "_SEVENTH"
				return []Expect{must("ENUM_FIRST_VALUE_ZERO", e.Values[0], "number")}
			})
		}
	}
	// option mismatch: the workspace is clean for suffix X, the configuration asks for suffix Y
	{
		wrong := o
		if o.ZeroSuffix == "" {
			wrong.ZeroSuffix = "_NONE"
		} else {
			wrong.ZeroSuffix = ""
		}
		c.add("enum-zero-suffix/option-mismatch", "ENUM_ZERO_VALUE_SUFFIX", "all-enums", &wrong, func(s *Spec) []Expect {
			var ex []Expect
			for _, ea := range s.AllEnums() {
				ex = append(ex, must("ENUM_ZERO_VALUE_SUFFIX", ea.Enum.Values[0], "name"))
			}
			return ex
		})
		wrongSvc := o
		if o.SvcSuffix == "" {
			wrongSvc.SvcSuffix = "API"
		} else {
			wrongSvc.SvcSuffix = ""
		}
		c.add("service-suffix/option-mismatch", "SERVICE_SUFFIX", "all-services", &wrongSvc, func(s *Spec) []Expect {
			var ex []Expect
			for _, sa := range s.AllServices() {
				ex = append(ex, must("SERVICE_SUFFIX", sa.Svc, "name"))
			}
			return ex
		})
	}

	// ---------------------------------------------------------------- service suffix
	for i, sa := range probe.AllServices() {
		stem := strings.TrimSuffix(sa.Svc.Name, o.EffSvc())
		for _, v := range []variant{
			{"no-suffix", stem + "Svc"},
			{"lower-case-suffix", stem + strings.ToLower(o.EffSvc())},
			{"suffix-not-last", stem + o.EffSvc() + "X"},
		} {
			c.add("service-suffix/"+v.kind, "SERVICE_SUFFIX", c.site("service", sa.File, 0), nil, func(s *Spec) []Expect {
				sv := s.AllServices()[i].Svc
				oldName := sv.Name
				sv.Name = v.name
				ex := []Expect{must("SERVICE_SUFFIX", sv, "name")}
				// <Service><Rpc>Request names are derived from the service name
				for _, m := range sv.Methods {
					if m.Req.Msg != nil && strings.HasPrefix(m.Req.Msg.Name, oldName) {
						ex = append(ex, must("RPC_REQUEST_STANDARD_NAME", m, "req"))
					}
					if m.Resp.Msg != nil && strings.HasPrefix(m.Resp.Msg.Name, oldName) {
						ex = append(ex, must("RPC_RESPONSE_STANDARD_NAME", m, "resp"))
					}
				}
				return ex
			})
		}
	}

	// ---------------------------------------------------------------- RPC rules
	methods := probe.AllMethods()
	for i, ma := range methods {
		msite := c.site("rpc", ma.File, 0)
		c.add("rpc-client-streaming", "RPC_NO_CLIENT_STREAMING", msite, nil, func(s *Spec) []Expect {
			m := s.AllMethods()[i].Method
			m.ClientStream = true
			return []Expect{must("RPC_NO_CLIENT_STREAMING", m, "decl")}
		})
		c.add("rpc-server-streaming", "RPC_NO_SERVER_STREAMING", msite, nil, func(s *Spec) []Expect {
			m := s.AllMethods()[i].Method
			m.ServerStream = true
			return []Expect{must("RPC_NO_SERVER_STREAMING", m, "decl")}
		})
		c.add("rpc-bidi-streaming", "RPC_NO_CLIENT_STREAMING", msite, nil, func(s *Spec) []Expect {
			m := s.AllMethods()[i].Method
			m.ClientStream, m.ServerStream = true, true
			return []Expect{must("RPC_NO_CLIENT_STREAMING", m, "decl"), must("RPC_NO_SERVER_STREAMING", m, "decl")}
		})
		if ma.Method.Req.Msg != nil {
			for _, v := range []variant{{"abbreviated", ma.Method.Name + "Req"}, {"suffix-not-last", ma.Method.Name + "RequestMsg"}, {"other-rpc", "X" + ma.Method.Name + "Request"}} {
				c.add("rpc-request-name/"+v.kind, "RPC_REQUEST_STANDARD_NAME", msite, nil, func(s *Spec) []Expect {
					m := s.AllMethods()[i].Method
					m.Req.Msg.Name = v.name
					return []Expect{must("RPC_REQUEST_STANDARD_NAME", m, "req")}
				})
			}
		}
		if ma.Method.Resp.Msg != nil {
			for _, v := range []variant{{"abbreviated", ma.Method.Name + "Resp"}, {"suffix-not-last", ma.Method.Name + "ResponseMsg"}, {"request-suffix", ma.Method.Name + "Reply"}} {
				c.add("rpc-response-name/"+v.kind, "RPC_RESPONSE_STANDARD_NAME", msite, nil, func(s *Spec) []Expect {
					m := s.AllMethods()[i].Method
					m.Resp.Msg.Name = v.name
					return []Expect{must("RPC_RESPONSE_STANDARD_NAME", m, "resp")}
				})
			}
		}
		// same type for request and response
		if ma.Method.Req.Msg != nil && ma.Method.Resp.Msg != nil {
			c.add("rpc-same-request-response", "RPC_REQUEST_RESPONSE_UNIQUE", msite, nil, func(s *Spec) []Expect {
				m := s.AllMethods()[i].Method
				m.Resp = m.Req
				return []Expect{must("RPC_REQUEST_RESPONSE_UNIQUE", m, "decl"), must("RPC_RESPONSE_STANDARD_NAME", m, "resp")}
			})
			allow := o
			allow.AllowSame = true
			c.add("rpc-same-request-response/allowed", "RPC_RESPONSE_STANDARD_NAME", msite, &allow, func(s *Spec) []Expect {
				// with rpc_allow_same_request_response the uniqueness rule has nothing to report
				m := s.AllMethods()[i].Method
				m.Resp = m.Req
				return []Expect{must("RPC_RESPONSE_STANDARD_NAME", m, "resp")}
			})
		}
		// reuse of another RPC's request / response type (same file only, so that the type is visible)
		for k, mb := range methods {
			if k == i || mb.File != ma.File {
				continue
			}
			if ma.Method.Req.Msg != nil && mb.Method.Req.Msg != nil {
				c.add("rpc-reused-request", "RPC_REQUEST_RESPONSE_UNIQUE", msite, nil, func(s *Spec) []Expect {
					ms := s.AllMethods()
					m, other := ms[i].Method, ms[k].Method
					m.Req = other.Req
					return []Expect{must("RPC_REQUEST_RESPONSE_UNIQUE", m, "decl"), must("RPC_REQUEST_RESPONSE_UNIQUE", other, "decl"),
						must("RPC_REQUEST_STANDARD_NAME", m, "req")}
				})
			}
			if ma.Method.Resp.Msg != nil && mb.Method.Resp.Msg != nil {
				c.add("rpc-reused-response", "RPC_REQUEST_RESPONSE_UNIQUE", msite, nil, func(s *Spec) []Expect {
					ms := s.AllMethods()
					m, other := ms[i].Method, ms[k].Method
					m.Resp = other.Resp
					return []Expect{must("RPC_REQUEST_RESPONSE_UNIQUE", m, "decl"), must("RPC_REQUEST_RESPONSE_UNIQUE", other, "decl"),
						must("RPC_RESPONSE_STANDARD_NAME", m, "resp")}
				})
			}
			if ma.Method.Req.Msg != nil && mb.Method.Resp.Msg != nil {
				c.add("rpc-request-is-other-response", "RPC_REQUEST_RESPONSE_UNIQUE", msite, nil, func(s *Spec) []Expect {
					ms := s.AllMethods()
					m, other := ms[i].Method, ms[k].Method
					m.Req = other.Resp
					return []Expect{must("RPC_REQUEST_RESPONSE_UNIQUE", m, "decl"), must("RPC_REQUEST_RESPONSE_UNIQUE", other, "decl"),
						must("RPC_REQUEST_STANDARD_NAME", m, "req")}
				})
			}
		}
	}
	// google.protobuf.Empty without the matching allowance. Only on members that do not already use Empty.
	if p.Empty == 0 {
		for i, ma := range methods {
			msite := c.site("rpc", ma.File, 0)
			c.add("rpc-empty-request/once", "RPC_REQUEST_STANDARD_NAME", msite, nil, func(s *Spec) []Expect {
				ms := s.AllMethods()
				useEmpty(ms[i].File)
				ms[i].Method.Req = emptyType
				return []Expect{must("RPC_REQUEST_STANDARD_NAME", ms[i].Method, "req")}
			})
			c.add("rpc-empty-response/once", "RPC_RESPONSE_STANDARD_NAME", msite, nil, func(s *Spec) []Expect {
				ms := s.AllMethods()
				useEmpty(ms[i].File)
				ms[i].Method.Resp = emptyType
				return []Expect{must("RPC_RESPONSE_STANDARD_NAME", ms[i].Method, "resp")}
			})
			for k := range methods {
				if k <= i {
					continue
				}
				for _, optKind := range []string{"default", "allow-responses-only"} {
					opts := o
					if optKind == "allow-responses-only" {
						opts.AllowEmptyResp = true
					}
					c.add("rpc-empty-request/twice/"+optKind, "RPC_REQUEST_RESPONSE_UNIQUE", msite, &opts, func(s *Spec) []Expect {
						ms := s.AllMethods()
						var ex []Expect
						for _, x := range []MethodAt{ms[i], ms[k]} {
							useEmpty(x.File)
							x.Method.Req = emptyType
							ex = append(ex, must("RPC_REQUEST_RESPONSE_UNIQUE", x.Method, "decl"), must("RPC_REQUEST_STANDARD_NAME", x.Method, "req"))
						}
						return ex
					})
				}
				for _, optKind := range []string{"default", "allow-requests-only"} {
					opts := o
					if optKind == "allow-requests-only" {
						opts.AllowEmptyReq = true
					}
					c.add("rpc-empty-response/twice/"+optKind, "RPC_REQUEST_RESPONSE_UNIQUE", msite, &opts, func(s *Spec) []Expect {
						ms := s.AllMethods()
						var ex []Expect
						for _, x := range []MethodAt{ms[i], ms[k]} {
							useEmpty(x.File)
							x.Method.Resp = emptyType
							ex = append(ex, must("RPC_REQUEST_RESPONSE_UNIQUE", x.Method, "decl"), must("RPC_RESPONSE_STANDARD_NAME", x.Method, "resp"))
						}
						return ex
					})
				}
			}
		}
	}
	// Empty used as allowed by the base, but the configuration withdraws the allowance
	if p.Empty != 0 {
		without := o
		without.AllowEmptyReq, without.AllowEmptyResp = false, false
		c.add("rpc-empty/option-withdrawn", "RPC_REQUEST_RESPONSE_UNIQUE", "all-empty-rpcs", &without, func(s *Spec) []Expect {
			var ex []Expect
			nReq, nResp := 0, 0
			for _, ma := range s.AllMethods() {
				if ma.Method.Req.Ext == emptyType.Ext {
					nReq++
				}
				if ma.Method.Resp.Ext == emptyType.Ext {
					nResp++
				}
			}
			for _, ma := range s.AllMethods() {
				isReq, isResp := ma.Method.Req.Ext == emptyType.Ext, ma.Method.Resp.Ext == emptyType.Ext
				if isReq {
					ex = append(ex, must("RPC_REQUEST_STANDARD_NAME", ma.Method, "req"))
				}
				if isResp {
					ex = append(ex, must("RPC_RESPONSE_STANDARD_NAME", ma.Method, "resp"))
				}
				if (isReq || isResp) && nReq+nResp >= 2 {
					ex = append(ex, must("RPC_REQUEST_RESPONSE_UNIQUE", ma.Method, "decl"))
				}
			}
			return ex
		})
	}

	// google.protobuf.Empty usage matrix: how many RPCs use Empty in which role x which allowances are set.
	if p.Empty == 0 {
		c.emptyUsageMatrix(o, len(methods))
	}

	// ---------------------------------------------------------------- comments
	for _, bad := range BadDocs {
		for i, ma := range probe.AllMessages() {
			c.add("comment-message/"+bad, "COMMENT_MESSAGE", c.site("message", ma.File, ma.Depth), nil, func(s *Spec) []Expect {
				m := s.AllMessages()[i].Msg
				m.Doc = bad
				return []Expect{must("COMMENT_MESSAGE", m, "decl")}
			})
		}
		for i, ea := range probe.AllEnums() {
			c.add("comment-enum/"+bad, "COMMENT_ENUM", c.site("enum", ea.File, ea.Depth), nil, func(s *Spec) []Expect {
				e := s.AllEnums()[i].Enum
				e.Doc = bad
				return []Expect{must("COMMENT_ENUM", e, "decl")}
			})
			for j := range ea.Enum.Values {
				c.add("comment-enum-value/"+bad, "COMMENT_ENUM_VALUE", c.site(fmt.Sprintf("enum-value%d", j), ea.File, ea.Depth), nil, func(s *Spec) []Expect {
					v := s.AllEnums()[i].Enum.Values[j]
					v.Doc = bad
					return []Expect{must("COMMENT_ENUM_VALUE", v, "decl")}
				})
			}
		}
		for i, fa := range probe.AllFields() {
			c.add("comment-field/"+bad, "COMMENT_FIELD", fieldSite(fa), nil, func(s *Spec) []Expect {
				fd := s.AllFields()[i].Field
				fd.Doc = bad
				return []Expect{must("COMMENT_FIELD", fd, "decl")}
			})
		}
		for i, oa := range probe.AllOneofs() {
			c.add("comment-oneof/"+bad, "COMMENT_ONEOF", c.site("oneof", oa.File, oa.Depth), nil, func(s *Spec) []Expect {
				on := s.AllOneofs()[i].Oneof
				on.Doc = bad
				return []Expect{must("COMMENT_ONEOF", on, "decl")}
			})
		}
		for i, sa := range probe.AllServices() {
			c.add("comment-service/"+bad, "COMMENT_SERVICE", c.site("service", sa.File, 0), nil, func(s *Spec) []Expect {
				sv := s.AllServices()[i].Svc
				sv.Doc = bad
				return []Expect{must("COMMENT_SERVICE", sv, "decl")}
			})
		}
		for i, ma := range probe.AllMethods() {
			c.add("comment-rpc/"+bad, "COMMENT_RPC", c.site("rpc", ma.File, 0), nil, func(s *Spec) []Expect {
				m := s.AllMethods()[i].Method
				m.Doc = bad
				return []Expect{must("COMMENT_RPC", m, "decl")}
			})
		}
	}

	// ---------------------------------------------------------------- packages, directories, files
	pkgExpect := func(rule string, files []*File) []Expect {
		var ex []Expect
		for _, f := range files {
			if f.Pkg != nil {
				ex = append(ex, must(rule, f.Pkg, "decl"))
			} else {
				ex = append(ex, must(rule, f, "file"))
			}
		}
		return ex
	}
	for _, pkg := range packagesOf(probe) {
		comps := strings.Split(pkg, ".")
		first, ver := comps[0], comps[1]
		nfiles := len(probe.FilesOfPackage(pkg))
		psite := fmt.Sprintf("package/files%d", nfiles)
		for _, v := range []variant{
			{"upperfirst", upperFirst(first) + "." + ver},
			{"camel", upperLastLetter(first) + "." + ver},
			{"double-underscore", first[:1] + "__" + first[1:] + "." + ver},
		} {
			c.add("package-case/"+v.kind, "PACKAGE_LOWER_SNAKE_CASE", psite, nil, func(s *Spec) []Expect {
				return pkgExpect("PACKAGE_LOWER_SNAKE_CASE", renamePackage(s, pkg, v.name))
			})
		}
		// forms that are not versions at all per the rule's Purpose text
		badVersions := []variant{
			{"missing", first}, {"v0", first + ".v0"}, {"letters-after", first + ".v1x"}, {"no-number", first + ".vfoo"},
			{"beta0", first + ".v1beta0"}, {"patch0", first + ".v1p0beta1"}, {"alpha-and-beta", first + ".v1alpha1beta1"},
			{"spelled-out", first + ".version1"}, {"inner-version", first + "." + ver + ".api"},
		}
		for _, v := range badVersions {
			c.add("package-version/"+v.kind, "PACKAGE_VERSION_SUFFIX", psite, nil, func(s *Spec) []Expect {
				return pkgExpect("PACKAGE_VERSION_SUFFIX", renamePackage(s, pkg, v.name))
			})
		}
		// STABLE_PACKAGE_NO_IMPORT_UNSTABLE: make an imported package unstable
		if Stable(ver) {
			for _, unstable := range []string{ver + "beta1", ver + "alpha3", ver + "p2beta1", ver + "test"} {
				var importers [][2]int // file index, import index
				for fi, f := range probe.Files {
					for ii, im := range f.Imports {
						if im.Target != nil && im.Target.Package() == pkg && f.Package() != pkg {
							importers = append(importers, [2]int{fi, ii})
						}
					}
				}
				if len(importers) == 0 {
					continue
				}
				c.add("package-unstable/"+strings.TrimPrefix(unstable, ver), "STABLE_PACKAGE_NO_IMPORT_UNSTABLE", psite, nil, func(s *Spec) []Expect {
					renamePackage(s, pkg, first+"."+unstable)
					var ex []Expect
					for _, x := range importers {
						ex = append(ex, must("STABLE_PACKAGE_NO_IMPORT_UNSTABLE", s.Files[x[0]].Imports[x[1]], "decl"))
					}
					return ex
				})
			}
		}
		// language options
		if p.FileOpts && nfiles >= 2 {
			for oi, opt := range probe.FilesOfPackage(pkg)[0].Options {
				rule := "PACKAGE_SAME_" + strings.ToUpper(opt.Name)
				for fi := 0; fi < nfiles; fi++ {
					optExpect := func(s *Spec) []Expect {
						var ex []Expect
						for _, f := range s.FilesOfPackage(pkg) {
							var found *FileOption
							for _, fo := range f.Options {
								if fo.Name == opt.Name {
									found = fo
								}
							}
							if found != nil {
								ex = append(ex, must(rule, found, "decl"))
							} else {
								ex = append(ex, must(rule, f, "file"))
							}
						}
						return ex
					}
					c.add("package-option-differs/"+opt.Name, rule, fmt.Sprintf("%s/file%d", psite, fi), nil, func(s *Spec) []Expect {
						fo := s.FilesOfPackage(pkg)[fi].Options[oi]
						switch fo.Value {
						case "true":
							fo.Value = "false"
						case "false":
							fo.Value = "true"
						default:
							fo.Value = fo.Value[:len(fo.Value)-1] + `x"`
						}
						return optExpect(s)
					})
					// Value of the option in the rest of the package (round 5). A boolean option can be present
					// with the value an absent option has: the files of the package then carry the *other*
					// boolean value than the base gives them (for a FileOpts base: an explicit `false`), and one
					// file differs from that by the opposite value / by not having the option at all. Present
					// and absent are different option settings whatever the value.
					if opt.Value == "true" || opt.Value == "false" {
						other := fmt.Sprint(opt.Value != "true")
						c.add("package-option-differs/"+opt.Name+"/rest-"+other, rule, fmt.Sprintf("%s/file%d", psite, fi), nil, func(s *Spec) []Expect {
							for k, f := range s.FilesOfPackage(pkg) {
								if k != fi {
									f.Options[oi].Value = other
								}
							}
							return optExpect(s)
						})
						c.add("package-option-missing/"+opt.Name+"/rest-"+other, rule, fmt.Sprintf("%s/file%d", psite, fi), nil, func(s *Spec) []Expect {
							files := s.FilesOfPackage(pkg)
							for _, f := range files {
								f.Options[oi].Value = other
							}
							f := files[fi]
							f.Options = append(append([]*FileOption{}, f.Options[:oi]...), f.Options[oi+1:]...)
							return optExpect(s)
						})
					}
					c.add("package-option-missing/"+opt.Name, rule, fmt.Sprintf("%s/file%d", psite, fi), nil, func(s *Spec) []Expect {
						f := s.FilesOfPackage(pkg)[fi]
						f.Options = append(append([]*FileOption{}, f.Options[:oi]...), f.Options[oi+1:]...)
						return optExpect(s)
					})
				}
			}
		}
		// same stability class, different version
		otherVer := ver + "0"
		if nfiles >= 2 {
			for fi := 0; fi < nfiles; fi++ {
				c.add("file-moved-out-of-package-dir", "PACKAGE_SAME_DIRECTORY", fmt.Sprintf("%s/file%d", psite, fi), nil, func(s *Spec) []Expect {
					files := s.FilesOfPackage(pkg)
					files[fi].Dir += "/more"
					return append(pkgExpect("PACKAGE_SAME_DIRECTORY", files), must("PACKAGE_DIRECTORY_MATCH", files[fi].Pkg, "decl"))
				})
				c.add("file-package-differs-in-dir", "DIRECTORY_SAME_PACKAGE", fmt.Sprintf("%s/file%d", psite, fi), nil, func(s *Spec) []Expect {
					files := s.FilesOfPackage(pkg)
					files[fi].Pkg.Name = first + "." + otherVer
					return append(pkgExpect("DIRECTORY_SAME_PACKAGE", files), must("PACKAGE_DIRECTORY_MATCH", files[fi].Pkg, "decl"))
				})
				c.add("file-package-removed-in-dir", "DIRECTORY_SAME_PACKAGE", fmt.Sprintf("%s/file%d", psite, fi), nil, func(s *Spec) []Expect {
					files := s.FilesOfPackage(pkg)
					files[fi].Pkg = nil
					return append(pkgExpect("DIRECTORY_SAME_PACKAGE", files), must("PACKAGE_DEFINED", files[fi], "file"))
				})
			}
		} else {
			c.add("file-moved/sibling-dir", "PACKAGE_DIRECTORY_MATCH", psite, nil, func(s *Spec) []Expect {
				f := s.FilesOfPackage(pkg)[0]
				f.Dir = first + "x/" + ver
				return []Expect{must("PACKAGE_DIRECTORY_MATCH", f.Pkg, "decl")}
			})
			c.add("file-moved/deeper-dir", "PACKAGE_DIRECTORY_MATCH", psite, nil, func(s *Spec) []Expect {
				f := s.FilesOfPackage(pkg)[0]
				f.Dir += "/sub"
				return []Expect{must("PACKAGE_DIRECTORY_MATCH", f.Pkg, "decl")}
			})
			c.add("file-moved/root", "PACKAGE_DIRECTORY_MATCH", psite, nil, func(s *Spec) []Expect {
				f := s.FilesOfPackage(pkg)[0]
				f.Dir = ""
				return []Expect{must("PACKAGE_DIRECTORY_MATCH", f.Pkg, "decl")}
			})
			c.add("file-package-renamed", "PACKAGE_DIRECTORY_MATCH", psite, nil, func(s *Spec) []Expect {
				f := s.FilesOfPackage(pkg)[0]
				f.Pkg.Name = first + "_b." + ver
				return []Expect{must("PACKAGE_DIRECTORY_MATCH", f.Pkg, "decl")}
			})
			c.add("file-package-removed", "PACKAGE_DEFINED", psite, nil, func(s *Spec) []Expect {
				f := s.FilesOfPackage(pkg)[0]
				f.Pkg = nil
				return []Expect{must("PACKAGE_DEFINED", f, "file")}
			})
		}
	}
	for i, f := range probe.Files {
		if f.Raw != "" {
			continue
		}
		stem := strings.TrimSuffix(f.Base, ".proto")
		fsite := fmt.Sprintf("file%d:%s", i, f.Syntax)
		for _, v := range []variant{
			{"upperfirst", upperFirst(stem)},
			{"camel", upperLastLetter(stem)},
			{"hyphen", stem[:1] + "-" + stem[1:]},
			{"dot", stem[:1] + "." + stem[1:]},
			{"trailing-underscore", stem + "_"},
		} {
			c.add("file-name/"+v.kind, "FILE_LOWER_SNAKE_CASE", fsite, nil, func(s *Spec) []Expect {
				f := s.Files[i]
				f.Base = v.name + ".proto"
				return []Expect{must("FILE_LOWER_SNAKE_CASE", f, "file")}
			})
		}
		if f.Syntax == "proto2" {
			c.add("file-syntax-dropped", "SYNTAX_SPECIFIED", fsite, nil, func(s *Spec) []Expect {
				f := s.Files[i]
				f.Syntax = ""
				return []Expect{must("SYNTAX_SPECIFIED", f, "file")}
			})
		}
		// imports
		for ii := range f.Imports {
			c.add("import-public", "IMPORT_NO_PUBLIC", fmt.Sprintf("%s/import%d", fsite, ii), nil, func(s *Spec) []Expect {
				im := s.Files[i].Imports[ii]
				im.Kind = "public"
				return []Expect{must("IMPORT_NO_PUBLIC", im, "decl")}
			})
			c.add("import-weak", "IMPORT_NO_WEAK", fmt.Sprintf("%s/import%d", fsite, ii), nil, func(s *Spec) []Expect {
				im := s.Files[i].Imports[ii]
				im.Kind = "weak"
				return []Expect{must("IMPORT_NO_WEAK", im, "decl")}
			})
		}
		// unused imports: a well-known file, and a workspace leaf file that imports nothing (no cycles)
		for _, where := range []string{"first", "last"} {
			c.add("import-unused/wkt/"+where, "IMPORT_USED", fsite, nil, func(s *Spec) []Expect {
				f := s.Files[i]
				im := &Import{Path: "google/protobuf/timestamp.proto"}
				addImport(f, im, where == "first")
				return []Expect{must("IMPORT_USED", im, "decl")}
			})
			if p.Leaves {
				leaf := 3 // the proto2 leaf file
				if i == leaf || hasImport(f, probe.Files[leaf].Path()) {
					continue
				}
				c.add("import-unused/workspace/"+where, "IMPORT_USED", fsite, nil, func(s *Spec) []Expect {
					f := s.Files[i]
					im := &Import{Target: s.Files[leaf]}
					addImport(f, im, where == "first")
					return []Expect{must("IMPORT_USED", im, "decl")}
				})
			}
		}
	}
	// PACKAGE_NO_IMPORT_CYCLE. Package B (file C) imports package A (file A). A cycle appears as soon as
	// package A starts importing package B; every import statement that forms an edge of the package
	// cycle is offending, however many statements form the same package -> package edge. The edge A -> B is
	// made of every non-empty subset of
	//   c1: file B (package A) imports file C            (the usual single statement)
	//   c2: file A (package A) imports X, a new leaf file of package B   (second file of the package)
	//   c3: file B imports X, as first or as last import of the file     (second statement of one file)
	// and the edge B -> A optionally gets a second statement
	//   c4: Y, a new file of package B, imports file A.
	// Every new import is used (a field of an imported message type is added).
	b := &builder{p: p, pal: Palettes[p.Palette], o: o}
	newFile := func(s *Spec, like *File, pkgFirst, stem, msgName string, payload Type) (*File, *Message) {
		f := &File{Dir: like.Dir, Base: stem + ".proto", Syntax: "proto3", Header: p.Header,
			Pkg: &PkgStmt{like.Pkg.Name}, Options: b.fileOptions(pkgFirst)}
		m := &Message{Name: msgName, Doc: p.Doc}
		m.Fields = append(m.Fields, b.field("proto3", b.pal.FID, payload, 1, ""))
		f.Messages = append(f.Messages, m)
		s.Files = append(s.Files, f)
		return f, m
	}
	useIn := func(f *File, m *Message, name string, t Type, num int) {
		m.Fields = append(m.Fields, b.field(f.Syntax, name, t, num, ""))
	}
	for mask := 1; mask < 8; mask++ {
		for _, c3first := range []bool{false, true} {
			if c3first && mask&4 == 0 {
				continue
			}
			for _, c4 := range []bool{false, true} {
				var parts []string
				if mask&1 != 0 {
					parts = append(parts, "fileB-fileC")
				}
				if mask&2 != 0 {
					parts = append(parts, "fileA-newX")
				}
				if mask&4 != 0 {
					if c3first {
						parts = append(parts, "fileB-newX(first)")
					} else {
						parts = append(parts, "fileB-newX(last)")
					}
				}
				back := "fileC-fileA"
				if c4 {
					back += ",newY-fileA"
				}
				nForward := len(parts)
				op, site := "package-import-cycle/multi-import-edge", "A->B:"+strings.Join(parts, ",")+";B->A:"+back
				switch {
				case mask == 1 && !c4:
					op, site = "package-import-cycle", "file1->file2->file0"
				case nForward == 1 && !c4:
					op = "package-import-cycle/via-second-file"
				}
				c.add(op, "PACKAGE_NO_IMPORT_CYCLE", site, nil, func(s *Spec) []Expect {
					fa, fb, fc := s.Files[0], s.Files[1], s.Files[2]
					holder := fc.Messages[0]
					target := fb.Messages[0]
					var x *File
					var xMsg *Message
					if mask&6 != 0 {
						x, xMsg = newFile(s, fc, b.pal.PkgB, b.pal.FileC+"_extra", b.pal.Holder+"Extra", scalar("string"))
					}
					var ex []Expect
					if mask&1 != 0 {
						im := &Import{Target: fc}
						fb.Imports = append(fb.Imports, im)
						useIn(fb, target, "cycle_"+b.pal.FMid, Type{Msg: holder}, 15)
						ex = append(ex, must("PACKAGE_NO_IMPORT_CYCLE", im, "decl"))
					}
					if mask&2 != 0 {
						im := &Import{Target: x}
						fa.Imports = append(fa.Imports, im)
						useIn(fa, fa.Messages[1], "extra_"+b.pal.FMid, Type{Msg: xMsg}, 15)
						ex = append(ex, must("PACKAGE_NO_IMPORT_CYCLE", im, "decl"))
					}
					if mask&4 != 0 {
						im := &Import{Target: x}
						addImport(fb, im, c3first)
						useIn(fb, target, "extra_"+b.pal.FMid, Type{Msg: xMsg}, 16)
						ex = append(ex, must("PACKAGE_NO_IMPORT_CYCLE", im, "decl"))
					}
					ex = append(ex, must("PACKAGE_NO_IMPORT_CYCLE", fc.Imports[0], "decl"))
					if c4 {
						y, _ := newFile(s, fc, b.pal.PkgB, b.pal.FileC+"_more", b.pal.Holder+"More", Type{Msg: fa.Messages[0]})
						im := &Import{Target: fa}
						y.Imports = append(y.Imports, im)
						ex = append(ex, must("PACKAGE_NO_IMPORT_CYCLE", im, "decl"))
					}
					return ex
				})
			}
		}
	}
	// A cycle over three packages, A -> E -> C -> A (package B imports A but is not on the cycle: its
	// import is not offending); optionally the edge E -> C is made of two statements.
	if p.Leaves {
		for _, double := range []bool{false, true} {
			op, site := "package-import-cycle/three-packages", "file1->file4->file3->file0"
			if double {
				op, site = "package-import-cycle/multi-import-edge", "A->E:fileB-fileE;E->C:fileE-fileD,fileE-newZ;C->A:fileD-fileA"
			}
			c.add(op, "PACKAGE_NO_IMPORT_CYCLE", site, nil, func(s *Spec) []Expect {
				fa, fb, fd, fe := s.Files[0], s.Files[1], s.Files[3], s.Files[4]
				imBE := &Import{Target: fe}
				fb.Imports = append(fb.Imports, imBE)
				useIn(fb, fb.Messages[0], "cycle_"+b.pal.FMid, Type{Msg: fe.Messages[0]}, 15)
				imDA := &Import{Target: fa}
				fd.Imports = append(fd.Imports, imDA)
				useIn(fd, fd.Messages[0], "cycle_"+b.pal.FOuter, Type{Msg: fa.Messages[0]}, 15)
				ex := []Expect{must("PACKAGE_NO_IMPORT_CYCLE", imBE, "decl"), must("PACKAGE_NO_IMPORT_CYCLE", fe.Imports[0], "decl"),
					must("PACKAGE_NO_IMPORT_CYCLE", imDA, "decl")}
				if double {
					z, zMsg := newFile(s, fd, b.pal.PkgC, b.pal.FileD+"_extra", "Legacy"+b.pal.Holder+"Extra", scalar("string"))
					im := &Import{Target: z}
					addImport(fe, im, true)
					useIn(fe, fe.Messages[0], "extra_"+b.pal.FMid, Type{Msg: zMsg}, 15)
					ex = append(ex, must("PACKAGE_NO_IMPORT_CYCLE", im, "decl"))
				}
				return ex
			})
		}
	}

	// ---------------------------------------------------------------- FIELD_NOT_REQUIRED
	for i, fa := range probe.AllFields() {
		if fa.Oneof != nil || fa.Extend != nil || fa.Field.Type.MapKey != "" || fa.Field.Label == "repeated" {
			continue
		}
		switch fa.File.Syntax {
		case "proto2":
			c.add("field-required/label", "FIELD_NOT_REQUIRED", fieldSite(fa), nil, func(s *Spec) []Expect {
				fd := s.AllFields()[i].Field
				fd.Label = "required"
				return []Expect{must("FIELD_NOT_REQUIRED", fd, "name")}
			})
		case "editions":
			if fa.Field.Type.Msg == nil {
				c.add("field-required/feature", "FIELD_NOT_REQUIRED", fieldSite(fa), nil, func(s *Spec) []Expect {
					fd := s.AllFields()[i].Field
					fd.Opts = "features.field_presence = LEGACY_REQUIRED"
					return []Expect{must("FIELD_NOT_REQUIRED", fd, "name")}
				})
			}
		}
	}
	return c.out
}

func addImport(f *File, im *Import, first bool) {
	if first {
		f.Imports = append([]*Import{im}, f.Imports...)
	} else {
		f.Imports = append(f.Imports, im)
	}
}

// ---- google.protobuf.Empty usage matrix ---------------------------------------------------------------
//
// The existing Empty operators plant one shape each (one RPC; two RPCs in the same role). The uniqueness
// rule and the two standard-name rules depend on *how many* RPCs use Empty in *which role* and on which
// of the allowances are configured, so that space is enumerated here:
//
//	usage vector  (a, b, c): a RPCs take Empty (and return their own message), b RPCs return Empty (and
//	              take their own message), c RPCs are Empty -> Empty; quick a, b <= 2, c <= 1; thorough
//	              a, b <= 3, c <= 2; 1 <= a+b+c <= number of RPCs of the workspace
//	allowances    every subset of {rpc_allow_google_protobuf_empty_requests, ..._responses}, and
//	              rpc_allow_same_request_response where an Empty -> Empty RPC exists
//	placement     which RPCs get the roles: in declaration order (fills the first service first), in reverse
//	              order (second package first), and starting at the last RPC of the first service (so that
//	              two users sit in two packages)
//
// Expected annotations (emptyUsageExpect) follow the documented meaning of the options: a usage of Empty in
// a role whose allowance is set is legitimate and is not counted by any rule; every other usage is an
// ordinary usage of an ordinary type.

// emptyUsageExpect is the reference model for the three RPC rules on google.protobuf.Empty.
func emptyUsageExpect(ms []MethodAt, o LintOpts) []Expect {
	var ex []Expect
	var counted []*Method // RPCs with a usage of Empty that no allowance covers
	for _, ma := range ms {
		m := ma.Method
		isReq, isResp := m.Req.Ext == emptyType.Ext, m.Resp.Ext == emptyType.Ext
		if isReq && !o.AllowEmptyReq {
			ex = append(ex, must("RPC_REQUEST_STANDARD_NAME", m, "req"))
		}
		if isResp && !o.AllowEmptyResp {
			ex = append(ex, must("RPC_RESPONSE_STANDARD_NAME", m, "resp"))
		}
		if (isReq && !o.AllowEmptyReq) || (isResp && !o.AllowEmptyResp) {
			counted = append(counted, m)
		}
		// the same type as request and response of one RPC; legitimate only if both roles are allowed
		if isReq && isResp && !o.AllowSame && !(o.AllowEmptyReq && o.AllowEmptyResp) {
			ex = append(ex, must("RPC_REQUEST_RESPONSE_UNIQUE", m, "decl"))
		}
	}
	// a type used (in a role that is not allowed) by more than one RPC
	if len(counted) >= 2 {
		for _, m := range counted {
			ex = append(ex, must("RPC_REQUEST_RESPONSE_UNIQUE", m, "decl"))
		}
	}
	return ex
}

func (c *catalogue) emptyUsageMatrix(o LintOpts, nMethods int) {
	type placement struct {
		name  string
		order []int
	}
	var fwd, rev, mid []int
	lastOfFirstService := len(c.probe.AllServices()[0].Svc.Methods) - 1
	for i := 0; i < nMethods; i++ {
		fwd = append(fwd, i)
		rev = append(rev, nMethods-1-i)
		mid = append(mid, (lastOfFirstService+i)%nMethods)
	}
	placements := []placement{{"declaration-order", fwd}, {"reverse-order", rev}, {"across-services", mid}}
	for a := 0; a <= 3; a++ {
		for b := 0; b <= 3; b++ {
			for both := 0; both <= 2; both++ {
				users := a + b + both
				if users == 0 || users > nMethods {
					continue
				}
				thoroughOnly := a > 2 || b > 2 || both > 1
				for flags := 0; flags < 4; flags++ {
					for same := 0; same < 2; same++ {
						if same == 1 && both == 0 {
							continue // rpc_allow_same_request_response has nothing to allow
						}
						opts := o
						opts.AllowEmptyReq, opts.AllowEmptyResp, opts.AllowSame = flags&1 != 0, flags&2 != 0, same == 1
						op := "rpc-empty-usage/allow-" + []string{"none", "requests", "responses", "both"}[flags]
						if same == 1 {
							op += "+same"
						}
						// coverage class: exactly one allowance, Empty shared by several RPCs, n usages left
						// that the allowance does not cover
						class := ""
						if users >= 2 && (flags == 1 || flags == 2) {
							left := a + both
							if flags == 1 {
								left = b + both
							}
							if left > 2 {
								left = 2
							}
							class = fmt.Sprintf("empty-shared/one-allowance/uncovered-usages=%d", left)
							if left == 2 {
								class += "+"
							}
						}
						for _, pm := range placements {
							c.out = append(c.out, Plant{
								Op: op, Rule: "RPC_REQUEST_RESPONSE_UNIQUE",
								Site:         fmt.Sprintf("rpcs/empty-req=%d,empty-resp=%d,empty-both=%d/%s", a, b, both, pm.name),
								Opts:         &opts,
								ThoroughOnly: thoroughOnly,
								Bulk:         true,
								Class:        class,
								Apply: func(s *Spec) []Expect {
									ms := s.AllMethods()
									for k := 0; k < users; k++ {
										x := ms[pm.order[k]]
										useEmpty(x.File)
										if k < a || k >= a+b {
											x.Method.Req = emptyType
										}
										if k >= a {
											x.Method.Resp = emptyType
										}
									}
									return emptyUsageExpect(ms, opts)
								},
							})
						}
					}
				}
			}
		}
	}
}

func useEmpty(f *File) {
	if !hasImport(f, emptyPath) {
		f.Imports = append(f.Imports, &Import{Path: emptyPath})
	}
}
