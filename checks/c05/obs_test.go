package c05

import (
	"context"
	"fmt"
	"testing"

	"github.com/bufbuild/bufverif/internal/bufx"
)

func TestObservations(t *testing.T) {
	ctx := context.Background()
	tables, _ := loadRuleTables(ctx)
	p := DefaultParams()
	for _, ver := range []string{"v1alpha", "v1beta", "v01", "v1test", "v1p1alpha"} {
		s := Build(p)
		renamePackage(s, "store.v1", "store."+ver)
		rd := s.Render()
		image, err := buildImage(ctx, rd)
		if err != nil {
			t.Fatal(err)
		}
		cfg, _ := newConfig(tables[2], "PACKAGE_VERSION_SUFFIX", p.Opts())
		anns, err := bufx.Lint(ctx, cfg.lint, image)
		fmt.Println(ver, len(anns), err)
	}
	// enum name with a digit followed by an upper-case letter + digit
	s := Build(p)
	e := s.AllEnums()[0].Enum
	e.Name = "Http2V2"
	for _, v := range e.Values {
		fmt.Println("   value", v.Name)
	}
	e.Values[0].Name = "HTTP2_V2_UNSPECIFIED"
	e.Values[1].Name = "HTTP2_V2_FIRST"
	e.Values[2].Name = "HTTP2V2_SECOND"
	rd := s.Render()
	image, err := buildImage(ctx, rd)
	if err != nil {
		t.Fatal(err)
	}
	cfg, _ := newConfig(tables[2], "ENUM_VALUE_PREFIX", p.Opts())
	anns, _ := bufx.Lint(ctx, cfg.lint, image)
	for _, a := range anns {
		fmt.Println(a.StartLine, a.Message)
	}
}
