#!/usr/bin/env python3
"""Regenerates MANIFEST.json from the table below (one entry per claimed property)."""
import json, os, subprocess
ROOT = os.path.dirname(os.path.dirname(os.path.abspath(__file__)))
props = [json.loads(l)["id"] for l in open(os.path.join(ROOT, "properties.jsonl"))]

CHECKS = {
 "C15": dict(
  level="fault_enumeration", engine="fault",
  technique="exhaustive single/double fault-position enumeration and kill-point enumeration on the real write paths",
  text="Every destination operation (put, each write incl. short write, close, rename) recorded in a fault-free run of each write path is failed one at a time (thorough: every pair) on the real code, over memory buckets and over the disk bucket's internal hook points; an atomic put is observed at, and a real subprocess SIGKILLed at, every hook point. Oracles: fault fired => error returned; nil error => destination complete; observers see old or complete new content only.",
  note="Faults are injected at the storage interfaces and the storageos hook points; crash = process death (no power-loss/fsync model). Source sets are 3 fixed small sets; write positions per object capped at 3-4.",
  design="3/C15"),
}

NOT_YET = {}

def main():
    hooks_commits = subprocess.run(["git", "-C", "/repo", "log", "--format=%h %s", "--grep=^verif hooks"], capture_output=True, text=True).stdout.strip().splitlines()
    checks = []
    for pid in props:
        c = CHECKS.get(pid)
        if not c:
            continue
        checks.append({
            "property_id": pid,
            "quick_cmd": f"scripts/check.sh {pid} quick",
            "thorough_cmd": f"scripts/check.sh {pid} thorough",
            "evidence_file": f"/verif/evidence/{pid}.json",
            "replay_cmd_template": "bin/verif replay {path}",
            "engine": c["engine"],
            "level_claimed": {"category": c["level"], "text": c["text"], "design_ref": c["design"]},
            "level_note": c["note"],
            "technique": c["technique"],
        })
    na = [{"property_id": pid, "reason": NOT_YET.get(pid, "check not built yet in this round; planned in DESIGN.md section 3 (bounded exhaustive exploration applies)")} for pid in props if pid not in CHECKS]
    m = {
        "version": 1,
        "setup_cmd": "scripts/setup.sh",
        "hooks": {
            "guard": "verif (Go build tag)",
            "enable": "go build -tags verif (scripts/build.sh builds bin/verif from /repo's working tree through the replace directive in go.mod)",
            "baseline_off_cmd": "scripts/baseline_off.sh",
            "source_commits": [l.split()[0] for l in hooks_commits],
            "add_only": True,
        },
        "engines": [
            {"name": "sched", "path": "internal/sched", "serves_properties": ["C02", "C09", "C15"], "kind_free_text": "cooperative controlled scheduler over verifhook points + deviation-bounded DFS over schedules and environment choices"},
            {"name": "fault", "path": "internal/wrap, internal/hook", "serves_properties": ["C09", "C15"], "kind_free_text": "fault/kill-point enumeration through wrapper buckets and storageos hook points"},
            {"name": "enum", "path": "internal/enum", "serves_properties": [], "kind_free_text": "bounded-exhaustive generators (odometers, subsets, permutations, digraphs)"},
        ],
        "checks": checks,
        "not_applicable": na,
        "notes": "All checks are bounded exhaustive explorations of the real code (model-checking family); see DESIGN.md. known_findings.json lists recorded defects and fixed: entries.",
    }
    json.dump(m, open(os.path.join(ROOT, "MANIFEST.json"), "w"), indent=1)
    print("claimed:", [c["property_id"] for c in checks])

main()
