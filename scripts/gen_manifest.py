#!/usr/bin/env python3
"""Regenerates MANIFEST.json from the table below (one entry per claimed property)."""
import json, os, subprocess
ROOT = os.path.dirname(os.path.dirname(os.path.abspath(__file__)))
props = [json.loads(l)["id"] for l in open(os.path.join(ROOT, "properties.jsonl"))]

CHECKS = {
 "C15": dict(
  level="fault_enumeration", engine="fault",
  technique="exhaustive single/double fault-position enumeration (x kinds of error value, x really cancelled contexts), kill-point enumeration (hook points and single system calls) on the real write paths, and exhaustive enumeration of the interleavings of overlapping atomic puts",
  text="Every destination operation (put, each write incl. short write, close, rename) recorded in a fault-free run of each write path is failed one at a time (thorough: every pair) on the real code, over memory buckets and over the disk bucket's internal hook points; an atomic put is observed at, and a real subprocess SIGKILLed at, every hook point. Oracles: fault fired => error returned; nil error => destination complete; observers see old or complete new content only. Added later: every single failure is also injected with each of six kinds of error value (plain, ENOENT, EEXIST, ENOSPC, EOF, cancelled) and as a really cancelled context; atomic puts whose rename fails in the kernel (final name occupied by a directory); image output streams (plain, gzip, zstd) that are full after k bytes for every k; every interleaving of the Put/Write/Write/Close steps of 2-3 writers putting the same object atomically, including writers that die before Close, with a reader after every step; single-system-call kill points under strace.",
  note="Faults are injected at the storage interfaces and the storageos hook points; crash = process death (no power-loss/fsync model). Source sets are 3 fixed small sets; write positions per object capped at 3-4.",
  design="3/C15"),
}

CHECKS["C13"] = dict(
  level="exploration", engine="enum",
  technique="bounded-exhaustive enumeration of path strings x bucket shapes x operations (and archive entry kinds) on the real buckets with sentinels, against a lexical reference model; all operation histories up to depth 3 on disk buckets with relative roots, observed between Put, Write and Close",
  text="Every path string of 1..3 (thorough 4) components over {a . .. '' a.b ..a ...} with optional leading/trailing slash is applied with every operation (Get, Stat, Walk, Put, atomic Put, Delete, DeleteAll, CopyPath, Copy into a sub-view) to 14 bucket shapes (disk with/without symlink support, memory, prefix views of depth 1-2, chained mappers, filter, union, overlay, strip, limit), as tar/zip entry names with strip 0..2, and as plugin response file names; sentinels outside every root must stay byte-identical, no read may return sentinel data, and every name that the reference stack machine says escapes or is absolute must be rejected. Added later: archive entries of five kinds carry the names; every operation history of length <=3 over 13 operations on disk buckets whose root is given as absolute, relative and ./-relative path is observed after every step and between Put, Write and Close, with $TMPDIR inside the watched area; git clones of a repository with checked-in links to the outside.",
  note="Component alphabet and length are bounded; no symlinks pointing outside the root in the fixture; unix path semantics only.",
  design="3/C13")
CHECKS["C14"] = dict(
  level="model_checking", engine="statex",
  technique="explicit-state BFS over a reference map model; every transition replayed on fresh real buckets with a full observation menu; plus depth-bounded sequence enumeration, also on long-lived union/overlay views over live members",
  text="All 256 states of the reference model (4-path prefix-free universe x {absent, empty, 1 byte, 70 KiB}) are reached by BFS with every operation of the alphabet; each of the model transitions is replayed on each of 12 writable implementations/combinators along the shortest model path and the complete observation menu (Get/Stat of 5 spellings per path, non-object paths, Walk of 10 prefixes incl. file-equal and string-prefix-colliding ones) is compared. Every model state is also materialised through tar/zip round trips, copies between kinds and filters; union/overlay duplicates are checked in every state. Added later: all subsets of size <=2 of 24 unusual names (temp-like, hidden, siblings sorting around '/') through 16 transfer routes with walks of every directory prefix and CopyPath to a different name between kinds; every sequence of <=3 (thorough 4) puts/deletes on the two live members of long-lived union and overlay views, observed after every step.",
  note="Universe is prefix-free (documented orphan-directory behaviour of the disk bucket is outside the quantifier); ObjectInfo.Path() is compared up to normalisation.",
  design="3/C14")

CHECKS["C09"] = dict(
  level="fault_enumeration", engine="sched",
  technique="exhaustive crash-point, fault-position, tampering enumeration plus delay-bounded exhaustive schedule exploration of store/load processes under a controlled scheduler; explicit-state enumeration of cache states x multi-key requests x two-request histories through the caching providers; second reader started at every storage operation of the lazy digest verification",
  text="The real module data store (dir and tar layouts) on a real directory: (1) the directory is snapshotted at every storage step and disk hook point of a store and every snapshot is recovered from (load in all accessor orders, store again, load), plus real SIGKILLs of a subprocess at every hook point; (2) every single (thorough: pair of) failing put/close/disk write/short write/rename/lock operation; (3) store/load 'processes' with separate store objects sharing the directory and a reader-writer lock table run as threads of a cooperative scheduler: every schedule with at most 3 (thorough 4) deviations from the default schedule, also starting from a crashed directory and with an injected write failure as an environment choice, oracle at every load and on the quiescent state; (4) every single-file tampering of a complete entry incl. every byte of module.yaml, and of a commit-store entry (every byte, every well-formed document with one field removed/blanked, swapped digest type) through both lookup routes. Oracle: a load is a miss, exactly the pinned content (files, dependency digests, v1 side files), or an error - never other content; failed/interrupted stores are repaired by a later store; an acknowledged store leaves a loadable entry. Added later: (5) cache histories: 8 cache states x 15 ordered selections of 1..3 keys x two-request histories through the caching module-data and commit providers, the i-th value must be the content pinned by the i-th key; (6) the retry of every failed store by the same store object; (7) two readers of one loaded ModuleData of a tampered entry, the second started at every storage operation of the first one's lazy digest verification.",
  note="Crash = process death (directory content at that instant; no fsync/power-loss model). Processes are goroutines with separate objects; scheduling points are bucket-level operations and lock operations (writes into private temp files are invisible and not points); delay bounding rather than full preemption bounding; the real flock locker is checked separately for the RW semantics the lock table assumes.",
  design="3/C09")
CHECKS["C19"] = dict(
  level="model_checking", engine="enum",
  technique="every sentence of a reference grammar model (BUF_TOKEN strings, netrc entry sequences, request hosts) up to a length bound replayed on the real token providers, interceptor chain and CLI; exhaustive interleavings of Make calls on a shared config; .netrc put/delete histories against a reference model of the file",
  text="All BUF_TOKEN strings up to length 7 (thorough 9) over {t,u,h,:,@,','} and over a host-symbol alphabet, all netrc entry sequences of <=4 entries in 3 layouts, all request hosts from a derived menu are evaluated by a reference model (recogniser + generator cross-checked) and replayed on NewTokenProviderFromContainer/String, the netrc provider, the authorization interceptor through connectclient.Make with a recording in-process HTTP client, and `buf registry whoami` against loopback registries. Oracle: header present iff the model configures that host, with that token; never a token of another host; malformed strings rejected as a whole; env beats netrc; first duplicate wins. Added later: every interleaving of 2-3 threads (Make for a host on one shared Config, then one request) at the stub-factory and transport seams; the .netrc file as state: put/delete histories up to depth 3 (4) at API level and login/logout histories through the CLI against a reference model of the file.",
  note="Host comparison is exact-string; alphabet has no whitespace/non-ASCII; TLS off in the CLI phase; one case the documentation leaves open (duplicated host) accepts either behaviour.",
  design="3/C19")

CHECKS["C02"] = dict(
  level="exploration", engine="joborder",
  technique="exhaustive enumeration of owned nondeterminism: all job orders of each thread.Parallelize call, walk-order permutations, map-iteration seeds via a runtime overlay, parallelism grid, listing orders of modules/rules/plugins/paths, module directories, commit-cache histories; byte equality with the baseline execution",
  text="Fifteen API output functions (serialized image, lint text, breaking text, format+diff, exact error text of two failing format jobs, breaking v1 with overlapping ignore_only, file listing, dependency graph + digests + image with four pinned commits of one remote module, the same through 16 partially warm commit caches, dependency shapes with unnamed modules in all directory assignments, module digests, type-filtered images, lint with two in-process plugins, lint with a failing plugin, overlapping --path values in all 24 orders) and six in-process CLI commands are re-executed at every point of each nondeterminism dimension the harness owns: every execution order of the jobs of every thread.Parallelize call seen (all n! up to 4 jobs, else reverse/rotations/adjacent swaps; also at parallelism 2 where the check server chunks files), reverse/rotation/swap/24-permutation/single-call perturbations of every storage Walk, Go map iteration seeds 0..63 (settable through a build-time overlay of runtime/map.go), the GOMAXPROCS x thread-parallelism grid, and permutations of listed modules, rule ids and dependency pins. Every output must be byte-identical to the baseline.",
  note="Scheduling inside protocompile and inside the in-process bufplugin check server is not controlled; the map-seed sweep rotates all maps alike; multiClient.Check has a single delegate in these scenarios (no second plugin).",
  design="3/C02")

CHECKS["C06"] = dict(
  level="exploration", engine="enum",
  technique="bounded-exhaustive enumeration of buf.yaml configurations against a set-algebra reference model, plus monotonicity on observed pairs",
  text="Every configuration of a grid (use = subsets of size <=2 of a 12-id menu incl. categories and deprecated ids, except <=1, ignore in {file, directory, import file, string-prefix trap}, ignore_only, comment-ignore placements x id texts x allow on/off, versions v1beta1/v1/v2, exclude-imports) is written as buf.yaml text, parsed by buf and run through Lint / Breaking / ConfiguredRules; the result must equal the union of the singleton results of the selected rules minus exactly the suppressed annotations as computed by an independent reference model; adding a suppression must not add an annotation nor remove one outside its scope; every single-character corruption of six ids must be rejected; MINIMAL within BASIC within STANDARD; deprecated ids equal their replacements.",
  note="One fixture image per kind; rule tables (categories, deprecations) are read from AllRules and trusted apart from the nesting/replacement checks; use/except subsets no larger than 2; plugins and multi-module configs not covered.",
  design="3/C06")
CHECKS["C12"] = dict(
  level="exploration", engine="enum",
  technique="bounded-exhaustive enumeration of (image, include set, exclude set, options) on bufimageutil.FilterImage against an independent closure model and link/diff/comment/idempotence oracles",
  text="19 catalogue images covering every reference kind (fields, maps, oneofs, groups, nested types, extensions and extendees, custom options on every descriptor kind incl. Any payloads, RPC types, public import chains, type-less files, weak imports, second package) x every include and exclude set with |include|<=1,|exclude|<=1 plus selected pairs (thorough <=2 each) over all names of the image x option combinations. Oracles: the result links (protodesc), contains every included element with its closure (lower bound) and nothing outside the upper bound, contains no excluded element nor a reference to one, surviving elements equal the original except dropped members, comments stay on the same element (by name), filters made of existing non-contradictory names do not fail, F(F(I)) = F(I), in-place equals copying.",
  note="FilterImage seam only (CLI --type/--exclude-type and buf generate types: not driven); set sizes above 2 not explored; one recorded known finding (weak-import source locations).",
  design="3/C12")

CHECKS["C05"] = dict(
  level="exploration", engine="enum",
  technique="bounded-exhaustive planting of one violation per built-in lint rule at every applicable element of clean-by-construction workspaces, with positions computed by an independent renderer",
  text="A family of workspaces that follow every lint category by construction must produce no annotation in any category/version/option setting it is built for; a catalogue of 155 planting operators (>=1 per non-deprecated built-in rule, incl. PROTOVALIDATE basics) is applied at every applicable site (top level, nested 1 and 2, second file, second package); the result must contain exactly that rule's id at the offending element's own anchor token (line:column computed by the harness renderer), the declared collateral annotations, and nothing else; each result is also checked with the planted rule deselected; 45 cases are bound to `buf lint --error-format=json`.",
  note="Rule tables (categories) are read from AllRules; the catalogue is a finite reading of the rule documentation; groups, options on services/enums, tabs/CRLF and CEL rules are not generated.",
  design="3/C05")
CHECKS["C07"] = dict(
  level="exploration", engine="enum",
  technique="bounded-exhaustive decoration of every token gap of a seed corpus (single decorations, thorough: adjacent pairs) through the real formatter, with parser/descriptor/comment/idempotence oracles that never call the formatter",
  text="59 seeds (53 bufformat testdata inputs + 6 hand-written covering every node kind); for every token gap and each of 12 decorations (line/block/own-line/two-line comments, blank line, empty statement, whitespace removal, ...) the variant is formatted. Oracles: no panic, output parses, unlinked descriptors equal (imports as sets, same-name options keep order, aggregate values canonicalised), comment multiset preserved, protoc-attributed leading/trailing comments stay on the same declaration, format(format(x)) == format(x); CLI `buf format`, `-d --exit-code`, `-w` per seed.",
  note="Lexical variety is the decoration alphabet over the seed corpus (<=2 decorations per text); 13 formatter defects are recorded as known findings with root-cause signatures, one was repaired.",
  design="3/C07")
CHECKS["C08"] = dict(
  level="exploration", engine="enum",
  technique="bounded-exhaustive enumeration of file sets, backends, walk orders, dependency DAGs and single perturbations against an independent SHAKE256 reference digest",
  text="All subsets of <=3 (thorough 4) paths of a 14-path universe x 3 contents through local/remote modules, memory/disk/tar/zip/module-cache backends, every Walk permutation, names, targeting and v1 side files must give the reference b4/b5 digest (own x/crypto/sha3 implementation of the published construction); every single content/path/dependency-digest perturbation must change it and every non-module-file perturbation must not; all DAGs on <=3 modules with local/remote assignments; manifest text of <=3-path sets over a 20-path universe (spaces, tabs, unicode, newline) must equal the reference rendering and parse back equal.",
  note="buf.lock lines written by the CLI are not observed; module cache on memory bucket (disk/locks are C09); one known finding (newline in a path).",
  design="3/C08")
CHECKS["C11"] = dict(
  level="exploration", engine="enum",
  technique="bounded-exhaustive enumeration of encodings x compressions x flag subsets, source packagings and --path/--exclude-path selections through the in-process CLI, comparing the image route with the source route and a targeting reference model",
  text="9 (thorough 20) hand-written workspaces (custom and extension options incl. Any payloads, source info, two named modules, WKT imports, unknown fields) are built and written in {binpb,json,txtpb,yaml} x {none,gzip,zstd} x every subset of {--exclude-imports, --exclude-source-info, --as-file-descriptor-set}, read back and compared (proto.Equal modulo the flags' documented effect, decoded with protobuf-go only); dir/tar/tar.gz/zip/buf-export packagings must build equal images; for every (P,X) with |P|,|X|<=2 over files and directories (no path inside an exclude) build, lint and breaking on the image must equal the run on the sources.",
  note="Workspaces are hand-written; no remote modules; four recorded known-finding signatures (Any option with --exclude-imports, yaml.v3 leading newline, unused_dependency on the directory route).",
  design="3/C11")
CHECKS["C16"] = dict(
  level="exploration", engine="enum",
  technique="t-way exhaustive (2-way quick, 3-way thorough) enumeration of configuration documents over per-feature dimensions with a deep accessor-dump round-trip oracle; exhaustive migration of generated v1/v1beta1 workspaces compared before/after through build, lint and breaking",
  text="buf.yaml (12 frames x 21-28 feature dimensions), buf.lock (900 documents with real digests), buf.work.yaml (1640), buf.gen.yaml (v1beta1/v1/v2: managed sections, every input and plugin kind) are read, written, read: every accessor (dirs, includes, excludes, effective lint/breaking incl. Disabled(), deps, plugins, digests, generate configs) must be equal and writing must be byte-idempotent. 396 (thorough 2011) generated v1/v1beta1 workspaces are migrated with bufmigrate on memory buckets: per original module same file set, proto.Equal descriptors, identical lint and breaking annotation sets.",
  note="The document grammar is t-way, not the full product; no reference model of reader semantics (round trip and before/after differential only); nine recorded known-finding signatures (disabled check configs, buf.gen.yaml type filters, v1beta1-only ids).",
  design="3/C16")
CHECKS["C18"] = dict(
  level="exploration", engine="enum",
  technique="bounded-exhaustive enumeration of managed-mode configurations (override sequences x disable sets per option family, cross-family, v1 and v2 forms) on bufimagemodify.Modify against a reference precedence model with differential defaults",
  text="For 4 fixture images every configuration of: enabled on/off x every sequence of <=2 (thorough 3) override rules x every set of <=2 disable rules per governed option family (all file options with value/prefix/suffix forms, field option jstype), a cross-family block and buf.gen.yaml v1 forms is parsed by buf and applied. Reference model: only governed options of non-WKT, non-exempted files change; value = last matching override else the default observed under the rule-free configuration; disabled leaves the input value; everything else proto.Equal; removed source locations = exactly the rewritten options' paths; managed disabled = identical image.",
  note="Default formulas are checked by literals on the fixture files only; Modify seam only (buf generate end-to-end not driven).",
  design="3/C18")
CHECKS["C20"] = dict(
  level="exploration", engine="enum",
  technique="bounded-exhaustive enumeration of annotation sets over a hostile-text alphabet through all printers with independent parsers, and of planted-problem workspaces x commands x error formats through the in-process CLI",
  text="Part A: every file x message string of <=3 fragments over {a \" < & LF % , :: e-acute} (+CR), positions {0,1,12}^4, and every ordered tuple of <=3 annotations from a colliding pool are rendered in text/json/msvs/junit/github-actions and parsed back by the harness's own parsers (JSON lines, encoding/xml, line grammars, the workflow-command grammar with its escaping rules): same list, same order, equal on every field the format carries. Part B: build, lint, breaking, format --exit-code (-d) x every error format on workspaces with 0..3 planted lint/breaking/compile/format problems in 8 directory names and 10 operational-error situations: exit 0 iff nothing printed, 100 iff annotations/missing import/diff, other non-zero for operational errors, equal across formats.",
  note="text/msvs sets containing a newline are skipped (no escape in those grammars); single-module workspaces; planted sets n<=3.",
  design="3/C20")

CHECKS["C01"] = dict(
  level="exploration", engine="enum",
  technique="bounded-exhaustive enumeration of file-level import DAGs x module assignments x target selections through the workspace builder and the CLI, against a reference targeting model and a direct protocompile compilation of the same texts",
  text="All labelled DAGs on <=3 files (thorough 4) with plain/public edges, optional used/unused WKT imports, assignments to <=2 modules plus a pinned registry dependency, every module/--path/--exclude-path selection (|paths|<=2, |excludes|<=1) and the syntax of a distinguished file in {proto2, proto3, editions, unspecified} are built through bufworkspace+bufimage and `buf build -o -`; the image must contain exactly targets plus transitive imports, each once, imports before importers, IsImport iff not targeted, per-file descriptors incl. source info equal to a bare protocompile compile, unused-import and unspecified-syntax markers as the direct compiler warns, owner module name/commit, WKTs from datawkt unless supplied. For six base workspaces every single-token deletion and duplication: either it still compiles or there is no image and annotations carry the user's path and the direct compiler's line:column.",
  note="Bounds: <=4 files, <=2 modules + one registry dependency, directory depth 2; the compiler is trusted as the oracle; root order among independent targets is C02's.",
  design="3/C01")
CHECKS["C03"] = dict(
  level="exploration", engine="enum",
  technique="bounded-exhaustive application of an edit-operator catalogue (>=1 operator per breaking rule, full ordered-pair field-type table) at every applicable position of generated schemas, x categories x single rules x config versions",
  text="Three bases (proto2, proto3, edition 2023; four files; the same body at top level, nested once, nested twice, second file) x 43 edit operators incl. every ordered pair of 17-18 field kinds (7.5k instances quick, 14.5k thorough) x surroundings {none, additive before, additive after} x configs {all four categories, each category, each expected single rule} x buf.yaml v1beta1/v1/v2: whenever the documented rule is active the result must contain an annotation with that rule id whose message names the edited element and whose file and start line are the element's. Rule-to-category membership is an independent transcription of the documentation cross-checked against AllRules.",
  note="The catalogue is a finite reading of the rule documentation; lines are checked, columns not; one recorded known finding (editions LEGACY_REQUIRED).",
  design="3/C03")
CHECKS["C04"] = dict(
  level="exploration", engine="enum",
  technique="bounded-exhaustive enumeration of cosmetic renderings, additive edit chains (every S_i against every earlier S_j) and arbitrary edit pairs for the category hierarchy, x categories x config versions",
  text="(a) identity, all ordered pairs of 8 cosmetic renderings, and all chains of length <=2 (thorough 3) over 23 additive operators at an index-shifting site must report nothing in FILE, PACKAGE, WIRE_JSON, WIRE under v1beta1/v1/v2; (b) for every (old,new) pair of the C03 catalogue and ordered pairs of edited schemas: clean(FILE) => clean(PACKAGE) => clean(WIRE_JSON) => clean(WIRE).",
  note="Chains stop at length 2 (3 over 12 core operators in thorough); edit pairs capped at 28/60 edited schemas per base.",
  design="3/C04")
CHECKS["C17"] = dict(
  level="exploration", engine="enum",
  technique="bounded-exhaustive enumeration of images x generation options on the request builders, of response file names x insertion kinds on the response writer with sentinels, and of both through `buf generate` with a recording plugin",
  text="(A) images from file DAGs on <=3 (thorough 4) files over <=3 directories x strategy {all, directory} x include_imports x include_wkt x type filters: across all requests to one plugin every target appears in file_to_generate exactly once, imports/WKTs only when requested and once, proto_file closed under imports and ordered, source-retention options kept in source_file_descriptors and stripped from proto_file. (B) response file names from the C13 path alphabet x {plain, insertion into a file of this run / a previous run / the other plugin} x 1-2 plugins with shared or separate outs (dir, zip, jar): everything outside each out unchanged, insertion into a file not produced in this run is an error, the same path from two plugins is an error (all spellings of the out). (C) both halves through in-process `buf generate` with a recording/scripted protoc-gen-verif built at check start.",
  note="Remote and protoc_builtin plugins, --clean, multi-module workspaces not covered; n=4 uses the 127 monotone labellings.",
  design="3/C17")

CHECKS["C10"] = dict(
  level="exploration", engine="enum",
  technique="bounded-exhaustive enumeration of module-level import digraphs x node kinds x config versions x targets on the real workspace builder with an in-process registry, against a reference reachability model",
  text="All digraphs on <=3 module nodes (thorough: also all 4096 on 4 nodes with restricted kind vectors) incl. cycles and diamonds x node kinds {local unnamed, local named, remote pinned, local + pinned} x {v1 buf.work.yaml + buf.yaml/buf.lock, v2 buf.yaml + buf.lock} x targets {workspace, module dir, proto-file ref, --path file, --path subdir}, two-commit variants, shared-directory layouts (includes/excludes, v1beta1 roots), duplicate-path and missing-import plants: the module set contains every node once (local beats pinned, newest commit wins), ModuleDeps = reachable minus self with IsDirect iff first hop, a module on a cycle and `dep graph` over a cycle error, ModuleSetToDAG / `buf dep graph` nodes and edges exact, image files = targets plus import closure with the right owner, `buf ls-files --include-imports` = image file list, duplicate and missing paths are the specific errors (CLI exit 100).",
  note="Remote modules cannot go through the CLI offline (CLI families use local kinds only); n=4 with restricted kind vectors; equal create times are C02's business.",
  design="3/C10")

NOT_YET = {}

def main():
    hooks_commits = subprocess.run(["git", "-C", "/repo", "log", "--format=%h %s", "--grep=^verif hooks"], capture_output=True, text=True).stdout.strip().splitlines()
    checks = []
    for pid in props:
        c = CHECKS.get(pid)
        if not c:
            continue
        checks.append({
            "property_id": pid,
            "quick_cmd": f"scripts/check.sh {pid} quick",
            "thorough_cmd": f"scripts/check.sh {pid} thorough",
            "evidence_file": f"/verif/evidence/{pid}.json",
            "replay_cmd_template": "bin/verif replay {path}",
            "engine": c["engine"],
            "level_claimed": {"category": c["level"], "text": c["text"], "design_ref": c["design"]},
            "level_note": c["note"],
            "technique": c["technique"],
        })
    na = [{"property_id": pid, "reason": NOT_YET.get(pid, "check not built yet in this round; planned in DESIGN.md section 3 (bounded exhaustive exploration applies)")} for pid in props if pid not in CHECKS]
    m = {
        "version": 1,
        "setup_cmd": "scripts/setup.sh",
        "hooks": {
            "guard": "verif (Go build tag)",
            "enable": "go build -tags verif (scripts/build.sh builds bin/verif from /repo's working tree through the replace directive in go.mod)",
            "baseline_off_cmd": "scripts/baseline_off.sh",
            "source_commits": [l.split()[0] for l in hooks_commits],
            "add_only": True,
        },
        "engines": [
            {"name": "sched", "path": "internal/sched", "serves_properties": ["C02", "C09", "C15"], "kind_free_text": "cooperative controlled scheduler over verifhook points + deviation-bounded DFS over schedules and environment choices"},
            {"name": "joborder", "path": "internal/joborder, overlay/", "serves_properties": ["C02"], "kind_free_text": "enumerates the execution orders of thread.Parallelize jobs through the verifhook seam; runtime map-seed overlay"},
            {"name": "fault", "path": "internal/wrap, internal/hook", "serves_properties": ["C09", "C15"], "kind_free_text": "fault/kill-point enumeration through wrapper buckets and storageos hook points"},
            {"name": "statex", "path": "checks/c14", "serves_properties": ["C14"], "kind_free_text": "explicit-state BFS over a Go reference model, each transition replayed on a fresh real instance"},
            {"name": "enum", "path": "internal/enum", "serves_properties": ["C13"], "kind_free_text": "bounded-exhaustive generators (odometers, subsets, permutations, digraphs)"},
        ],
        "checks": checks,
        "not_applicable": na,
        "notes": "All checks are bounded exhaustive explorations of the real code (model-checking family); see DESIGN.md. known_findings.json lists recorded defects and fixed: entries.",
    }
    json.dump(m, open(os.path.join(ROOT, "MANIFEST.json"), "w"), indent=1)
    print("claimed:", [c["property_id"] for c in checks])

main()
