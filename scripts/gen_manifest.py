#!/usr/bin/env python3
"""Regenerates MANIFEST.json from the table below (one entry per claimed property)."""
import json, os, subprocess
ROOT = os.path.dirname(os.path.dirname(os.path.abspath(__file__)))
props = [json.loads(l)["id"] for l in open(os.path.join(ROOT, "properties.jsonl"))]

CHECKS = {
 "C15": dict(
  level="fault_enumeration", engine="fault",
  technique="exhaustive single/double fault-position enumeration and kill-point enumeration on the real write paths",
  text="Every destination operation (put, each write incl. short write, close, rename) recorded in a fault-free run of each write path is failed one at a time (thorough: every pair) on the real code, over memory buckets and over the disk bucket's internal hook points; an atomic put is observed at, and a real subprocess SIGKILLed at, every hook point. Oracles: fault fired => error returned; nil error => destination complete; observers see old or complete new content only.",
  note="Faults are injected at the storage interfaces and the storageos hook points; crash = process death (no power-loss/fsync model). Source sets are 3 fixed small sets; write positions per object capped at 3-4.",
  design="3/C15"),
}

CHECKS["C13"] = dict(
  level="exploration", engine="enum",
  technique="bounded-exhaustive enumeration of path strings x bucket shapes x operations on the real buckets with sentinels, against a lexical reference model",
  text="Every path string of 1..3 (thorough 4) components over {a . .. '' a.b ..a ...} with optional leading/trailing slash is applied with every operation (Get, Stat, Walk, Put, atomic Put, Delete, DeleteAll, CopyPath, Copy into a sub-view) to 14 bucket shapes (disk with/without symlink support, memory, prefix views of depth 1-2, chained mappers, filter, union, overlay, strip, limit), as tar/zip entry names with strip 0..2, and as plugin response file names; sentinels outside every root must stay byte-identical, no read may return sentinel data, and every name that the reference stack machine says escapes or is absolute must be rejected.",
  note="Component alphabet and length are bounded; no symlinks pointing outside the root in the fixture; unix path semantics only.",
  design="3/C13")
CHECKS["C14"] = dict(
  level="model_checking", engine="statex",
  technique="explicit-state BFS over a reference map model; every transition replayed on fresh real buckets with a full observation menu; plus depth-bounded sequence enumeration",
  text="All 256 states of the reference model (4-path prefix-free universe x {absent, empty, 1 byte, 70 KiB}) are reached by BFS with every operation of the alphabet; each of the model transitions is replayed on each of 12 writable implementations/combinators along the shortest model path and the complete observation menu (Get/Stat of 5 spellings per path, non-object paths, Walk of 10 prefixes incl. file-equal and string-prefix-colliding ones) is compared. Every model state is also materialised through tar/zip round trips, copies between kinds and filters; union/overlay duplicates are checked in every state.",
  note="Universe is prefix-free (documented orphan-directory behaviour of the disk bucket is outside the quantifier); ObjectInfo.Path() is compared up to normalisation.",
  design="3/C14")

CHECKS["C09"] = dict(
  level="fault_enumeration", engine="sched",
  technique="exhaustive crash-point, fault-position, tampering enumeration plus delay-bounded exhaustive schedule exploration of store/load processes under a controlled scheduler",
  text="The real module data store (dir and tar layouts) on a real directory: (1) the directory is snapshotted at every storage step and disk hook point of a store and every snapshot is recovered from (load in all accessor orders, store again, load), plus real SIGKILLs of a subprocess at every hook point; (2) every single (thorough: pair of) failing put/close/disk write/short write/rename/lock operation; (3) store/load 'processes' with separate store objects sharing the directory and a reader-writer lock table run as threads of a cooperative scheduler: every schedule with at most 3 (thorough 4) deviations from the default schedule, also starting from a crashed directory and with an injected write failure as an environment choice, oracle at every load and on the quiescent state; (4) every single-file tampering of a complete entry incl. every byte of module.yaml. Oracle: a load is a miss, exactly the pinned content (files, dependency digests, v1 side files), or an error - never other content; failed/interrupted stores are repaired by a later store; an acknowledged store leaves a loadable entry.",
  note="Crash = process death (directory content at that instant; no fsync/power-loss model). Processes are goroutines with separate objects; scheduling points are bucket-level operations and lock operations (writes into private temp files are invisible and not points); delay bounding rather than full preemption bounding; the real flock locker is checked separately for the RW semantics the lock table assumes.",
  design="3/C09")
CHECKS["C19"] = dict(
  level="model_checking", engine="enum",
  technique="every sentence of a reference grammar model (BUF_TOKEN strings, netrc entry sequences, request hosts) up to a length bound replayed on the real token providers, interceptor chain and CLI",
  text="All BUF_TOKEN strings up to length 7 (thorough 9) over {t,u,h,:,@,','} and over a host-symbol alphabet, all netrc entry sequences of <=4 entries in 3 layouts, all request hosts from a derived menu are evaluated by a reference model (recogniser + generator cross-checked) and replayed on NewTokenProviderFromContainer/String, the netrc provider, the authorization interceptor through connectclient.Make with a recording in-process HTTP client, and `buf registry whoami` against loopback registries. Oracle: header present iff the model configures that host, with that token; never a token of another host; malformed strings rejected as a whole; env beats netrc; first duplicate wins.",
  note="Host comparison is exact-string; alphabet has no whitespace/non-ASCII; TLS off in the CLI phase; two cases the documentation leaves open (':' in an entry token, duplicated host) accept either behaviour.",
  design="3/C19")

CHECKS["C02"] = dict(
  level="exploration", engine="joborder",
  technique="exhaustive enumeration of owned nondeterminism: all job orders of each thread.Parallelize call, walk-order permutations, map-iteration seeds via a runtime overlay, parallelism grid, listing orders; byte equality with the baseline execution",
  text="Eight output functions (serialized image, lint text, breaking text, format+diff, file listing, dependency graph + digests + image with four pinned commits of one remote module, module digests, type-filtered images) are re-executed at every point of each nondeterminism dimension the harness owns: every execution order of the jobs of every thread.Parallelize call seen (all n! up to 4 jobs, else reverse/rotations/adjacent swaps; also at parallelism 2 where the check server chunks files), reverse/rotation/swap/24-permutation/single-call perturbations of every storage Walk, Go map iteration seeds 0..63 (settable through a build-time overlay of runtime/map.go), the GOMAXPROCS x thread-parallelism grid, and permutations of listed modules, rule ids and dependency pins. Every output must be byte-identical to the baseline.",
  note="Scheduling inside protocompile and inside the in-process bufplugin check server is not controlled; the map-seed sweep rotates all maps alike; multiClient.Check has a single delegate in these scenarios (no second plugin).",
  design="3/C02")

CHECKS["C06"] = dict(
  level="exploration", engine="enum",
  technique="bounded-exhaustive enumeration of buf.yaml configurations against a set-algebra reference model, plus monotonicity on observed pairs",
  text="Every configuration of a grid (use = subsets of size <=2 of a 12-id menu incl. categories and deprecated ids, except <=1, ignore in {file, directory, import file, string-prefix trap}, ignore_only, comment-ignore placements x id texts x allow on/off, versions v1beta1/v1/v2, exclude-imports) is written as buf.yaml text, parsed by buf and run through Lint / Breaking / ConfiguredRules; the result must equal the union of the singleton results of the selected rules minus exactly the suppressed annotations as computed by an independent reference model; adding a suppression must not add an annotation nor remove one outside its scope; every single-character corruption of six ids must be rejected; MINIMAL within BASIC within STANDARD; deprecated ids equal their replacements.",
  note="One fixture image per kind; rule tables (categories, deprecations) are read from AllRules and trusted apart from the nesting/replacement checks; use/except subsets no larger than 2; plugins and multi-module configs not covered.",
  design="3/C06")
CHECKS["C12"] = dict(
  level="exploration", engine="enum",
  technique="bounded-exhaustive enumeration of (image, include set, exclude set, options) on bufimageutil.FilterImage against an independent closure model and link/diff/comment/idempotence oracles",
  text="19 catalogue images covering every reference kind (fields, maps, oneofs, groups, nested types, extensions and extendees, custom options on every descriptor kind incl. Any payloads, RPC types, public import chains, type-less files, weak imports, second package) x every include and exclude set with |include|<=1,|exclude|<=1 plus selected pairs (thorough <=2 each) over all names of the image x option combinations. Oracles: the result links (protodesc), contains every included element with its closure (lower bound) and nothing outside the upper bound, contains no excluded element nor a reference to one, surviving elements equal the original except dropped members, comments stay on the same element (by name), filters made of existing non-contradictory names do not fail, F(F(I)) = F(I), in-place equals copying.",
  note="FilterImage seam only (CLI --type/--exclude-type and buf generate types: not driven); set sizes above 2 not explored; one recorded known finding (weak-import source locations).",
  design="3/C12")

NOT_YET = {}

def main():
    hooks_commits = subprocess.run(["git", "-C", "/repo", "log", "--format=%h %s", "--grep=^verif hooks"], capture_output=True, text=True).stdout.strip().splitlines()
    checks = []
    for pid in props:
        c = CHECKS.get(pid)
        if not c:
            continue
        checks.append({
            "property_id": pid,
            "quick_cmd": f"scripts/check.sh {pid} quick",
            "thorough_cmd": f"scripts/check.sh {pid} thorough",
            "evidence_file": f"/verif/evidence/{pid}.json",
            "replay_cmd_template": "bin/verif replay {path}",
            "engine": c["engine"],
            "level_claimed": {"category": c["level"], "text": c["text"], "design_ref": c["design"]},
            "level_note": c["note"],
            "technique": c["technique"],
        })
    na = [{"property_id": pid, "reason": NOT_YET.get(pid, "check not built yet in this round; planned in DESIGN.md section 3 (bounded exhaustive exploration applies)")} for pid in props if pid not in CHECKS]
    m = {
        "version": 1,
        "setup_cmd": "scripts/setup.sh",
        "hooks": {
            "guard": "verif (Go build tag)",
            "enable": "go build -tags verif (scripts/build.sh builds bin/verif from /repo's working tree through the replace directive in go.mod)",
            "baseline_off_cmd": "scripts/baseline_off.sh",
            "source_commits": [l.split()[0] for l in hooks_commits],
            "add_only": True,
        },
        "engines": [
            {"name": "sched", "path": "internal/sched", "serves_properties": ["C02", "C09", "C15"], "kind_free_text": "cooperative controlled scheduler over verifhook points + deviation-bounded DFS over schedules and environment choices"},
            {"name": "joborder", "path": "internal/joborder, overlay/", "serves_properties": ["C02"], "kind_free_text": "enumerates the execution orders of thread.Parallelize jobs through the verifhook seam; runtime map-seed overlay"},
            {"name": "fault", "path": "internal/wrap, internal/hook", "serves_properties": ["C09", "C15"], "kind_free_text": "fault/kill-point enumeration through wrapper buckets and storageos hook points"},
            {"name": "statex", "path": "checks/c14", "serves_properties": ["C14"], "kind_free_text": "explicit-state BFS over a Go reference model, each transition replayed on a fresh real instance"},
            {"name": "enum", "path": "internal/enum", "serves_properties": ["C13"], "kind_free_text": "bounded-exhaustive generators (odometers, subsets, permutations, digraphs)"},
        ],
        "checks": checks,
        "not_applicable": na,
        "notes": "All checks are bounded exhaustive explorations of the real code (model-checking family); see DESIGN.md. known_findings.json lists recorded defects and fixed: entries.",
    }
    json.dump(m, open(os.path.join(ROOT, "MANIFEST.json"), "w"), indent=1)
    print("claimed:", [c["property_id"] for c in checks])

main()
