#!/bin/bash
# usage: scripts/run_seeds.sh [seed-dir-name ...]   (default: every /verif/seeded/*)
# Runs every stored seeded change against the quick check of the property it breaks (scratch worktree, never /repo)
# and writes /verif/seeded/RESULTS.tsv: seed <tab> property <tab> exit <tab> violations <tab> first signature
cd "$(dirname "$0")/.."
seeds=("$@"); [ ${#seeds[@]} -eq 0 ] && seeds=($(ls seeded | grep -E '^C[0-9]+(-r[0-9]+)?-m[0-9]+$'))
tmp=$(mktemp)
for s in "${seeds[@]}"; do
  prop=$(python3 -c "import json;print(json.load(open('seeded/$s/meta.json'))['property'])")
  extra=""
  # a seed may also be visible to a sibling property's check
  case $prop in C03) extra="C04";; C04) extra="C03";; esac
  out=$(VERIF_BUDGET_S=${VERIF_BUDGET_S:-900} SHOW=2 scripts/try_seed.sh "seeded/$s/patch.diff" quick $prop $extra 2>&1)
  line=$(echo "$out" | grep "^check=$prop " | head -1)
  ex=$(echo "$line" | sed 's/.*exit=\([0-9]*\).*/\1/'); v=$(echo "$line" | sed 's/.*violations=\([0-9]*\).*/\1/')
  sig=$(echo "$out" | grep -m1 'signature:' | sed 's/.*signature: //')
  other=""
  if [ -n "$extra" ]; then other=$(echo "$out" | grep "^check=$extra " | sed 's/.*exit=\([0-9]*\).*/\1/'); fi
  printf "%s\t%s\t%s\t%s\t%s\t%s\n" "$s" "$prop" "$ex" "$v" "${extra:+$extra exit=$other}" "$sig" | tee -a "$tmp"
done
if [ $# -eq 0 ]; then mv "$tmp" seeded/RESULTS.tsv; else rm -f "$tmp"; fi
