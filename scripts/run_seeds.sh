#!/bin/bash
# usage: [JOBS=4] scripts/run_seeds.sh [seed-dir-name ...]   (default: every /verif/seeded/*)
# Runs every stored seeded change against the quick check of the property it breaks (scratch worktree, never /repo)
# and writes /verif/seeded/RESULTS.tsv: seed <tab> property <tab> exit <tab> violations <tab> sibling <tab> first signature
cd "$(dirname "$0")/.."
if [ "$1" = "--one" ]; then
  s=$2
  prop=$(python3 -c "import json;print(json.load(open('seeded/$s/meta.json'))['property'])")
  extra=""
  # a seed may also be visible to a sibling property's check
  case $prop in C03) extra="C04";; C04) extra="C03";; esac
  drv="cmd/$(echo $prop | tr 'C' 'c')"; [ -n "$extra" ] && drv="cmd/verif"
  out=$(DRIVER=$drv VERIF_BUDGET_S=${VERIF_BUDGET_S:-900} SHOW=2 scripts/try_seed.sh "seeded/$s/patch.diff" quick $prop $extra 2>&1)
  line=$(echo "$out" | grep "^check=$prop " | head -1)
  ex=$(echo "$line" | sed 's/.*exit=\([0-9]*\).*/\1/'); v=$(echo "$line" | sed 's/.*violations=\([0-9]*\).*/\1/')
  sig=$(echo "$out" | grep -m1 'signature:' | sed 's/.*signature: //')
  other=""
  if [ -n "$extra" ]; then other=$(echo "$out" | grep "^check=$extra " | sed 's/.*exit=\([0-9]*\).*/\1/'); fi
  printf "%s\t%s\t%s\t%s\t%s\t%s\n" "$s" "$prop" "$ex" "$v" "${extra:+$extra exit=$other}" "$sig"
  exit 0
fi
seeds=("$@"); [ ${#seeds[@]} -eq 0 ] && seeds=($(ls seeded | grep -E '^C[0-9]+(-r[0-9]+)?-m[0-9]+$'))
tmp=$(mktemp)
printf "%s\n" "${seeds[@]}" | xargs -P "${JOBS:-3}" -I{} "$0" --one {} | tee -a "$tmp"
if [ $# -eq 0 ]; then sort "$tmp" > seeded/RESULTS.tsv; fi
rm -f "$tmp"
