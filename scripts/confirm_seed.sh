#!/bin/bash
# usage: scripts/confirm_seed.sh <seed-out-dir (patch.diff, *_seed_test.go, demo_path.txt, meta.json)> <dest-dir under /verif/seeded>
# Confirms independently, in a scratch worktree: patch applies, project builds, demo FAILS with the patch,
# recorded stable baseline still passes with the patch, demo PASSES without the patch. Then stores the seed.
export GOFLAGS=-mod=mod GOPROXY=off
src=$(readlink -f "$1"); dest=$2
avail=$(df --output=avail -k / | tail -1)
if [ "$avail" -lt 25000000 ]; then go clean -cache 2>/dev/null; fi
slot=""
for i in 0 1 2 3; do
  exec {lockfd}>/tmp/confirmslot-$i.lock
  if flock -n $lockfd; then slot=$i; break; fi
  exec {lockfd}>&-
done
[ -z "$slot" ] && { echo "no free confirm slot"; exit 3; }
wt=/tmp/confirmwt-slot$slot
git -C /repo worktree remove --force "$wt" 2>/dev/null; rm -rf "$wt"; git -C /repo worktree prune
git -C /repo worktree add -q --detach "$wt" HEAD || exit 3
trap 'git -C /repo worktree remove --force "$wt" 2>/dev/null' EXIT
demo_rel=$(head -1 "$src/demo_path.txt" | tr -d '\r' | awk '{print $1}')
demo_file=$(ls "$src"/*_seed_test.go | head -1)
cmd=$(grep -m1 'go test' "$src/demo_path.txt" | sed 's/^[^g]*\(go test.*\)$/\1/' | tr -d '`')
[ -z "$cmd" ] && { echo "no go test command in demo_path.txt"; exit 3; }
mkdir -p "$wt/$(dirname "$demo_rel")"; cp "$demo_file" "$wt/$demo_rel"
cd "$wt"
res_apply=ok; git apply "$src/patch.diff" || res_apply=FAIL
res_build=ok; go build ./... 2>/tmp/confirm-build-$$.log || res_build=FAIL
( eval "$cmd" ) > /tmp/confirm-with-$$.log 2>&1; with_rc=$?
python3 /verif/scripts/baseline_diff.py "$wt" > /tmp/confirm-base-$$.log 2>&1
base_out=$(head -1 /tmp/confirm-base-$$.log)
if ! echo "$base_out" | grep -q 'not passing=0'; then
  # tests that time out under load are retried once, package by package
  pk=$(grep NOT-PASSING /tmp/confirm-base-$$.log | awk '{print $2}' | sed 's/::.*//' | sort -u | sed 's|github.com/bufbuild/buf|.|')
  if [ -n "$pk" ]; then
    retry=$(python3 /verif/scripts/baseline_diff.py "$wt" $pk 2>&1)
    if echo "$retry" | head -1 | grep -q 'not passing=0'; then base_out="$base_out; retried packages [$(echo $pk)]: not passing=0"; else base_out="$base_out; retry: $(echo "$retry" | tr '\n' ' ' | cut -c1-300)"; fi
  fi
fi
git apply -R "$src/patch.diff"
( eval "$cmd" ) > /tmp/confirm-without-$$.log 2>&1; without_rc=$?
ok=no
if [ $res_apply = ok ] && [ $res_build = ok ] && [ $with_rc -ne 0 ] && [ $without_rc -eq 0 ] && echo "$base_out" | grep -q 'not passing=0'; then ok=yes; fi
echo "seed=$src apply=$res_apply build=$res_build demo_with_patch_rc=$with_rc demo_without_patch_rc=$without_rc baseline='$base_out' confirmed=$ok"
if [ $ok = yes ]; then
  mkdir -p "$dest"; cp "$src/patch.diff" "$demo_file" "$src/demo_path.txt" "$dest/"
  python3 - "$src/meta.json" "$dest/meta.json" "$cmd" "$base_out" <<'PY'
import json,sys
m=json.load(open(sys.argv[1]))
m["confirmed_by_me"]={"procedure":"scratch worktree of /repo HEAD: git apply patch.diff; go build ./...; demo test fails; scripts/baseline_diff.py (full suite vs BASELINE.json stable_pass) ; git apply -R; demo test passes","demo_cmd":sys.argv[3],"baseline":sys.argv[4],"demo_fails_with_patch":True,"demo_passes_without_patch":True}
json.dump(m,open(sys.argv[2],"w"),indent=1)
PY
fi
rm -f /tmp/confirm-*-$$.log
