# sourced by every script: offline Go environment for the harness
export GOFLAGS=-mod=mod GOPROXY=off GOSUMDB=off GOTOOLCHAIN=local
export GOCACHE=${VERIF_GOCACHE:-/verif/.gocache}
export CGO_ENABLED=0
VERIF_ROOT=$(cd "$(dirname "${BASH_SOURCE[0]}")/.." && pwd)
export VERIF_ROOT
