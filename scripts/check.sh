#!/bin/bash
# usage: scripts/check.sh <Cnn> <quick|thorough>
. "$(dirname "$0")/env.sh"
cd "$VERIF_ROOT"
if ! out=$(scripts/build.sh 2>&1); then
  echo "$out"
  echo "BUILD-FAILED property=$1 (harness or /repo does not compile with -tags verif)"
  exit 2
fi
exec bin/verif check "$1" --tier "${2:-quick}"
