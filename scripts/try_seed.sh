#!/bin/bash
# usage: [DRIVER=cmd/c05] scripts/try_seed.sh <patch.diff> <tier> <Cnn> [<Cnn>...]   (DRIVER: build only that private driver)
# Applies the patch to a scratch worktree of /repo (never to /repo itself), builds the driver against that
# worktree through an alternate go.mod, runs the named checks with evidence/replays redirected to a scratch
# VERIF_ROOT, prints one line per check, and removes everything again.
. "$(dirname "$0")/env.sh"
patch=$(readlink -f "$1"); tier=$2; shift 2
id=$$
out=/tmp/mutroot-$id
# free space guard: every distinct worktree path adds a full set of build-cache entries
avail=$(df --output=avail -k / | tail -1)
if [ "$avail" -lt 25000000 ]; then GOCACHE=$GOCACHE go clean -cache 2>/dev/null; go clean -cache 2>/dev/null; fi
# a fixed set of worktree paths (slots), so that the Go build cache is reused between trials
slot=""
for i in 0 1 2 3 4 5 6 7 8 9 10 11; do
  exec {lockfd}>/tmp/mutslot-$i.lock
  if flock -n $lockfd; then slot=$i; break; fi
  exec {lockfd}>&-
done
[ -z "$slot" ] && { echo "no free trial slot"; exit 3; }
wt=/tmp/mutwt-slot$slot
git -C /repo worktree remove --force "$wt" 2>/dev/null; rm -rf "$wt"; git -C /repo worktree prune
git -C /repo worktree add -q --detach "$wt" HEAD || exit 3
cleanup() { git -C /repo worktree remove --force "$wt" 2>/dev/null; rm -rf "$out" /tmp/mut-$id.mod /tmp/mut-$id.sum; }
trap cleanup EXIT
if ! git -C "$wt" apply "$patch"; then echo "PATCH-DOES-NOT-APPLY $patch"; exit 3; fi
mkdir -p "$out/bin"
sed "s|=> /repo|=> $wt|" "$VERIF_ROOT/go.mod" > /tmp/mut-$id.mod; cp "$VERIF_ROOT/go.sum" /tmp/mut-$id.sum
cd "$VERIF_ROOT"
if ! go build -modfile=/tmp/mut-$id.mod -tags verif,mapseed -overlay "$VERIF_ROOT/overlay/mapseed.json" -o "$out/bin/verif" ./${DRIVER:-cmd/verif} 2> "$out/build.log"; then
  echo "MUTANT-BUILD-FAILED"; head -20 "$out/build.log"; exit 3
fi
cp "$VERIF_ROOT/known_findings.json" "$out/" 2>/dev/null
rc=0
for c in "$@"; do
  start=$(date +%s)
  VERIF_ROOT="$out" "$out/bin/verif" check "$c" --tier "$tier" > "$out/$c.log" 2>&1
  code=$?
  n=$(grep -c '^VIOLATION' "$out/$c.log")
  echo "check=$c tier=$tier exit=$code violations=$n wall=$(( $(date +%s) - start ))s"
  grep -A2 '^VIOLATION' "$out/$c.log" | grep -v '^--' | head -${SHOW:-9}
  grep -E "^$c (quick|thorough):|incomplete:" "$out/$c.log" | head -5
  [ $code -eq 1 ] && rc=1
done
exit $rc
