#!/bin/bash
# rebuild the driver from /repo's current working tree with hooks on
set -e
. "$(dirname "$0")/env.sh"
cd "$VERIF_ROOT"
cmp -s /repo/go.sum go.sum || cp /repo/go.sum go.sum
mkdir -p bin
exec 9>bin/.buildlock
flock 9
go build -tags verif,mapseed -overlay overlay/mapseed.json -o bin/verif ./cmd/verif
