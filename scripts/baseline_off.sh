#!/bin/bash
# the repository's own test suite with the verif guard OFF (no -tags verif), offline
export GOFLAGS=-mod=mod GOPROXY=off GOSUMDB=off
cd /repo && go test -json -vet=off -count=1 -timeout 25m ./...
