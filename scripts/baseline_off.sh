#!/bin/bash
# the repository's own test suite with the verif guard OFF (no -tags verif), offline.
# GOSUMDB / GOTOOLCHAIN are deliberately left alone: go.mod asks for go1.24.2 and the toolchain switch
# (served from the module cache) refuses to run with GOSUMDB=off.
unset GOSUMDB GOTOOLCHAIN
export GOFLAGS=-mod=mod GOPROXY=off
cd /repo && go test -json -vet=off -count=1 -timeout 25m ./...
