#!/usr/bin/env python3
"""usage: seed_status.py <seed-name> <first|after|pending> [...]   - sets/adds rows of seeded/STATUS.tsv"""
import json, os, re, sys
root = os.path.join(os.path.dirname(os.path.abspath(__file__)), '..')
p = os.path.join(root, 'seeded/STATUS.tsv')
rows = [l.rstrip('\n').split('\t') for l in open(p) if l.strip()]
idx = {r[0]: r for r in rows}
args = sys.argv[1:]
for name, st in zip(args[0::2], args[1::2]):
    m = re.match(r'(C\d+)(?:-r(\d+))?-m(\d+)$', name)
    rnd = m.group(2) or '1'
    if name in idx:
        idx[name][2] = st
        continue
    title = ''
    for mp in (os.path.join(root, 'seeded', name, 'meta.json'),
               '/tmp/seedout%s-%s/m%s/meta.json' % ('' if rnd == '1' else rnd, m.group(1), m.group(3))):
        if os.path.exists(mp):
            title = ' '.join(json.load(open(mp)).get('title', '').split())[:300]
            break
    r = [name, rnd, st, title]
    rows.append(r); idx[name] = r
open(p, 'w').write('\n'.join('\t'.join(r) for r in rows) + '\n')
