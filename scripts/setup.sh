#!/bin/bash
set -e
. "$(dirname "$0")/env.sh"
cd "$VERIF_ROOT"
scripts/build.sh
echo setup ok
