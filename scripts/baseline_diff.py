#!/usr/bin/env python3
"""Runs the repository test suite (guard off) in DIR (default /repo) and lists stable-pass baseline tests that do not pass."""
import json, subprocess, sys, os
d = sys.argv[1] if len(sys.argv) > 1 else "/repo"
pk = sys.argv[2:] or ["./..."]
base = set(json.load(open("/root/.vp/BASELINE.json"))["stable_pass"])
env = dict(os.environ, GOFLAGS="-mod=mod", GOPROXY="off")
env.pop("GOTOOLCHAIN", None); env.pop("GOSUMDB", None)
p = subprocess.run(["go", "test", "-json", "-vet=off", "-count=1", "-timeout", "25m"] + pk, cwd=d, env=env, capture_output=True, text=True)
res = {}
pkgs = set()
for line in p.stdout.splitlines():
    try: e = json.loads(line)
    except Exception: continue
    if e.get("Test") and e.get("Action") in ("pass", "fail", "skip"):
        res[e["Package"] + "::" + e["Test"]] = e["Action"]
    if e.get("Package"): pkgs.add(e["Package"])
bad = sorted(t for t in base if t.split("::")[0] in pkgs and res.get(t) != "pass")
print(f"packages={len(pkgs)} baseline tests in scope={sum(1 for t in base if t.split('::')[0] in pkgs)} not passing={len(bad)}")
for t in bad: print("  NOT-PASSING", t, res.get(t))
sys.exit(1 if bad else 0)
